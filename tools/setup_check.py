#!/venv/bin/python
"""setup_cmd: nothing is installed; verify that what the checks need is present."""
import shutil
import sys

ok = True
try:
    import Cython  # noqa
    import networkx  # noqa
except Exception as e:  # pragma: no cover
    print("missing python dependency:", e)
    ok = False
if shutil.which("clang++") is None:
    print("clang++ not on PATH")
    ok = False
print("setup ok" if ok else "setup FAILED")
sys.exit(0 if ok else 1)
