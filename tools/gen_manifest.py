#!/venv/bin/python
"""Regenerate /verif/MANIFEST.json from the rule modules present under /verif/rules."""
import importlib
import json
import os
import sys

HERE = os.path.dirname(os.path.dirname(os.path.abspath(__file__)))
sys.path.insert(0, HERE)

NOT_APPLICABLE = {
    "C01": "Optimality of an exponential DP and its witness are statements about runtime tables (min over 2^reads x 4^trios x allele assignments); no structural clause is a necessary condition whose breakage breaks the optimum, so static analysis has nothing sound to decide (DESIGN.md section 3, C01).",
    "C02": "Whole-pipeline input/output value equality (C01 o C06 o C07 o C03 o C04); its structural parts are claimed under those properties, nothing additional is statically decidable (DESIGN.md section 3, C02).",
    "C08": "Floating-point forward-backward posterior and its formatting (GL/GQ/GT) are arithmetic value facts, not code shape; a rule pinning a comparison operator would be a frozen-fragment match (DESIGN.md section 3, C08).",
    "C19": "Combinatorial-number-system arithmetic and a DP recurrence over all strings are value-level; the only shape clause (getstate/setstate tuple order) is too thin to carry the property (DESIGN.md section 3, C19).",
}

props = [json.loads(l) for l in open(os.path.join(HERE, "properties.jsonl"))]
checks = []
na = []
for p in props:
    pid = p["id"]
    try:
        mod = importlib.import_module("rules.%s" % pid.lower())
    except ModuleNotFoundError:
        na.append({"property_id": pid, "reason": NOT_APPLICABLE.get(pid, "static rules for this property are not built yet (see DESIGN.md section 8); not claimed")})
        continue
    rules = "; ".join("%s %s" % (rid, title) for rid, title, _ in mod.RULES)
    checks.append(
        {
            "property_id": pid,
            "quick_cmd": "/venv/bin/python /verif/check %s --tier quick" % pid,
            "thorough_cmd": "/venv/bin/python /verif/check %s --tier thorough" % pid,
            "evidence_file": "/verif/evidence/%s.json" % pid,
            "replay_cmd_template": "/venv/bin/python /verif/check --replay {path}",
            "engine": "sa",
            "level_claimed": {
                "category": "other",
                "text": "Static analysis of /repo's current source; decides necessary structural clauses of the property for every input/path at once, not the behaviour itself. "
                + mod.EXPLANATION
                + " Not decided: "
                + getattr(mod, "NOT_DECIDED", ""),
                "design_ref": "DESIGN.md section 3, %s" % pid,
            },
            "level_note": "Trusted base: Python ast, the Cython parser, clang's front end, the frozen fact tables in /verif/rules (each with a reason), pysam's documented semantics. Assumptions: "
            + "; ".join(getattr(mod, "ASSUMPTIONS", [])),
            "technique": getattr(mod, "TECHNIQUE", "static analysis: custom CFG/dominator, effect-summary and table-agreement rules over the ast of /repo (" + rules + ")"),
        }
    )

manifest = {
    "version": 1,
    "setup_cmd": "/venv/bin/python /verif/tools/setup_check.py",
    "hooks": {
        "guard": "WHATSHAP_VERIF",
        "enable": "not needed: every check reads /repo's source and never runs it; no hook was added to whatshap",
        "baseline_off_cmd": "cd /repo && /venv/bin/python -m pytest -ra -q -p no:cacheprovider --timeout=900 --continue-on-collection-errors",
        "source_commits": [],
        "add_only": True,
    },
    "engines": [
        {
            "name": "sa",
            "path": "/verif/sa",
            "serves_properties": [c["property_id"] for c in checks],
            "kind_free_text": "repository-specific static analyser: Python ast + Cython parse trees lowered to ast + clang JSON AST; statement CFG with dominators (networkx); guard atoms; effect summaries; set algebra; table/role agreement rules; instance floors; sensitivity audit on ast/text-edited variants",
        }
    ],
    "checks": checks,
    "not_applicable": na,
    "notes": "Exit codes: 0 all obligations hold (KNOWN-FINDING lines for listed findings), 1 VIOLATION, 2 ANALYSIS-ERROR (checker could not run: parse failure, vanished anchor, instance floor missed). Known/fixed findings: /verif/known_findings.json.",
}
json.dump(manifest, open(os.path.join(HERE, "MANIFEST.json"), "w"), indent=1)
print("checks:", [c["property_id"] for c in checks])
print("not_applicable:", [n["property_id"] for n in na])
