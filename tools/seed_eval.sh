#!/bin/bash
# usage: seed_eval.sh <patch> <PID> [tier]   -- apply a seeded patch to /repo, run the check, undo
PATCH=$1; PID=$2; TIER=${3:-quick}
cd /repo || exit 9
if ! git diff --quiet; then echo "/repo is dirty"; exit 9; fi
git apply "$PATCH" || { echo "patch does not apply"; exit 9; }
/verif/check $PID --tier $TIER --no-evidence | grep -v "^  C[0-9][0-9]\.R\|^    |\|^  note"
git checkout -- .
