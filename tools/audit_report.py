#!/venv/bin/python
"""Run the sensitivity audit of one or all properties and print verdict per variant (development aid)."""
import importlib, os, sys
HERE = os.path.dirname(os.path.dirname(os.path.abspath(__file__)))
sys.path.insert(0, HERE)
os.environ.setdefault("VERIF_CACHE", os.path.join(HERE, ".cache"))
from sa import audit, framework as fw
from sa.model import AnalysisError
pids = sys.argv[1:] or sorted(importlib.import_module("rules.variants").VARIANTS)
for pid in pids:
    propmod = importlib.import_module("rules.%s" % pid.lower())
    ctx, missed = fw.run_property(propmod, "/repo", "quick")
    try:
        out = audit.thorough_extras(pid, propmod, "/repo", ctx)
        a = out["audit"]
        print(pid, a["summary"], a["wall_s"])
        for d in a["detail"]:
            if d["verdict"] not in ("detected", "silent"):
                print("   ", d)
    except AnalysisError as e:
        print(pid, "AUDIT FAILED:")
        for part in str(e).split("; "):
            print("   ", part)
