#!/venv/bin/python
"""Show a function as the rules see it (after alpha + de-refactoring) for a patch applied on an overlay.
usage: show_norm.py <patch.diff|-> <qualname> [...]"""
import ast, os, re, shutil, subprocess, sys, tempfile
VERIF = os.path.dirname(os.path.dirname(os.path.abspath(__file__)))
sys.path.insert(0, VERIF)
os.environ.setdefault("VERIF_CACHE", os.path.join(VERIF, ".cache"))
patchf = sys.argv[1]
tmp = None
if patchf != "-":
    patch = open(patchf).read()
    files = re.findall(r"^\+\+\+ b/(\S+)", patch, re.M)
    tmp = tempfile.mkdtemp(prefix="verif_show_")
    for f in files:
        os.makedirs(os.path.dirname(os.path.join(tmp, f)), exist_ok=True)
        shutil.copyfile(os.path.join("/repo", f), os.path.join(tmp, f))
    subprocess.run(["patch", "-p1", "-s", "-f", "-d", tmp], input=patch.encode(), check=True)
    os.environ["VERIF_OVERLAY"] = tmp
try:
    from sa.model import Program
    prog = Program("/repo", want_pyx=True)
    print("derefactored:", {k: v for k, v in prog.derefactored.items()})
    for q in sys.argv[2:]:
        fi = prog.functions.get(q)
        if fi is None:
            print("no function", q, "; candidates:", [k for k in prog.functions if k.endswith(q.split(".")[-1])][:8])
            continue
        print("=" * 20, q)
        print(ast.unparse(fi.node))
finally:
    if tmp:
        shutil.rmtree(tmp, ignore_errors=True)
