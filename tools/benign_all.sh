#!/bin/bash
# evaluate every benign refactoring under $BENIGNROOT (default /tmp/benign) in parallel; print one line each
ROOT=${BENIGNROOT:-/tmp/benign}
mkdir -p $ROOT/eval
ls $ROOT/*/out/*.patch.diff | while read f; do p=$(basename $(dirname $(dirname $f))); v=$(basename $f .patch.diff); echo "$p $v $f"; done | \
  xargs -P 12 -L 1 bash -c '/venv/bin/python /verif/tools/benign_eval.py $2 $0 > '$ROOT'/eval/$0-$1.txt 2>&1'
for f in $ROOT/eval/*.txt; do echo "$(basename $f .txt) $(head -1 $f)"; done | sort > $ROOT/eval/SUMMARY.txt
awk '{print $2}' $ROOT/eval/SUMMARY.txt | sort | uniq -c
