#!/venv/bin/python
"""Import confirmed seeded changes of ONE round (argument: its root, default /tmp/seed6; earlier rounds are committed and
may have been re-derived on a repaired tree since) from <root>/<PID>/out into /verif/seeded/<PID>-<V>/ and
record which rule of the property's check reports them (run against an overlay, /repo untouched)."""
import json, os, re, shutil, subprocess, sys, tempfile

VERIF = os.path.dirname(os.path.dirname(os.path.abspath(__file__)))
rows = []
for SEED, pid in sorted((root, pid) for root in (sys.argv[1:] or ["/tmp/seed6"]) if os.path.isdir(root) for pid in os.listdir(root)):
    out = os.path.join(SEED, pid, "out")
    if not os.path.isdir(out):
        continue
    for v in ("A", "B", "C", "D", "E", "F", "G", "H", "I", "J", "K", "L"):
        conf = os.path.join(out, v + ".confirm.json")
        if not os.path.exists(conf):
            continue
        c = json.load(open(conf))
        if not c.get("ok"):
            print("NOT CONFIRMED", pid, v, c)
            continue
        dst = os.path.join(VERIF, "seeded", "%s-%s" % (pid, v))
        os.makedirs(dst, exist_ok=True)
        rebased = None
        if os.path.exists(os.path.join(dst, "meta.json")):
            rebased = json.load(open(os.path.join(dst, "meta.json"))).get("rebased")
        if not rebased:  # a patch re-derived after a repair of /repo is kept as committed
            shutil.copyfile(os.path.join(out, v + ".patch.diff"), os.path.join(dst, "patch.diff"))
        shutil.copyfile(os.path.join(out, v + ".demo.py"), os.path.join(dst, "demo.py"))
        meta = json.load(open(os.path.join(out, v + ".meta.json")))
        # detection on an overlay
        patch = open(os.path.join(dst, "patch.diff")).read()
        files = re.findall(r"^\+\+\+ b/(\S+)", patch, re.M)
        tmp = tempfile.mkdtemp(prefix="verif_seed_")
        try:
            for f in files:
                os.makedirs(os.path.dirname(os.path.join(tmp, f)), exist_ok=True)
                shutil.copyfile(os.path.join("/repo", f), os.path.join(tmp, f))
            r = subprocess.run(["patch", "-p1", "-s", "-d", tmp], input=patch.encode(), stdout=subprocess.PIPE, stderr=subprocess.STDOUT)
            applies = r.returncode == 0
            verdict, rules = "patch does not apply to current /repo", []
            if applies:
                env = dict(os.environ, VERIF_OVERLAY=tmp)
                r = subprocess.run([os.path.join(VERIF, "check"), pid, "--no-evidence"], env=env, stdout=subprocess.PIPE, stderr=subprocess.STDOUT)
                txt = r.stdout.decode()
                rules = sorted(set(re.findall(r"replay=\S*/(C\d+\.R\d+)-", txt)))
                verdict = {0: "MISSED", 1: "caught", 2: "analysis-error"}.get(r.returncode, str(r.returncode))
                first = [l.strip() for l in txt.splitlines() if l.startswith("  C")][:1]
        finally:
            shutil.rmtree(tmp, ignore_errors=True)
        meta_out = {
            "property": pid,
            "variant": v,
            "files_changed": files,
            "summary": meta.get("summary"),
            "needs_to_manifest": meta.get("needs_to_manifest"),
            "source": "written by an independent sub-agent that saw only the property text and a private worktree",
            "confirmed": {
                "how": "tools/confirm_seed.sh %s %s in the scratch worktree %s/%s/wt (git apply; demo; full pytest suite; git checkout; demo)" % (pid, v, SEED, pid),
                "demo_rc_with_patch": c["demo_rc_with_patch"],
                "demo_rc_without_patch": c["demo_rc_without_patch"],
                "tests_with_patch": c["tests_summary"],
                "unexpected_test_failures": c["unexpected_test_failures"],
                "native_rebuild": bool(c["native_rebuild"]),
            },
            "check": {"command": "VERIF_OVERLAY=<patched files> /verif/check %s" % pid, "verdict": verdict, "rules": rules, "first_report": first[0] if applies and first else None},
        }
        if rebased:
            meta_out["rebased"] = rebased
        json.dump(meta_out, open(os.path.join(dst, "meta.json"), "w"), indent=1)
        rows.append((pid, v, verdict if os.path.exists(os.path.join(dst, "first_verdict.txt")) is False else verdict, ",".join(rules), (meta.get("summary") or "")[:110].replace("\n", " ")))
with open(os.path.join(VERIF, "seeded", "INDEX.md"), "w") as f:
    f.write("# Seeded changes (independently written, each confirmed in a scratch worktree)\n\n| seed | verdict of /verif/check | rules that report it | change |\n|---|---|---|---|\n")
    for r in rows:
        f.write("| %s-%s | %s | %s | %s |\n" % r)
for r in rows:
    print("%s-%s  %-14s %-22s %s" % r)
