#!/venv/bin/python
"""Robustness probe: rename every local variable (not parameters, not globals) of each function a property
analyses, one function at a time, and report whether the property's check stays silent."""
import ast, importlib, json, os, shutil, subprocess, sys, tempfile
HERE = os.path.dirname(os.path.dirname(os.path.abspath(__file__)))
sys.path.insert(0, HERE)
os.environ.setdefault("VERIF_CACHE", os.path.join(HERE, ".cache"))
from sa.model import Program

pid = sys.argv[1]
ev = json.load(open(os.path.join(HERE, "evidence", pid + ".json")))
funcs = ev["coverage"]["functions_analysed"]
prog = Program("/repo", want_pyx=False)

def rename_function(fnode):
    params = {a.arg for a in fnode.args.posonlyargs + fnode.args.args + fnode.args.kwonlyargs}
    if fnode.args.vararg: params.add(fnode.args.vararg.arg)
    if fnode.args.kwarg: params.add(fnode.args.kwarg.arg)
    assigned = set()
    for n in ast.walk(fnode):
        if isinstance(n, ast.Name) and isinstance(n.ctx, ast.Store):
            assigned.add(n.id)
        if isinstance(n, (ast.Global, ast.Nonlocal)):
            params |= set(n.names)
    # nested defs referencing outer locals are renamed as well (ast.walk covers them)
    locals_ = assigned - params
    for n in ast.walk(fnode):
        if isinstance(n, ast.Name) and n.id in locals_:
            n.id = n.id + "_rn"
        if isinstance(n, ast.ExceptHandler) and n.name in locals_:
            n.name = n.name + "_rn"
    return locals_

results = []
for q in funcs:
    fi = prog.functions.get(q)
    if fi is None or fi.module.kind != "py":
        continue
    tree = ast.parse(open(fi.module.path).read())
    # locate the same function in the fresh tree
    target = None
    for n in ast.walk(tree):
        if isinstance(n, (ast.FunctionDef, ast.AsyncFunctionDef)) and n.name == fi.node.name and n.lineno == fi.node.lineno:
            target = n
    if target is None:
        continue
    renamed = rename_function(target)
    if not renamed:
        continue
    tmp = tempfile.mkdtemp(prefix="verif_rn_")
    try:
        dst = os.path.join(tmp, fi.module.relpath)
        os.makedirs(os.path.dirname(dst), exist_ok=True)
        open(dst, "w").write(ast.unparse(tree))
        r = subprocess.run([os.path.join(HERE, "check"), pid, "--no-evidence"], env=dict(os.environ, VERIF_OVERLAY=tmp), stdout=subprocess.PIPE, stderr=subprocess.STDOUT)
        out = r.stdout.decode()
        viol = [l.split("replay=")[1].split("/")[-1] for l in out.splitlines() if l.startswith("VIOLATION")]
        err = [l for l in out.splitlines() if l.startswith("ANALYSIS-ERROR")]
        results.append((q, r.returncode, len(renamed), viol[:6], err[:1]))
    finally:
        shutil.rmtree(tmp, ignore_errors=True)
ok = sum(1 for r in results if r[1] == 0)
print("%s: %d functions probed, %d silent" % (pid, len(results), ok))
for q, rc, n, viol, err in results:
    if rc != 0:
        print("  rc=%d %-60s (%d locals) %s %s" % (rc, q, n, viol, err))
