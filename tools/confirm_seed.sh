#!/bin/bash
# usage: confirm_seed.sh <PID> <VARIANT>
# Confirms a seeded change in the scratch worktree /tmp/seed/<PID>/wt:
#   demo fails with the patch, whole test suite still at baseline (430 passed / 3 known failures),
#   demo passes without the patch.  Writes /tmp/seed/<PID>/out/<VARIANT>.confirm.json
PID=$1; V=$2
ROOT=${SEEDROOT:-/tmp/seed}; WT=$ROOT/$PID/wt; OUT=$ROOT/$PID/out
PATCH=$OUT/$V.patch.diff; DEMO=$OUT/$V.demo.py
cd $WT || exit 9
git checkout -q -- . ; git clean -fdq -e '*.so' -e 'whatshap/_version.py' -e '*.cpp' -e build 2>/dev/null
NATIVE=0
if grep -qE '^\+\+\+ b/.*\.(pyx|pxd|cpp|h)$' $PATCH; then NATIVE=1; fi
git apply $PATCH || { echo '{"ok": false, "why": "patch does not apply"}' > $OUT/$V.confirm.json; exit 1; }
if [ $NATIVE = 1 ]; then /venv/bin/python setup.py build_ext -i > $OUT/$V.build.log 2>&1 || { echo '{"ok": false, "why": "build failed"}' > $OUT/$V.confirm.json; git checkout -q -- .; exit 1; }; fi
/venv/bin/python $DEMO > $OUT/$V.demo_with.log 2>&1; RC_WITH=$?
/venv/bin/python -m pytest -q -p no:cacheprovider --timeout=900 tests whatshap --doctest-modules > $OUT/$V.tests.log 2>&1
SUMMARY=$(tail -1 $OUT/$V.tests.log)
FAILED=$(grep -c '^FAILED' $OUT/$V.tests.log)
OTHER=$(grep '^FAILED\|^ERROR' $OUT/$V.tests.log | grep -vc 'test_vcf_with_missing_headers')
git checkout -q -- .
if [ $NATIVE = 1 ]; then /venv/bin/python setup.py build_ext -i >> $OUT/$V.build.log 2>&1; fi
/venv/bin/python $DEMO > $OUT/$V.demo_without.log 2>&1; RC_WITHOUT=$?
OK=false
if [ $RC_WITH != 0 ] && [ $RC_WITHOUT = 0 ] && [ "$OTHER" = 0 ] && echo "$SUMMARY" | grep -q '430 passed'; then OK=true; fi
cat > $OUT/$V.confirm.json <<JSON
{"ok": $OK, "demo_rc_with_patch": $RC_WITH, "demo_rc_without_patch": $RC_WITHOUT, "tests_summary": "$SUMMARY", "unexpected_test_failures": $OTHER, "native_rebuild": $NATIVE}
JSON
cat $OUT/$V.confirm.json
