#!/venv/bin/python
"""Run a property's check on a behaviour-preserving patch (scratch overlay, /repo untouched).
usage: benign_eval.py <patch.diff> <PID> [tier]  -> prints verdict: silent | FALSE-ALARM (rc 1) | ANALYSIS-ERROR (rc 2)"""
import os, re, shutil, subprocess, sys, tempfile
VERIF = os.path.dirname(os.path.dirname(os.path.abspath(__file__)))
patchf, pid = sys.argv[1], sys.argv[2]
tier = sys.argv[3] if len(sys.argv) > 3 else "quick"
patch = open(patchf).read()
files = re.findall(r"^\+\+\+ b/(\S+)", patch, re.M)
tmp = tempfile.mkdtemp(prefix="verif_benign_")
try:
    for f in files:
        os.makedirs(os.path.dirname(os.path.join(tmp, f)), exist_ok=True)
        if os.path.exists(os.path.join("/repo", f)):
            shutil.copyfile(os.path.join("/repo", f), os.path.join(tmp, f))
    r = subprocess.run(["patch", "-p1", "-s", "-f", "-d", tmp], input=patch.encode(), stdout=subprocess.PIPE, stderr=subprocess.STDOUT)
    if r.returncode != 0:
        print("patch does not apply:", r.stdout.decode()[:200]); sys.exit(3)
    for dp, dn, fn in os.walk(tmp):
        for x in fn:
            if x.endswith((".orig", ".rej")):
                os.unlink(os.path.join(dp, x))
    r = subprocess.run([os.path.join(VERIF, "check"), pid, "--no-evidence", "--tier", tier], env=dict(os.environ, VERIF_OVERLAY=tmp), stdout=subprocess.PIPE, stderr=subprocess.STDOUT)
    out = r.stdout.decode()
    verdict = {0: "silent", 1: "FALSE-ALARM", 2: "ANALYSIS-ERROR"}.get(r.returncode, "rc=%d" % r.returncode)
    print(verdict)
    for l in out.splitlines():
        if l.startswith(("VIOLATION", "ANALYSIS-ERROR", "  C")) and ("VIOLATION" in l or "ANALYSIS" in l or re.match(r"  C\d+\.R\d+  ", l)):
            print("   ", l[:400])
    sys.exit(r.returncode)
finally:
    shutil.rmtree(tmp, ignore_errors=True)
