#!/venv/bin/python
"""Regenerate reference/names.json from the current /repo (run after every fix: commit in /repo)."""
import json, os, sys
HERE = os.path.dirname(os.path.dirname(os.path.abspath(__file__)))
sys.path.insert(0, HERE)
os.environ["VERIF_NO_ALPHA"] = "1"
os.environ.setdefault("VERIF_CACHE", os.path.join(HERE, ".cache"))
from sa.model import Program
from sa import alpha
prog = Program("/repo", want_pyx=True)
ref = alpha.build_reference(prog)
with open(alpha.REF_PATH, "w") as f:
    json.dump(ref, f, indent=0, sort_keys=True)
print("functions:", sum(1 for k in ref if not k.startswith("#")), "modules with globals:", sum(1 for k in ref if k.startswith("#globals:")))
