#!/venv/bin/python
"""Import confirmed behaviour-preserving refactorings from $BENIGNROOT/<PID>/out into /verif/benign/<PID>-<V>/ and record the
verdict of the property's check on them (scratch overlay; /repo untouched)."""
import json, os, re, shutil, subprocess, sys
VERIF = os.path.dirname(os.path.dirname(os.path.abspath(__file__)))
roots = [r for r in (sys.argv[1:] or ["/tmp/benign5"]) if os.path.isdir(r)]  # one round at a time: earlier rounds are committed
rows = []
for ROOT in dict.fromkeys(roots):
    tag = {"/tmp/benign": "", "/tmp/benign2": "b", "/tmp/benign3": "c", "/tmp/benign4": "d", "/tmp/benign5": "e", "/tmp/benign6": "f"}.get(ROOT, "")
    for pid in sorted(os.listdir(ROOT)):
        out = os.path.join(ROOT, pid, "out")
        if not os.path.isdir(out):
            continue
        for v in ("R1", "R2", "R3", "R4"):
            conf = os.path.join(out, v + ".confirm.json")
            if not os.path.exists(conf):
                continue
            c = json.load(open(conf))
            if not c.get("ok"):
                print("NOT CONFIRMED", pid, v, c)
                continue
            vid = v + tag
            dst = os.path.join(VERIF, "benign", "%s-%s" % (pid, vid))
            os.makedirs(dst, exist_ok=True)
            rebased = None
            if os.path.exists(os.path.join(dst, "meta.json")):
                rebased = json.load(open(os.path.join(dst, "meta.json"))).get("rebased")
            if not rebased:  # a patch re-derived after a repair of /repo is kept as committed
                shutil.copyfile(os.path.join(out, v + ".patch.diff"), os.path.join(dst, "patch.diff"))
            meta = json.load(open(os.path.join(out, v + ".meta.json")))
            r = subprocess.run([os.path.join(VERIF, "tools", "benign_eval.py"), os.path.join(dst, "patch.diff"), pid], stdout=subprocess.PIPE, stderr=subprocess.STDOUT)
            verdict = r.stdout.decode().splitlines()[0] if r.stdout else "?"
            json.dump({
                "property": pid, "variant": vid, "files_changed": meta.get("files_changed"), "kind": meta.get("kind"), "summary": meta.get("summary"),
                "why_equivalent": meta.get("why_equivalent"),
                "source": "written by an independent sub-agent that saw only the property text and a private worktree",
                "confirmed": {"how": "tools/confirm_benign.sh %s %s in the scratch worktree %s/%s/wt (git apply; optional equivalence script with and without the patch; full pytest suite; git checkout)" % (pid, v, ROOT, pid), "tests_with_patch": c["tests_summary"], "unexpected_test_failures": c["unexpected_test_failures"], "equiv_same_digest": c.get("equiv_same_digest"), "native_rebuild": bool(c.get("native_rebuild"))},
                "check": {"command": "tools/benign_eval.py benign/%s-%s/patch.diff %s" % (pid, vid, pid), "verdict": verdict},
                **({"rebased": rebased} if rebased else {}),
            }, open(os.path.join(dst, "meta.json"), "w"), indent=1)
            rows.append((pid, vid, verdict, (meta.get("kind") or "")[:60].replace("\n", " "), (meta.get("summary") or "")[:110].replace("\n", " ")))
with open(os.path.join(VERIF, "benign", "INDEX.md"), "w") as f:
    f.write("# Behaviour-preserving refactorings (independently written, each confirmed in a scratch worktree)\n\n| refactoring | verdict of /verif/check | kind | change |\n|---|---|---|---|\n")
    for r in rows:
        f.write("| %s-%s | %s | %s | %s |\n" % r)
import collections
print(collections.Counter(r[2] for r in rows))
