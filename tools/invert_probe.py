#!/venv/bin/python
"""Robustness probe: invert every plain if/else (not elif chains) of each analysed function
(`if A: X else: Y` -> `if not A: Y else: X`), one function at a time; the check must stay silent."""
import ast, json, os, shutil, subprocess, sys, tempfile
HERE = os.path.dirname(os.path.dirname(os.path.abspath(__file__)))
sys.path.insert(0, HERE)
os.environ.setdefault("VERIF_CACHE", os.path.join(HERE, ".cache"))
from sa.model import Program

pid = sys.argv[1]
ev = json.load(open(os.path.join(HERE, "evidence", pid + ".json")))
prog = Program("/repo", want_pyx=False)
results = []
for q in ev["coverage"]["functions_analysed"]:
    fi = prog.functions.get(q)
    if fi is None or fi.module.kind != "py":
        continue
    tree = ast.parse(open(fi.module.path).read())
    target = None
    for n in ast.walk(tree):
        if isinstance(n, (ast.FunctionDef, ast.AsyncFunctionDef)) and n.name == fi.node.name and n.lineno == fi.node.lineno:
            target = n
    if target is None:
        continue
    k = 0
    for n in ast.walk(target):
        if isinstance(n, ast.If) and n.orelse and not (len(n.orelse) == 1 and isinstance(n.orelse[0], ast.If)):
            par_is_elif = False
            n.test = ast.UnaryOp(op=ast.Not(), operand=n.test)
            n.body, n.orelse = n.orelse, n.body
            k += 1
    if not k:
        continue
    ast.fix_missing_locations(tree)
    tmp = tempfile.mkdtemp(prefix="verif_inv_")
    try:
        dst = os.path.join(tmp, fi.module.relpath)
        os.makedirs(os.path.dirname(dst), exist_ok=True)
        open(dst, "w").write(ast.unparse(tree))
        r = subprocess.run([os.path.join(HERE, "check"), pid, "--no-evidence"], env=dict(os.environ, VERIF_OVERLAY=tmp), stdout=subprocess.PIPE, stderr=subprocess.STDOUT)
        out = r.stdout.decode()
        viol = [l.split("replay=")[1].split("/")[-1] for l in out.splitlines() if l.startswith("VIOLATION")]
        err = [l[:200] for l in out.splitlines() if l.startswith("ANALYSIS-ERROR")]
        results.append((q, r.returncode, k, viol[:5], err[:1]))
    finally:
        shutil.rmtree(tmp, ignore_errors=True)
print("%s: %d functions with if/else probed, %d silent" % (pid, len(results), sum(1 for r in results if r[1] == 0)))
for q, rc, k, viol, err in results:
    if rc != 0:
        print("  rc=%d %-55s (%d ifs) %s %s" % (rc, q, k, viol, err))
