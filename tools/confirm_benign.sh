#!/bin/bash
# usage: confirm_benign.sh <PID> <VARIANT>   (env BENIGNROOT, default /tmp/benign)
# Confirms a behaviour-preserving refactoring in the scratch worktree <root>/<PID>/wt: the patch applies,
# (native code is rebuilt if touched), the whole test suite stays at baseline (430 passed / 3 known failures),
# and the optional equivalence script prints the same digest with and without the patch.
PID=$1; V=$2
ROOT=${BENIGNROOT:-/tmp/benign}; WT=$ROOT/$PID/wt; OUT=$ROOT/$PID/out
PATCH=$OUT/$V.patch.diff; EQ=$OUT/$V.equiv.py
cd $WT || exit 9
git checkout -q -- . ; git clean -fdq -e '*.so' -e 'whatshap/_version.py' -e '*.cpp' -e build 2>/dev/null
NATIVE=0
if grep -qE '^\+\+\+ b/.*\.(pyx|pxd|cpp|h)$' $PATCH; then NATIVE=1; fi
EQ_SAME=null
if [ -f $EQ ]; then /venv/bin/python $EQ > $OUT/$V.equiv_without.log 2>&1; fi
git apply $PATCH || { echo '{"ok": false, "why": "patch does not apply"}' > $OUT/$V.confirm.json; exit 1; }
FORCE=""; if grep -qE "^\+\+\+ b/.*\.(h|cpp)$" $PATCH; then FORCE="--force"; fi
if [ $NATIVE = 1 ]; then /venv/bin/python setup.py build_ext -i $FORCE > $OUT/$V.build.log 2>&1 || { echo '{"ok": false, "why": "build failed"}' > $OUT/$V.confirm.json; git checkout -q -- .; exit 1; }; fi
if [ -f $EQ ]; then /venv/bin/python $EQ > $OUT/$V.equiv_with.log 2>&1; if cmp -s $OUT/$V.equiv_with.log $OUT/$V.equiv_without.log; then EQ_SAME=true; else EQ_SAME=false; fi; fi
/venv/bin/python -m pytest -q -p no:cacheprovider --timeout=900 tests whatshap --doctest-modules > $OUT/$V.tests.log 2>&1
SUMMARY=$(tail -1 $OUT/$V.tests.log)
OTHER=$(grep '^FAILED\|^ERROR' $OUT/$V.tests.log | grep -vc 'test_vcf_with_missing_headers')
git checkout -q -- .
if [ $NATIVE = 1 ]; then /venv/bin/python setup.py build_ext -i $FORCE >> $OUT/$V.build.log 2>&1; fi
OK=false
if [ "$OTHER" = 0 ] && echo "$SUMMARY" | grep -q '430 passed' && [ "$EQ_SAME" != false ]; then OK=true; fi
cat > $OUT/$V.confirm.json <<JSON
{"ok": $OK, "tests_summary": "$SUMMARY", "unexpected_test_failures": $OTHER, "equiv_same_digest": $EQ_SAME, "native_rebuild": $NATIVE}
JSON
cat $OUT/$V.confirm.json
