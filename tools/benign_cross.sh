#!/bin/bash
# run EVERY property's check on every benign refactoring (committed ones under /verif/benign plus $EXTRA roots); print non-silent results
OUT=${OUT:-/tmp/benign_cross}; mkdir -p $OUT; rm -f $OUT/*.txt
( for d in /verif/benign/C*/; do echo "$(basename $d) $d/patch.diff"; done
  for r in $EXTRA; do for f in $r/*/out/*.patch.diff; do p=$(basename $(dirname $(dirname $f))); v=$(basename $f .patch.diff); echo "$p-$v@$(basename $r) $f"; done; done ) | \
while read id f; do for q in C03 C04 C05 C06 C07 C09 C10 C11 C12 C13 C14 C15 C16 C17 C18 C20; do echo "$id $f $q"; done; done | \
xargs -P 14 -L 1 bash -c 'r=$(/venv/bin/python /verif/tools/benign_eval.py $1 $2 2>/dev/null | head -4); case "$r" in silent*) ;; *) echo "$0 under $2: $r" > '$OUT'/$0.$2.txt;; esac'
/venv/bin/python - "$OUT" <<'PY'
import glob, json, os, sys
out = sys.argv[1]
V = os.path.dirname(os.path.dirname(os.path.abspath("/verif/tools/benign_cross.sh")))
own = json.load(open("/verif/benign/UNDECIDED.json")); cross = json.load(open("/verif/benign/UNDECIDED_CROSS.json"))
bad = 0
for f in sorted(glob.glob(os.path.join(out, "*.txt"))):
    head = open(f).readline().strip()
    name, _, rest = head.partition(" under ")
    prop, _, verdict = rest.partition(": ")
    listed = verdict == "ANALYSIS-ERROR" and ((name in own and name.split("-")[0] == prop) or ("%s@%s" % (name, prop)) in cross)
    print(("listed   " if listed else "ATTENTION") + " " + head)
    bad += 0 if listed else 1
print("not silent and not listed:", bad)
PY
