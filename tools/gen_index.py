#!/venv/bin/python
"""Re-evaluate every committed seeded change and refactoring with the property's own check (scratch overlay, /repo untouched),
update the verdict in its meta.json and rewrite seeded/INDEX.md and benign/INDEX.md."""
import json, os, re, subprocess, sys
from concurrent.futures import ThreadPoolExecutor

VERIF = os.path.dirname(os.path.dirname(os.path.abspath(__file__)))
ND = json.load(open(os.path.join(VERIF, "seeded", "NOT_DECIDED.json")))
UD = json.load(open(os.path.join(VERIF, "benign", "UNDECIDED.json")))


def run(kind, name):
    pid = name.split("-")[0]
    r = subprocess.run([os.path.join(VERIF, "tools", "benign_eval.py"), os.path.join(VERIF, kind, name, "patch.diff"), pid], stdout=subprocess.PIPE, stderr=subprocess.STDOUT)
    out = r.stdout.decode().splitlines()
    verdict = out[0] if out else "?"
    rules = sorted(set(re.findall(r"^\s+(C\d+\.R\d+)\s+whatshap", "\n".join(out), re.M)))
    return kind, name, verdict, rules


jobs = [("seeded", d) for d in sorted(os.listdir(os.path.join(VERIF, "seeded"))) if os.path.isdir(os.path.join(VERIF, "seeded", d))] + [("benign", d) for d in sorted(os.listdir(os.path.join(VERIF, "benign"))) if os.path.isdir(os.path.join(VERIF, "benign", d))]
with ThreadPoolExecutor(14) as ex:
    res = list(ex.map(lambda j: run(*j), jobs))
rows = {"seeded": [], "benign": []}
for kind, name, verdict, rules in res:
    mp = os.path.join(VERIF, kind, name, "meta.json")
    m = json.load(open(mp))
    if kind == "seeded":
        v = "caught" if verdict == "FALSE-ALARM" else ("not decided (listed)" if name in ND else ("MISSED" if verdict == "silent" else "analysis-error"))
        m.setdefault("check", {})["verdict"] = v
        m["check"]["rules"] = rules
        rows[kind].append((name, v, ",".join(rules), (m.get("summary") or "")[:110].replace("\n", " ").replace("|", "/")))
    else:
        v = "silent" if verdict == "silent" else ("undecided (listed)" if name in UD else verdict)
        m.setdefault("check", {})["verdict"] = v
        rows[kind].append((name, v, (m.get("kind") or "")[:60].replace("|", "/"), (m.get("summary") or "")[:110].replace("\n", " ").replace("|", "/")))
    json.dump(m, open(mp, "w"), indent=1)
with open(os.path.join(VERIF, "seeded", "INDEX.md"), "w") as f:
    f.write("# Seeded changes (independently written, each confirmed in a scratch worktree)\n\n| seed | verdict of /verif/check | rules that report it | change |\n|---|---|---|---|\n")
    for r in rows["seeded"]:
        f.write("| %s | %s | %s | %s |\n" % r)
with open(os.path.join(VERIF, "benign", "INDEX.md"), "w") as f:
    f.write("# Behaviour-preserving refactorings (independently written, each confirmed in a scratch worktree)\n\n| refactoring | verdict of /verif/check | kind | change |\n|---|---|---|---|\n")
    for r in rows["benign"]:
        f.write("| %s | %s | %s | %s |\n" % r)
from collections import Counter
print("seeded", Counter(r[1] for r in rows["seeded"]))
print("benign", Counter(r[1] for r in rows["benign"]))
for k in ("seeded", "benign"):
    for r in rows[k]:
        if r[1] not in ("caught", "silent", "not decided (listed)", "undecided (listed)"):
            print("  !!", k, r[0], r[1])
