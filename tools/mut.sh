#!/bin/bash
# usage: mut.sh <PROP> <file> <python-expr transforming s>   -- run a check against an overlay with one edited file
PROP=$1; F=$2; EXPR=$3
D=$(mktemp -d /tmp/ovXXXXXX)
mkdir -p $D/$(dirname $F)
/venv/bin/python - "$F" "$D/$F" "$EXPR" <<'PY'
import sys
src, dst, expr = sys.argv[1:4]
s = open('/repo/' + src).read()
t = eval(expr)
assert t != s, "mutation did not apply"
open(dst, 'w').write(t)
PY
[ $? -eq 0 ] && VERIF_OVERLAY=$D /verif/check $PROP --no-evidence | grep -A1 "VIOLATION\|ANALYSIS\|^C[0-9][0-9] "
rm -rf $D
