"""Normalisation of expressions and branch conditions.

``atoms(test, polarity)`` turns "``test`` evaluated to ``polarity``" into the set of
atomic facts ``(canonical text, bool)`` that are *known to hold* (conjunctive part only):

* ``not e``            flips the polarity
* ``a and b`` true     -> atoms of a true, atoms of b true
* ``a or b`` false     -> atoms of a false, atoms of b false
* comparisons use one canonical operator per family:
  ``a > b`` = ``b < a``;  ``a >= b`` = not ``a < b``;  ``a <= b`` = not ``b < a``;
  ``!=`` = not ``==`` (operands ordered);  ``not in`` = not ``in``;  ``is not`` = not ``is``.
* chained comparisons are split into their links.
"""
import ast
import copy


def u(e):
    """Canonical text of an expression (ast.unparse of the node)."""
    if e is None:
        return "None"
    return ast.unparse(e)


def strip_parens(s):
    return s


def _len_arg(e):
    if isinstance(e, ast.Call) and isinstance(e.func, ast.Name) and e.func.id == "len" and len(e.args) == 1 and not e.keywords:
        return e.args[0]
    return None


def _is_int(e, v):
    return isinstance(e, ast.Constant) and type(e.value) is int and e.value == v


def _cmp_atom(left, op, right, pol):
    # emptiness of a container has one canonical form, its truthiness:
    #   len(x) > 0, len(x) != 0, len(x) >= 1, 0 < len(x)  ==  x ;  len(x) == 0, len(x) < 1, not len(x) > 0  ==  not x
    la, ra = _len_arg(left), _len_arg(right)
    if la is not None and ra is None:
        if (isinstance(op, ast.Gt) and _is_int(right, 0)) or (isinstance(op, ast.NotEq) and _is_int(right, 0)) or (isinstance(op, ast.GtE) and _is_int(right, 1)):
            return (u(la), pol)
        if (isinstance(op, ast.Eq) and _is_int(right, 0)) or (isinstance(op, ast.Lt) and _is_int(right, 1)) or (isinstance(op, ast.LtE) and _is_int(right, 0)):
            return (u(la), not pol)
    if ra is not None and la is None:
        if (isinstance(op, ast.Lt) and _is_int(left, 0)) or (isinstance(op, ast.NotEq) and _is_int(left, 0)) or (isinstance(op, ast.LtE) and _is_int(left, 1)):
            return (u(ra), pol)
        if (isinstance(op, ast.Eq) and _is_int(left, 0)) or (isinstance(op, ast.Gt) and _is_int(left, 1)) or (isinstance(op, ast.GtE) and _is_int(left, 0)):
            return (u(ra), not pol)
    l, r = u(left), u(right)
    if isinstance(op, ast.Lt):
        return ("%s < %s" % (l, r), pol)
    if isinstance(op, ast.Gt):
        return ("%s < %s" % (r, l), pol)
    if isinstance(op, ast.GtE):
        return ("%s < %s" % (l, r), not pol)
    if isinstance(op, ast.LtE):
        return ("%s < %s" % (r, l), not pol)
    if isinstance(op, (ast.Eq, ast.NotEq)):
        a, b = sorted([l, r])
        return ("%s == %s" % (a, b), pol if isinstance(op, ast.Eq) else not pol)
    if isinstance(op, (ast.Is, ast.IsNot)):
        a, b = sorted([l, r])
        return ("%s is %s" % (a, b), pol if isinstance(op, ast.Is) else not pol)
    if isinstance(op, (ast.In, ast.NotIn)):
        return ("%s in %s" % (l, r), pol if isinstance(op, ast.In) else not pol)
    return ("%s %s %s" % (l, type(op).__name__, r), pol)


def atoms(test, polarity=True):
    out = set()
    _atoms(test, polarity, out)
    return out


def _atoms(e, pol, out):
    if isinstance(e, ast.UnaryOp) and isinstance(e.op, ast.Not):
        _atoms(e.operand, not pol, out)
        return
    if isinstance(e, ast.BoolOp):
        if (isinstance(e.op, ast.And) and pol) or (isinstance(e.op, ast.Or) and not pol):
            for v in e.values:
                _atoms(v, pol, out)
            return
        # disjunctive knowledge: keep as one opaque atom
        out.add((canon_bool(e), pol))
        return
    if isinstance(e, ast.Compare):
        if len(e.ops) == 1:
            out.add(_cmp_atom(e.left, e.ops[0], e.comparators[0], pol))
            return
        if pol:
            left = e.left
            for op, right in zip(e.ops, e.comparators):
                out.add(_cmp_atom(left, op, right, True))
                left = right
            return
        out.add((u(e), pol))
        return
    if isinstance(e, ast.Constant):
        return
    out.add((u(e), pol))


def canon_bool(e):
    """Order-insensitive canonical text for and/or."""
    if isinstance(e, ast.BoolOp):
        parts = sorted(canon_bool(v) for v in e.values)
        return ("(" + (" and " if isinstance(e.op, ast.And) else " or ").join(parts) + ")")
    if isinstance(e, ast.UnaryOp) and isinstance(e.op, ast.Not):
        return "not " + canon_bool(e.operand)
    if isinstance(e, ast.Compare) and len(e.ops) == 1:
        t, p = _cmp_atom(e.left, e.ops[0], e.comparators[0], True)
        return t if p else "not " + t
    return u(e)


def guard_atoms(cfg, n):
    """Atoms established by the branch edges that dominate CFG node ``n``."""
    out = set()
    for t, lab in cfg.dominating_edges(n):
        k = cfg.kind(t)
        if k == "test":
            if lab == "true":
                out |= atoms(cfg.ast(t), True)
            elif lab == "false":
                out |= atoms(cfg.ast(t), False)
        elif k == "for" and lab == "loop":
            a = cfg.ast(t)
            out.add(("<iter> %s in %s" % (u(a.target), u(a.iter)), True))
    return out


def names_in(e):
    return {n.id for n in ast.walk(e) if isinstance(n, ast.Name)}


def is_const(e, value=None):
    if not isinstance(e, ast.Constant):
        return False
    return value is None or e.value == value


# -- linear forms ------------------------------------------------------------------
def linear(e):
    """Symbolic sum: dict term-text -> int coefficient, with '' the constant term.
    Returns None if ``e`` is not built from +, -, integer constants and opaque terms."""
    if isinstance(e, ast.Constant) and isinstance(e.value, int) and not isinstance(e.value, bool):
        return {"": e.value} if e.value else {}
    if isinstance(e, ast.BinOp) and isinstance(e.op, (ast.Add, ast.Sub)):
        a, b = linear(e.left), linear(e.right)
        if a is None or b is None:
            return None
        out = dict(a)
        sign = 1 if isinstance(e.op, ast.Add) else -1
        for k, v in b.items():
            out[k] = out.get(k, 0) + sign * v
        return {k: v for k, v in out.items() if v != 0}
    if isinstance(e, ast.UnaryOp) and isinstance(e.op, ast.USub):
        a = linear(e.operand)
        if a is None:
            return None
        return {k: -v for k, v in a.items()}
    if isinstance(e, ast.BinOp) and isinstance(e.op, ast.Mult):
        for c, o in ((e.left, e.right), (e.right, e.left)):
            if isinstance(c, ast.Constant) and isinstance(c.value, int):
                a = linear(o)
                if a is None:
                    return None
                return {k: v * c.value for k, v in a.items() if v * c.value != 0}
    return {u(e): 1}


def linear_eq(a, b):
    return a is not None and b is not None and a == b


def linear_diff(a, b):
    if a is None or b is None:
        return None
    out = dict(a)
    for k, v in b.items():
        out[k] = out.get(k, 0) - v
    return {k: v for k, v in out.items() if v != 0}


# -- set algebra -------------------------------------------------------------------
class SetExpr:
    """Boolean function over named atoms, represented as a frozenset of truth-table rows."""

    def __init__(self, atoms_, rows):
        self.atoms = tuple(atoms_)
        self.rows = frozenset(rows)

    @staticmethod
    def universe(atoms_):
        import itertools

        return [tuple(r) for r in itertools.product((False, True), repeat=len(atoms_))]

    @classmethod
    def atom(cls, atoms_, name):
        i = list(atoms_).index(name)
        return cls(atoms_, [r for r in cls.universe(atoms_) if r[i]])

    @classmethod
    def empty(cls, atoms_):
        return cls(atoms_, [])

    def union(self, o):
        return SetExpr(self.atoms, self.rows | o.rows)

    def inter(self, o):
        return SetExpr(self.atoms, self.rows & o.rows)

    def diff(self, o):
        return SetExpr(self.atoms, self.rows - o.rows)

    def subset_of(self, o, assuming=None):
        rows = self.rows - o.rows
        if assuming is not None:
            rows = rows & assuming.rows
        return not rows

    def equals(self, o, assuming=None):
        return self.subset_of(o, assuming) and o.subset_of(self, assuming)


def path_atoms(cfg, path):
    """Atoms established by the branch edges taken along a concrete CFG path."""
    out = set()
    for a, b in zip(path, path[1:]):
        if cfg.kind(a) != "test":
            continue
        labs = cfg.g[a][b]["label"].split("|")
        if "true" in labs and "false" in labs:
            continue
        if "true" in labs:
            out |= atoms(cfg.ast(a), True)
        elif "false" in labs:
            out |= atoms(cfg.ast(a), False)
    return out
