"""Helpers shared by the rule modules: store sites, loop conservation, provenance."""
import ast

from .model import walk_function, call_name, attr_chain, AnalysisError
from .norm import u, atoms, guard_atoms

# method names that mutate their receiver (frozen table; reason: pysam / stdlib semantics)
MUTATORS = {
    "set_tag": "pysam AlignedSegment: sets/removes an aux tag",
    "set_tags": "pysam AlignedSegment: replaces all aux tags",
    "add_line": "pysam VariantHeader: adds a header line",
    "add_meta": "pysam VariantHeader: adds a meta line",
    "add_record": "pysam VariantHeader: adds a record",
    "add_sample": "pysam VariantHeader: adds a sample",
    "remove_header": "pysam VariantMetadata: removes a definition",
    "remove": "list/set/pysam header record removal",
    "clear_header": "pysam: clears header",
    "translate": "pysam VariantRecord: re-binds to another header",
    "append": "list",
    "extend": "list",
    "insert": "list",
    "pop": "list/dict/set",
    "popitem": "dict",
    "clear": "container",
    "update": "dict/set",
    "setdefault": "dict",
    "add": "set / pysam contigs.add",
    "discard": "set",
    "sort": "list",
    "reverse": "list",
    "push_back": "std::vector",
    "erase": "std container",
    "pop_back": "std::vector",
    "insert ": "std container",
    "difference_update": "set",
    "intersection_update": "set",
}


def root_name(e):
    """Name at the root of an attribute / subscript / call chain."""
    while True:
        if isinstance(e, ast.Attribute):
            e = e.value
        elif isinstance(e, ast.Subscript):
            e = e.value
        elif isinstance(e, ast.Call):
            e = e.func
        elif isinstance(e, ast.Starred):
            e = e.value
        else:
            break
    return e.id if isinstance(e, ast.Name) else None


def const_key(sub):
    if isinstance(sub, ast.Subscript) and isinstance(sub.slice, ast.Constant):
        return sub.slice.value
    return None


class Store:
    """One store site: kind in {attr, subscript, del-attr, del-subscript, call}."""

    def __init__(self, kind, target, stmt, value=None, method=None, call=None):
        self.kind = kind
        self.target = target  # the Attribute/Subscript node (or receiver expr for calls)
        self.stmt = stmt
        self.value = value
        self.method = method
        self.call = call

    @property
    def root(self):
        return root_name(self.target)

    @property
    def lineno(self):
        return getattr(self.stmt, "lineno", 0)

    def text(self):
        if self.kind == "call":
            return u(self.call)
        if self.kind.startswith("del"):
            return "del " + u(self.target)
        return "%s = %s" % (u(self.target), u(self.value) if self.value is not None else "?")


def _targets(t):
    if isinstance(t, (ast.Tuple, ast.List)):
        for e in t.elts:
            yield from _targets(e)
    elif isinstance(t, ast.Starred):
        yield from _targets(t.value)
    else:
        yield t


def store_sites(fnode, mutators=MUTATORS):
    """All store sites of a function body (nested defs excluded)."""
    out = []
    for n in walk_function(fnode):
        if isinstance(n, ast.Assign):
            for t0 in n.targets:
                for t in _targets(t0):
                    if isinstance(t, ast.Attribute):
                        out.append(Store("attr", t, n, n.value))
                    elif isinstance(t, ast.Subscript):
                        out.append(Store("subscript", t, n, n.value))
        elif isinstance(n, ast.AugAssign):
            t = n.target
            if isinstance(t, ast.Attribute):
                out.append(Store("attr", t, n, n.value))
            elif isinstance(t, ast.Subscript):
                out.append(Store("subscript", t, n, n.value))
        elif isinstance(n, ast.AnnAssign) and n.value is not None:
            t = n.target
            if isinstance(t, ast.Attribute):
                out.append(Store("attr", t, n, n.value))
            elif isinstance(t, ast.Subscript):
                out.append(Store("subscript", t, n, n.value))
        elif isinstance(n, ast.Delete):
            for t0 in n.targets:
                for t in _targets(t0):
                    if isinstance(t, ast.Attribute):
                        out.append(Store("del-attr", t, n))
                    elif isinstance(t, ast.Subscript):
                        out.append(Store("del-subscript", t, n))
        elif isinstance(n, ast.Call) and isinstance(n.func, ast.Attribute) and n.func.attr in mutators:
            stmt = n
            while stmt is not None and not isinstance(stmt, ast.stmt):
                stmt = getattr(stmt, "parent", None)
            out.append(Store("call", n.func.value, stmt, None, n.func.attr, n))
    return out


def assignments_to(fnode, name):
    """All (stmt, value_expr or None) that bind local ``name`` in the function (flow-insensitive).
    For loop targets / with-targets / tuple unpacking the value is a marker tuple."""
    out = []
    for n in walk_function(fnode):
        if isinstance(n, ast.Assign):
            for t0 in n.targets:
                if isinstance(t0, ast.Name) and t0.id == name:
                    out.append((n, n.value))
                elif isinstance(t0, (ast.Tuple, ast.List)):
                    for i, t in enumerate(t0.elts):
                        if isinstance(t, ast.Name) and t.id == name:
                            out.append((n, ("unpack", n.value, i)))
        elif isinstance(n, ast.AnnAssign):
            if isinstance(n.target, ast.Name) and n.target.id == name and n.value is not None:
                out.append((n, n.value))
        elif isinstance(n, ast.AugAssign):
            if isinstance(n.target, ast.Name) and n.target.id == name:
                out.append((n, ("aug", n.op, n.value)))
        elif isinstance(n, (ast.For, ast.AsyncFor)):
            for i, t in enumerate(list(_targets(n.target))):
                if isinstance(t, ast.Name) and t.id == name:
                    out.append((n, ("iter", n.iter, i if isinstance(n.target, (ast.Tuple, ast.List)) else None)))
        elif isinstance(n, (ast.With, ast.AsyncWith)):
            for it in n.items:
                if it.optional_vars is not None:
                    for t in _targets(it.optional_vars):
                        if isinstance(t, ast.Name) and t.id == name:
                            out.append((n, ("with", it.context_expr)))
        elif isinstance(n, ast.NamedExpr):
            if n.target.id == name:
                out.append((n, n.value))
        elif isinstance(n, ast.comprehension):
            for t in _targets(n.target):
                if isinstance(t, ast.Name) and t.id == name:
                    out.append((n, ("iter", n.iter, None)))
    return out


def single_def(fnode, name):
    """The unique plain assignment ``name = expr`` in the function, or None."""
    # a comprehension variable of the same name lives in the comprehension's own scope: it does not bind the function's local
    defs = [d for d in assignments_to(fnode, name) if not isinstance(d[0], ast.comprehension)]
    if len(defs) == 1 and isinstance(defs[0][1], ast.AST):
        return defs[0][1]
    if len(defs) > 1 and all(isinstance(v, ast.AST) for _, v in defs) and len({ast.dump(v) for _, v in defs}) == 1:
        return defs[0][1]  # the same definition written more than once (e.g. after a helper was inlined twice)
    return None


def params_of(fnode):
    a = fnode.args
    return [x.arg for x in a.posonlyargs + a.args + a.kwonlyargs] + ([a.vararg.arg] if a.vararg else []) + ([a.kwarg.arg] if a.kwarg else [])


def loops_in(fnode):
    return [n for n in walk_function(fnode) if isinstance(n, (ast.For, ast.While, ast.AsyncFor))]


def find_for(fnode, pred):
    """For loops of the function whose (target, iter) satisfy pred."""
    return [n for n in walk_function(fnode) if isinstance(n, ast.For) and pred(n)]


def calls_in_node(node, name=None, attr=None):
    out = []
    for n in ast.walk(node):
        if isinstance(n, ast.Call):
            if name is not None and not (isinstance(n.func, ast.Name) and n.func.id == name):
                continue
            if attr is not None and not (isinstance(n.func, ast.Attribute) and n.func.attr == attr):
                continue
            out.append(n)
    return out


def stmt_of(node):
    n = node
    while n is not None and not isinstance(n, ast.stmt):
        n = getattr(n, "parent", None)
    return n


def lexical_loop_exits(loop_stmt):
    """Break statements that leave ``loop_stmt`` and Return statements inside it (lexical)."""
    out = []

    def visit(n, depth):
        for c in ast.iter_child_nodes(n):
            if isinstance(c, (ast.FunctionDef, ast.AsyncFunctionDef, ast.ClassDef, ast.Lambda)):
                continue
            if isinstance(c, ast.Break) and depth == 0:
                out.append(c)
            elif isinstance(c, ast.Return):
                out.append(c)
            if isinstance(c, (ast.For, ast.While, ast.AsyncFor)):
                # the else-clause of an inner loop still belongs to the outer one for `break`
                for sub in c.body:
                    visit_stmt(sub, depth + 1)
                for sub in c.orelse:
                    visit_stmt(sub, depth)
            else:
                visit(c, depth)

    def visit_stmt(s, depth):
        if isinstance(s, ast.Break) and depth == 0:
            out.append(s)
        elif isinstance(s, ast.Return):
            out.append(s)
        elif isinstance(s, (ast.For, ast.While, ast.AsyncFor)):
            for sub in s.body:
                visit_stmt(sub, depth + 1)
            for sub in s.orelse:
                visit_stmt(sub, depth)
        elif not isinstance(s, (ast.FunctionDef, ast.AsyncFunctionDef, ast.ClassDef)):
            visit(s, depth)

    for s in loop_stmt.body:
        visit_stmt(s, 0)
    return out


def check_loop_conservation(cfg, loop_stmt, is_sink, sink_edges=()):
    """Loop-conservation check on the CFG of one function.

    For loop statement ``loop_stmt`` (For/While) verify
      (a) every path from the start of the body back to the loop head passes through
          a node for which ``is_sink(node)`` holds;
      (b) the loop is left only through its head (exhausted / false) -- no reachable
          break / return.
    Exits into the ``raise`` node abort the command and are not counted.

    Returns list of (kind, witness_path); kind in {"skip", "early-exit"}.
    """
    head = cfg.node_of(loop_stmt)
    problems = []
    body_starts = cfg.succ(head, "loop") + cfg.succ(head, "true")
    sinks = {n for n in cfg.g.nodes if n != head and is_sink(n)}
    for b in body_starts:
        if b in sinks:
            continue
        p = cfg.find_path(b, head, avoid_nodes=sinks, avoid_edges=sink_edges)  # sink_edges: branch edges that count as handled
        if p is not None:
            problems.append(("skip", [head] + p))
    reach = cfg.reachable(cfg.entry)
    for ex in lexical_loop_exits(loop_stmt):
        for n in cfg.nodes_of(ex):
            if n in reach:
                p = cfg.find_path(head, n)
                problems.append(("early-exit", p or [head, n]))
                break
    return problems


def rebinds_inside_loops(fnode, name):
    """Plain (non-augmented) bindings of local ``name`` that sit inside a loop of the function:
    [(stmt, loop)].  An accumulator returned after the loop must have none."""
    out = []
    for s, v in assignments_to(fnode, name):
        if isinstance(v, tuple) and v[0] == "aug":
            continue
        p = getattr(s, "parent", None)
        child = s
        while p is not None and p is not fnode:
            if isinstance(p, (ast.For, ast.While, ast.AsyncFor)) and child in p.body:
                out.append((s, p))
                break
            child, p = p, getattr(p, "parent", None)
    return out


def stale_path_into_use(cfg, loop, name, use_node):
    """Witness path from the head of ``loop`` (entering an iteration) to ``use_node`` on which local ``name``
    is not (re)bound inside the loop -- i.e. the use can see the value left by the previous iteration.
    Returns (path or None, number of in-loop plain definitions)."""
    head = cfg.node_of(loop)
    defs = set()
    for s_, v_ in assignments_to(loop, name):
        if not isinstance(s_, ast.stmt) or id(s_) not in cfg.by_stmt:
            continue
        if isinstance(v_, tuple) and v_[0] in ("iter", "aug"):
            continue
        defs.add(cfg.node_of(s_))
    for b in cfg.succ(head, "loop"):
        p = cfg.find_path(b, use_node, avoid_nodes=defs)
        if p is not None:
            return [head] + p, len(defs)
    return None, len(defs)


def copy_depth(expr, src_text):
    """How many container levels of ``src_text`` the expression copies: deepcopy -> 99; x[:], list(x), x.copy(),
    copy(x) -> 1; [<copy of e> for e in x] -> 1 + depth of the element copy; the bare name (alias) -> 0.
    None if the expression is not derived from ``src_text`` in one of these forms."""
    from .norm import u

    if u(expr) == src_text:
        return 0
    if isinstance(expr, ast.Call):
        f = u(expr.func)
        if f in ("deepcopy", "copy.deepcopy") and expr.args and u(expr.args[0]) == src_text:
            return 99
        if f in ("list", "copy", "copy.copy", "tuple") and len(expr.args) == 1 and u(expr.args[0]) == src_text:
            return 1
        if isinstance(expr.func, ast.Attribute) and expr.func.attr == "copy" and not expr.args and u(expr.func.value) == src_text:
            return 1
    if isinstance(expr, ast.Subscript) and isinstance(expr.slice, ast.Slice) and expr.slice.lower is None and expr.slice.upper is None and expr.slice.step is None and u(expr.value) == src_text:
        return 1
    if isinstance(expr, ast.ListComp) and len(expr.generators) == 1 and not expr.generators[0].ifs and u(expr.generators[0].iter) == src_text and isinstance(expr.generators[0].target, ast.Name):
        d = copy_depth(expr.elt, expr.generators[0].target.id)
        return None if d is None else 1 + d
    return None


def subscript_depth(target):
    d = 0
    while isinstance(target, ast.Subscript):
        d += 1
        target = target.value
    return d


def result_relevant_names(fnode):
    """Locals whose value can flow into what the function returns (flow-insensitive closure over
    assignments, augmented assignments, mutator calls and loop targets)."""
    from .norm import names_in

    rel = set()
    for n in walk_function(fnode):
        if isinstance(n, ast.Return) and n.value is not None:
            rel |= names_in(n.value)
    changed = True
    while changed:
        changed = False
        for n in walk_function(fnode):
            tgt_names, src = set(), None
            if isinstance(n, ast.Assign):
                for t in n.targets:
                    tgt_names |= {root_name(x) for x in _targets(t)} | {x.id for x in ast.walk(t) if isinstance(x, ast.Name) and isinstance(x.ctx, ast.Store)}
                src = n
            elif isinstance(n, (ast.AugAssign, ast.AnnAssign)) and getattr(n, "value", None) is not None:
                tgt_names = {root_name(n.target)}
                src = n
            elif isinstance(n, ast.For):
                tgt_names = {x.id for x in ast.walk(n.target) if isinstance(x, ast.Name)}
                src = n.iter
            elif isinstance(n, ast.Expr) and isinstance(n.value, ast.Call) and isinstance(n.value.func, ast.Attribute) and n.value.func.attr in MUTATORS:
                tgt_names = {root_name(n.value.func.value)}
                src = n
            if src is None or not (tgt_names & rel):
                continue
            new = names_in(src) - rel
            if new:
                rel |= new
                changed = True
    return rel


def affects_result(fnode, stmt, rel=None):
    """Does this statement define / mutate a name that can flow into the function's result?"""
    rel = result_relevant_names(fnode) if rel is None else rel
    if isinstance(stmt, ast.Assign):
        for t in stmt.targets:
            for x in ast.walk(t):
                if isinstance(x, ast.Name) and x.id in rel:
                    return True
        return False
    if isinstance(stmt, (ast.AugAssign, ast.AnnAssign)):
        return root_name(stmt.target) in rel
    if isinstance(stmt, ast.Expr) and isinstance(stmt.value, ast.Call) and isinstance(stmt.value.func, ast.Attribute) and stmt.value.func.attr in MUTATORS:
        return root_name(stmt.value.func.value) in rel
    if isinstance(stmt, ast.Return):
        return True
    return False


def _atom_holds_for_len(atom_text, polarity, seq_text, n):
    """Truth of a guard atom about len(seq) / truthiness of seq when the sequence has n elements (None: unrelated)."""
    from .norm import u

    if atom_text == seq_text:
        return (n > 0) == polarity
    src = atom_text.replace("len(%s)" % seq_text, str(n))
    if src == atom_text:
        return None
    try:
        tree = ast.parse(src, mode="eval")
    except SyntaxError:
        return None
    for x in ast.walk(tree):
        if not isinstance(x, (ast.Expression, ast.Compare, ast.Constant, ast.cmpop, ast.Load)):
            return None
    try:
        return bool(eval(compile(tree, "<len>", "eval"), {"__builtins__": {}})) == polarity
    except Exception:
        return None


def edges_implying_short(cfg, seq_text, max_len, as_edges=False):
    """CFG successor nodes of branch edges on which `seq_text` is known to have at most ``max_len`` elements
    (e.g. the true edge of `len(positions) < 2`, the false edge of `positions`): a loop over seq[max_len:] would do nothing there."""
    from .norm import atoms

    out = set()
    for t in cfg.g.nodes:
        if cfg.kind(t) != "test":
            continue
        for lab in ("true", "false"):
            ats = atoms(cfg.ast(t), lab == "true")
            for at, pol in ats:
                vals = [_atom_holds_for_len(at, pol, seq_text, n) for n in range(0, 8)]
                if None in vals:
                    continue
                if all((not v) for n, v in enumerate(vals) if n > max_len) and any(vals):
                    for s_ in cfg.succ(t, lab):
                        out.add((t, s_) if as_edges else s_)
    return out


def resolve_locals(fnode, expr, keep=(), max_rounds=6, scope=None):
    """Copy of ``expr`` in which every local that has exactly one binding in the function is replaced by what it was
    bound to, when that is a value-like expression (names, attributes, subscripts, arithmetic, comparisons) or one
    position of an unpacked value (`a, b = x` gives a -> x[0]).  Shape-independent comparison of conditions and
    returned values: `best, second = d[0][1], d[1][1]; if best < second` reads as `d[0][1] < d[1][1]`."""
    from .derefactor import _value_like, _clone

    bind = {}
    counts = {}
    # with ``scope`` (a loop or other compound statement) only the bindings inside it count: a name that is bound once
    # per iteration of that loop is resolved even if the function re-uses the name elsewhere
    region = list(walk_function(fnode)) if scope is None else [x for x in ast.walk(scope) if x is not scope]
    for n in region:
        if isinstance(n, ast.Name) and isinstance(n.ctx, (ast.Store, ast.Del)):
            counts[n.id] = counts.get(n.id, 0) + 1
    if scope is not None and isinstance(scope, (ast.For, ast.AsyncFor)):
        for n in ast.walk(scope.target):
            if isinstance(n, ast.Name):
                counts[n.id] = counts.get(n.id, 0) + 1
    a = fnode.args
    params = {x.arg for x in a.posonlyargs + a.args + a.kwonlyargs}
    for n in region:
        if isinstance(n, ast.Assign) and len(n.targets) == 1:
            t, v = n.targets[0], n.value
            if isinstance(t, ast.Name) and counts.get(t.id) == 1 and t.id not in params and t.id not in keep and _value_like(v):
                bind[t.id] = v
            elif isinstance(t, (ast.Tuple, ast.List)):
                for i, el in enumerate(t.elts):
                    if isinstance(el, ast.Name) and counts.get(el.id) == 1 and el.id not in params and el.id not in keep:
                        if isinstance(v, (ast.Tuple, ast.List)) and len(v.elts) == len(t.elts):
                            if _value_like(v.elts[i]):
                                bind[el.id] = v.elts[i]
                        elif _value_like(v):
                            bind[el.id] = ast.Subscript(value=v, slice=ast.Constant(value=i), ctx=ast.Load())

    class S(ast.NodeTransformer):
        def __init__(self):
            self.changed = False

        def visit_Name(self, node):
            if isinstance(node.ctx, ast.Load) and node.id in bind:
                self.changed = True
                return _clone(bind[node.id])
            return node

    e = _clone(expr)
    holder = ast.Expression(body=e)
    for _ in range(max_rounds):
        s_ = S()
        s_.visit(holder)
        if not s_.changed:
            break
    return holder.body


def resolved_guard_atoms(cfg, fnode, node, keep=(), scope=None):
    """Guard atoms of a CFG node with single-binding locals resolved (see resolve_locals).  With ``scope`` only the
    tests that lie inside that statement are considered (and locals are resolved within it)."""
    from .norm import atoms

    inside = None if scope is None else {id(x) for x in ast.walk(scope)}
    out = set()
    for t, lab in cfg.dominating_edges(node):
        if cfg.kind(t) == "test" and lab in ("true", "false"):
            if inside is not None and id(cfg.ast(t)) not in inside:
                continue
            out |= atoms(resolve_locals(fnode, cfg.ast(t), keep, scope=scope), lab == "true")
    return out


def list_shape(fnode, name):
    """Symbolic contents of the list bound to local ``name``: [("one", expr) | ("each", elt_expr, target_text, iter_text)],
    from its single definition (list display, comprehension, `+` of those) followed by append / extend / += in source
    order.  None when the list is built in a way this does not understand."""
    from .norm import u

    def from_expr(e, depth=0):
        if isinstance(e, ast.List):
            return [("one", x) for x in e.elts]
        if isinstance(e, (ast.ListComp, ast.GeneratorExp)) and len(e.generators) == 1 and not e.generators[0].ifs:
            g = e.generators[0]
            return [("each", e.elt, u(g.target), u(g.iter))]
        if isinstance(e, ast.BinOp) and isinstance(e.op, ast.Add):
            a_, b_ = from_expr(e.left, depth), from_expr(e.right, depth)
            return None if a_ is None or b_ is None else a_ + b_
        if isinstance(e, ast.Name) and depth < 3:
            d = single_def(fnode, e.id)
            if d is not None and isinstance(d, (ast.List, ast.ListComp, ast.BinOp)):
                return from_expr(d, depth + 1)
        if isinstance(e, ast.Call) and isinstance(e.func, ast.Name) and e.func.id == "list" and len(e.args) == 1:
            return from_expr(e.args[0], depth)
        return None

    defs = [(s, v) for s, v in assignments_to(fnode, name) if not (isinstance(v, tuple) and v[0] == "aug")]
    if len(defs) != 1 or not isinstance(defs[0][1], ast.AST):
        return None
    parts = from_expr(defs[0][1])
    if parts is None:
        return None
    events = []
    for n in walk_function(fnode):
        if isinstance(n, ast.Call) and isinstance(n.func, ast.Attribute) and isinstance(n.func.value, ast.Name) and n.func.value.id == name and n.func.attr in MUTATORS:
            events.append((n.lineno, n.col_offset, "call", n))
        elif isinstance(n, ast.AugAssign) and isinstance(n.target, ast.Name) and n.target.id == name:
            events.append((n.lineno, n.col_offset, "aug", n))
    for _, _, kind, n in sorted(events, key=lambda t: t[:2]):
        if kind == "aug":
            more = from_expr(n.value) if isinstance(n.op, ast.Add) else None
            if more is None:
                return None
            parts += more
            continue
        if n.func.attr == "append" and len(n.args) == 1:
            st = stmt_of(n)
            lp = getattr(st, "parent", None)
            if isinstance(lp, ast.For) and len(lp.body) == 1 and lp.body[0] is st and not lp.orelse:
                parts.append(("each", n.args[0], u(lp.target), u(lp.iter)))
            elif isinstance(lp, (ast.For, ast.While)):
                return None
            else:
                parts.append(("one", n.args[0]))
        elif n.func.attr == "extend" and len(n.args) == 1:
            more = from_expr(n.args[0])
            if more is None:
                return None
            parts += more
        elif n.func.attr == "sort":
            continue
        else:
            return None
    return parts


def ordering_of(fnode, name):
    """How the list bound to ``name`` is ordered: (source expr, key lambda body text or None, reverse: bool) from
    `name = sorted(src, key=K, reverse=R)` or `name = list(src)` (or src) followed by `name.sort(key=K, reverse=R)`.
    None if neither."""
    from .norm import u

    def kw(call):
        key, rev = None, False
        for k in call.keywords:
            if k.arg == "key":
                key = u(k.value.body) if isinstance(k.value, ast.Lambda) else u(k.value)
                if isinstance(k.value, ast.Lambda) and k.value.args.args:
                    key = key.replace(k.value.args.args[0].arg, "_")
                elif isinstance(k.value, ast.Call) and u(k.value.func) in ("itemgetter", "operator.itemgetter") and len(k.value.args) == 1:
                    key = "_[%s]" % u(k.value.args[0])
            elif k.arg == "reverse":
                rev = isinstance(k.value, ast.Constant) and k.value.value is True
        return key, rev

    d = single_def(fnode, name)
    if d is None:
        return None
    if isinstance(d, ast.Call) and isinstance(d.func, ast.Name) and d.func.id == "sorted" and d.args:
        key, rev = kw(d)
        return d.args[0], key, rev
    src = d.args[0] if isinstance(d, ast.Call) and isinstance(d.func, ast.Name) and d.func.id == "list" and len(d.args) == 1 else d
    sorts = [c for c in walk_function(fnode) if isinstance(c, ast.Call) and isinstance(c.func, ast.Attribute) and c.func.attr == "sort" and isinstance(c.func.value, ast.Name) and c.func.value.id == name]
    if len(sorts) != 1:
        return None
    key, rev = kw(sorts[0])
    return src, key, rev


def seq_shape(fnode, e, depth=0):
    """Symbolic element sequence of a list / tuple / generator valued expression:
    [("one", expr) | ("each", elt_expr, target_text, iter_text)], resolving locals with a single definition.  None if unknown."""
    from .norm import u

    if isinstance(e, (ast.List, ast.Tuple)):
        out = []
        for x in e.elts:
            if isinstance(x, ast.Starred):
                sub = seq_shape(fnode, x.value, depth)
                if sub is None:
                    return None
                out += sub
            else:
                out.append(("one", x))
        return out
    if isinstance(e, (ast.ListComp, ast.GeneratorExp)) and len(e.generators) == 1 and not e.generators[0].ifs:
        g = e.generators[0]
        return [("each", e.elt, u(g.target), u(g.iter))]
    if isinstance(e, ast.BinOp) and isinstance(e.op, ast.Add):
        a_, b_ = seq_shape(fnode, e.left, depth), seq_shape(fnode, e.right, depth)
        return None if a_ is None or b_ is None else a_ + b_
    if isinstance(e, ast.Call) and isinstance(e.func, ast.Name) and e.func.id in ("list", "tuple") and len(e.args) == 1:
        return seq_shape(fnode, e.args[0], depth)
    if isinstance(e, ast.Name) and depth < 4:
        ls = list_shape(fnode, e.id)
        if ls is not None:
            return ls
        d = single_def(fnode, e.id)
        if d is not None:
            return seq_shape(fnode, d, depth + 1)
    return None


def printed_shape(fnode, call):
    """Element sequence of the positional arguments of a print(...) call (see seq_shape)."""
    out = []
    for a in call.args:
        if isinstance(a, ast.Starred):
            sub = seq_shape(fnode, a.value)
            if sub is None:
                return None
            out += sub
        else:
            out.append(("one", a))
    return out


def expand_single_defs(fnode, expr, keep=(), max_depth=6):
    """Copy of ``expr`` with every local that has exactly one plain definition replaced by that definition, whatever it is
    (calls included).  For reading where a returned / passed value comes from; it ignores mutation of the objects."""
    from .derefactor import _clone

    counts = {}
    bare = {id(n.target) for n in walk_function(fnode) if isinstance(n, ast.AnnAssign) and n.value is None}  # `cdef int x` declarations
    for n in walk_function(fnode):
        if isinstance(n, ast.Name) and isinstance(n.ctx, (ast.Store, ast.Del)) and id(n) not in bare:
            counts[n.id] = counts.get(n.id, 0) + 1
    a = fnode.args
    params = {x.arg for x in a.posonlyargs + a.args + a.kwonlyargs}
    bind = {}
    for n in walk_function(fnode):
        if isinstance(n, ast.Assign) and len(n.targets) == 1 and isinstance(n.targets[0], ast.Name):
            nm = n.targets[0].id
            if counts.get(nm) == 1 and nm not in params and nm not in keep:
                bind[nm] = n.value
        elif isinstance(n, ast.AnnAssign) and n.value is not None and isinstance(n.target, ast.Name):
            nm = n.target.id
            if counts.get(nm) == 1 and nm not in params and nm not in keep:
                bind[nm] = n.value

    def sub(e, depth):
        class S(ast.NodeTransformer):
            def visit_Name(self, node):
                if isinstance(node.ctx, ast.Load) and node.id in bind and depth < max_depth:
                    return sub(_clone(bind[node.id]), depth + 1)
                return node

        holder = ast.Expression(body=e)
        S().visit(holder)
        return holder.body

    return sub(_clone(expr), 0)


def row_writes(fnode):
    """Rows a function writes to a file: [(call node, cells)] where cells is the element sequence (seq_shape) of
    print(c1, c2, ..., file=f)  or  f.write(SEP.join(map(str, ROW)) + "\\n")  /  f.write(SEP.join(str(x) for x in ROW) + "\\n")."""
    from .norm import u

    out = []
    for c in walk_function(fnode):
        if not isinstance(c, ast.Call):
            continue
        if isinstance(c.func, ast.Name) and c.func.id == "print":
            out.append((c, printed_shape(fnode, c)))
        elif isinstance(c.func, ast.Attribute) and c.func.attr == "write" and len(c.args) == 1:
            a = c.args[0]
            if isinstance(a, ast.BinOp) and isinstance(a.op, ast.Add) and isinstance(a.right, ast.Constant) and a.right.value == "\n":
                a = a.left
            if isinstance(a, ast.Call) and isinstance(a.func, ast.Attribute) and a.func.attr == "join" and len(a.args) == 1:
                j = a.args[0]
                row = None
                if isinstance(j, ast.Call) and isinstance(j.func, ast.Name) and j.func.id == "map" and len(j.args) == 2 and u(j.args[0]) == "str":
                    row = j.args[1]
                elif isinstance(j, (ast.GeneratorExp, ast.ListComp)) and len(j.generators) == 1 and not j.generators[0].ifs and u(j.elt) == "str(%s)" % u(j.generators[0].target):
                    row = j.generators[0].iter
                if row is not None:
                    out.append((c, seq_shape(fnode, row)))
    return out


def ancestors(node):
    """Lexical ancestors of an AST node (innermost first); needs the parent links set by the model."""
    n = getattr(node, "parent", None)
    while n is not None:
        yield n
        n = getattr(n, "parent", None)


def bound_args(call, callee_node, skip_self=None):
    """{parameter name: argument expression} of ``call`` against the signature of ``callee_node`` (positional, keyword and
    default values); None if the call uses * / ** or does not fit."""
    a = callee_node.args
    params = [x.arg for x in a.posonlyargs + a.args]
    if skip_self is None:
        skip_self = bool(params) and params[0] in ("self", "cls") and isinstance(call.func, ast.Attribute)
    if skip_self:
        params = params[1:]
    if any(isinstance(x, ast.Starred) for x in call.args) or any(k.arg is None for k in call.keywords) or len(call.args) > len(params):
        return None
    out = dict(zip(params, call.args))
    for k in call.keywords:
        if k.arg in out:
            return None
        out[k.arg] = k.value
    defaults = a.defaults
    for prm, d in zip(params[::-1], defaults[::-1]):
        out.setdefault(prm, d)
    for x, d in zip(a.kwonlyargs, a.kw_defaults):
        if d is not None:
            out.setdefault(x.arg, d)
    return out


def strip_order_wrappers(e):
    """x for sorted(x) / list(x) / tuple(x) / set(x) / frozenset(x) / iter(x): the same elements (use only where order and
    multiplicity do not matter to the consumer)."""
    while isinstance(e, ast.Call) and isinstance(e.func, ast.Name) and e.func.id in ("sorted", "list", "tuple", "set", "frozenset", "iter") and len(e.args) == 1 and not e.keywords:
        e = e.args[0]
    return e


def preorder_index(fnode):
    """{id(node): position} in a depth-first pre-order walk of the function (textual order, immune to relocated line numbers)."""
    out = {}

    def rec(n):
        out[id(n)] = len(out)
        for c in ast.iter_child_nodes(n):
            rec(c)

    rec(fnode)
    return out


def nearest_preceding_def(fnode, name, before, order=None):
    """Value of the plain assignment to ``name`` that most closely precedes node ``before`` in textual order (or None)."""
    order = order or preorder_index(fnode)
    best = None
    for s_, v_ in assignments_to(fnode, name):
        if isinstance(v_, ast.AST) and id(s_) in order and order[id(s_)] < order.get(id(before), -1) and (best is None or order[id(s_)] > order[id(best[0])]):
            best = (s_, v_)
    return best[1] if best else None


def expanded_guard_atoms(cfg, fnode, node, keep=()):
    """Guard atoms of a CFG node with every single-definition local (bare declarations ignored) replaced by its definition."""
    from .norm import atoms

    out = set()
    for t, lab in cfg.dominating_edges(node):
        if cfg.kind(t) == "test" and lab in ("true", "false"):
            out |= atoms(expand_single_defs(fnode, cfg.ast(t), keep=keep), lab == "true")
    return out
