"""Order-taint: where does hash-seed dependent iteration order reach something order sensitive?

Kinds (flow-insensitive per function, with return / parameter summaries across resolved calls):
  ("set", elem)   a set / frozenset            -- iteration order depends on PYTHONHASHSEED unless elem == "int"
  ("hseq", elem)  a list/tuple/dict whose order was produced by iterating such a set
  None            anything else
elem in {"int", "str", "obj", "?"}; tuples of ints count as "int".

An *instance* is a place where a ("set"| "hseq", non-int) value is iterated in an order-exposing way.
Sanitisers: sorted, min, max, sum, len, any, all, set, frozenset, membership, set algebra.
"""
import ast

from .model import walk_function, call_name
from .norm import u
from . import util

SANITIZERS = {"sorted", "min", "max", "sum", "len", "any", "all", "set", "frozenset", "Counter", "bool", "isinstance", "id", "type"}
SET_METHODS = {"union", "intersection", "difference", "symmetric_difference", "copy"}
ORDER_EXPOSING_CALLS = {"list", "tuple", "enumerate", "zip", "iter", "next", "map", "filter", "reversed", "chain", "dict", "OrderedDict", "deque", "print", "str", "repr"}

# element kinds by naming convention of this code base; used only to *discharge* int sets
INT_HINTS = ("position", "positions", "index", "indices", "idx", "pos", "block", "blocks", "read_index", "ids", "source_id", "cut", "component", "covered", "variants_covered", "breakpoint", "clust", "cid", "allele", "perm", "slice", "d_set", "affected", "rid")
STR_HINTS = ("sample", "samples", "name", "names", "chromosome", "chromosomes", "contig", "contigs", "info", "infos", "format", "formats", "tag", "tags", "individual", "haplotype_name")


def hint_kind(text):
    t = text.lower()
    for h in STR_HINTS:
        if h in t:
            return "str"
    for h in INT_HINTS:
        if h in t:
            return "int"
    return "?"


class FuncKinds:
    def __init__(self, ot, fi):
        self.ot = ot
        self.fi = fi
        self.env = {}
        self.ret = None

    def join(self, a, b):
        if a is None:
            return b
        if b is None:
            return a
        k = "set" if "set" in (a[0], b[0]) else a[0]
        e = a[1] if a[1] == b[1] else ("?" if "?" in (a[1], b[1]) else ("obj" if "obj" in (a[1], b[1]) else "str" if "str" in (a[1], b[1]) else a[1]))
        return (k, e)

    def elem_of(self, e):
        """Element kind of the items produced by iterating expression e (best effort)."""
        if isinstance(e, ast.Call):
            n = call_name(e) or ""
            base = n.split(".")[-1]
            if base == "range":
                return "int"
            if base in ("set", "frozenset", "list", "tuple", "sorted") and e.args:
                return self.elem_of(e.args[0])
            if base in SET_METHODS and isinstance(e.func, ast.Attribute):
                return self.elem_of(e.func.value)
            if base in ("keys", "values", "items") and isinstance(e.func, ast.Attribute):
                return hint_kind(u(e.func.value))
            k = self.kind(e)
            if k:
                return k[1]
            return hint_kind(n)
        if isinstance(e, (ast.SetComp, ast.ListComp, ast.GeneratorExp)):
            return self.elem_expr_kind(e.elt, e)
        if isinstance(e, (ast.Set, ast.List, ast.Tuple)):
            ks = {self.elem_expr_kind(x, None) for x in e.elts}
            return ks.pop() if len(ks) == 1 else "?"
        if isinstance(e, ast.BinOp):
            a, b = self.elem_of(e.left), self.elem_of(e.right)
            return a if a == b else (a if b == "?" else b if a == "?" else "?")
        if isinstance(e, ast.Name):
            k = self.env.get(e.id)
            if k:
                return k[1]
            return hint_kind(e.id)
        if isinstance(e, ast.Attribute):
            return hint_kind(e.attr)
        if isinstance(e, ast.Subscript):
            return hint_kind(u(e.value))
        return "?"

    def elem_expr_kind(self, x, comp):
        if isinstance(x, ast.Constant):
            return "int" if isinstance(x.value, int) else "str" if isinstance(x.value, str) else "?"
        if isinstance(x, ast.JoinedStr):
            return "str"
        if isinstance(x, ast.Tuple):
            ks = {self.elem_expr_kind(y, comp) for y in x.elts}
            return "int" if ks == {"int"} else ("?" if "?" in ks else "obj" if "obj" in ks else "str")
        if isinstance(x, ast.Attribute):
            return hint_kind(x.attr)
        if isinstance(x, ast.Name):
            if comp is not None:
                for g in comp.generators:
                    if any(isinstance(t, ast.Name) and t.id == x.id for t in ast.walk(g.target)):
                        ek = self.elem_of(g.iter)
                        if isinstance(g.iter, ast.Call) and (call_name(g.iter) or "").endswith("enumerate") and isinstance(g.target, ast.Tuple) and isinstance(g.target.elts[0], ast.Name) and g.target.elts[0].id == x.id:
                            return "int"
                        return ek
            return hint_kind(x.id)
        if isinstance(x, ast.Call):
            n = (call_name(x) or "").split(".")[-1]
            if n in ("int", "len", "find"):
                return "int"
            if n in ("str", "join", "format"):
                return "str"
            return hint_kind(n)
        if isinstance(x, ast.Subscript):
            return hint_kind(u(x.value))
        if isinstance(x, ast.BinOp):
            return self.elem_expr_kind(x.left, comp)
        return "?"

    def kind(self, e):
        if e is None:
            return None
        if isinstance(e, ast.Name):
            return self.env.get(e.id)
        if isinstance(e, (ast.Set, ast.SetComp)):
            return ("set", self.elem_of(e))
        if isinstance(e, ast.Call):
            n = call_name(e) or ""
            base = n.split(".")[-1]
            if isinstance(e.func, ast.Name) and base in ("set", "frozenset"):
                if not e.args:
                    return ("set", "?unset")
                return ("set", self.elem_of(e.args[0]))
            if isinstance(e.func, ast.Attribute) and base in SET_METHODS:
                k = self.kind(e.func.value)
                if k and k[0] == "set":
                    return k
            if isinstance(e.func, ast.Name) and base in ("list", "tuple") and e.args:
                k = self.kind(e.args[0])
                if k:
                    return ("hseq", k[1])
            if isinstance(e.func, ast.Name) and base == "sorted":
                return None
            targets, how = self.ot.prog.resolve_call(e, self.fi)
            if how in ("local", "import", "self", "by-name") and len(targets) == 1:
                r = self.ot.returns.get(targets[0].qual)
                if r:
                    return r
            return None
        if isinstance(e, ast.BinOp) and isinstance(e.op, (ast.BitOr, ast.BitAnd, ast.Sub, ast.BitXor)):
            a, b = self.kind(e.left), self.kind(e.right)
            if (a and a[0] == "set") or (b and b[0] == "set"):
                return self.join(a if a and a[0] == "set" else None, b if b and b[0] == "set" else None)
        if isinstance(e, ast.ListComp):
            for g in e.generators:
                k = self.kind(g.iter)
                if k:
                    return ("hseq", self.elem_expr_kind(e.elt, e) if True else k[1])
            return None
        if isinstance(e, ast.IfExp):
            return self.join(self.kind(e.body), self.kind(e.orelse))
        if isinstance(e, ast.Attribute):
            return self.ot.attr_kinds.get(e.attr)
        return None

    def compute(self):
        f = self.fi.node
        # parameters
        params = util.params_of(f)
        pk = self.ot.param_kinds.get(self.fi.qual, {})
        for p in params:
            if p in pk and pk[p]:
                self.env[p] = pk[p]
        for _ in range(3):
            for n in walk_function(f):
                if isinstance(n, ast.Assign) and len(n.targets) == 1 and isinstance(n.targets[0], ast.Name):
                    k = self.kind(n.value)
                    if k:
                        self.env[n.targets[0].id] = self.join(self.env.get(n.targets[0].id), k)
                elif isinstance(n, ast.AnnAssign) and isinstance(n.target, ast.Name) and n.value is not None:
                    k = self.kind(n.value)
                    if k:
                        self.env[n.target.id] = self.join(self.env.get(n.target.id), k)
                elif isinstance(n, ast.Assign) and len(n.targets) == 1 and isinstance(n.targets[0], ast.Tuple) and isinstance(n.value, ast.Call):
                    targets, how = self.ot.prog.resolve_call(n.value, self.fi)
                    if len(targets) == 1:
                        tr = self.ot.tuple_returns.get(targets[0].qual)
                        if tr:
                            for t, k in zip(n.targets[0].elts, tr):
                                if isinstance(t, ast.Name) and k:
                                    self.env[t.id] = self.join(self.env.get(t.id), k)
                elif isinstance(n, ast.Call) and isinstance(n.func, ast.Attribute) and n.func.attr in ("add", "update") and isinstance(n.func.value, ast.Name):
                    name = n.func.value.id
                    k = self.env.get(name)
                    if k and k[0] == "set" and k[1] == "?unset" and n.args:
                        ek = self.elem_expr_kind(n.args[0], None) if n.func.attr == "add" else self.elem_of(n.args[0])
                        self.env[name] = ("set", ek)
        # returns
        ret = None
        tup = None
        for n in walk_function(f):
            if isinstance(n, ast.Return) and n.value is not None:
                if isinstance(n.value, ast.Tuple):
                    ks = [self.kind(x) for x in n.value.elts]
                    if any(ks):
                        tup = ks
                else:
                    ret = self.join(ret, self.kind(n.value))
        self.ret = ret
        self.tup = tup


class OrderTaint:
    def __init__(self, prog, modules=None):
        self.prog = prog
        self.returns = {}
        self.tuple_returns = {}
        self.param_kinds = {}
        self.param_sources = {}  # (callee, param) -> {id(call): (caller, call, argument, kind)}
        self.attr_kinds = {}
        self.funcs = [f for f in prog.functions.values() if f.module.kind in ("py", "pyx") and (modules is None or f.module.name in modules)]
        self.fk = {}
        for _ in range(3):
            for fi in self.funcs:
                k = FuncKinds(self, fi)
                k.compute()
                self.fk[fi.qual] = k
                if k.ret:
                    self.returns[fi.qual] = k.ret
                if k.tup:
                    self.tuple_returns[fi.qual] = k.tup
            # parameter kinds from call sites
            for fi in self.funcs:
                k = self.fk[fi.qual]
                for c in prog.calls_in(fi.node):
                    targets, how = prog.resolve_call(c, fi)
                    if how not in ("local", "import", "self", "class") or len(targets) != 1:
                        continue
                    t = targets[0]
                    params = util.params_of(t.node)
                    if params and params[0] in ("self", "cls"):
                        params = params[1:]
                    for p, a in list(zip(params, c.args)) + [(kw.arg, kw.value) for kw in c.keywords if kw.arg]:
                        ak = k.kind(a)
                        if ak:
                            self.param_kinds.setdefault(t.qual, {})[p] = k.join(self.param_kinds.get(t.qual, {}).get(p), ak)
                            self.param_sources.setdefault((t.qual, p), {})[id(c)] = (fi, c, a, ak)

    # -- instances ---------------------------------------------------------------
    def instances(self, fi):
        """Yield dicts describing order-exposing iterations of hash-ordered values in ``fi``."""
        k = self.fk.get(fi.qual)
        if k is None:
            return
        for n in walk_function(fi.node, include_nested=False):
            if isinstance(n, (ast.For, ast.AsyncFor)):
                kd = k.kind(n.iter)
                if kd:
                    yield self._inst(fi, n, n.iter, kd, "for", n)
            elif isinstance(n, (ast.ListComp, ast.GeneratorExp, ast.DictComp, ast.SetComp)):
                for g in n.generators:
                    kd = k.kind(g.iter)
                    if kd:
                        yield self._inst(fi, n, g.iter, kd, "comprehension", n)
            elif isinstance(n, ast.Call):
                name = call_name(n) or ""
                base = name.split(".")[-1]
                if isinstance(n.func, ast.Attribute):
                    base = n.func.attr
                if isinstance(n.func, ast.Attribute) and base == "join" and n.args:
                    kd = k.kind(n.args[0])
                    if kd:
                        yield self._inst(fi, n, n.args[0], kd, "join", n)
                elif isinstance(n.func, ast.Name) and base in ORDER_EXPOSING_CALLS:
                    for a in n.args:
                        kd = k.kind(a.value if isinstance(a, ast.Starred) else a)
                        if kd:
                            yield self._inst(fi, n, a, kd, base, n)
                elif isinstance(n.func, ast.Attribute) and base == "pop" and not n.args:
                    kd = k.kind(n.func.value)
                    if kd and kd[0] == "set":
                        yield self._inst(fi, n, n.func.value, kd, "pop", n)
                elif isinstance(n.func, ast.Attribute) and base in ("extend",) and n.args:
                    kd = k.kind(n.args[0])
                    if kd:
                        yield self._inst(fi, n, n.args[0], kd, "extend", n)

    def _inst(self, fi, node, src, kd, how, site):
        return {"fi": fi, "node": node, "src": src, "kind": kd, "how": how, "site": site}


def sanitized(node):
    """The iteration's result only reaches an order-insensitive consumer."""
    n = node
    p = getattr(n, "parent", None)
    # comprehension / call directly wrapped by a sanitiser
    while p is not None and isinstance(p, (ast.GeneratorExp, ast.ListComp, ast.comprehension, ast.Starred)):
        n, p = p, getattr(p, "parent", None)
    if isinstance(p, ast.Call):
        name = (call_name(p) or "").split(".")[-1]
        if name in SANITIZERS and (n in p.args):
            return name
        if isinstance(p.func, ast.Attribute) and p.func.attr in ("update", "intersection_update", "difference_update", "union", "intersection", "difference", "issubset", "issuperset", "isdisjoint") and n in p.args:
            return "set." + p.func.attr
    if isinstance(node, (ast.SetComp,)):
        return "set comprehension"
    if isinstance(p, ast.Compare) and any(isinstance(o, (ast.In, ast.NotIn)) for o in p.ops):
        return "membership"
    return None


COMMUTATIVE_METHODS = {"add", "update", "discard", "debug", "info", "warning", "error", "merge"}


def commutative_body(loop):
    """True if the loop body only accumulates commutatively / stores keyed by the loop variable."""
    targets = {x.id for x in ast.walk(loop.target) if isinstance(x, ast.Name)}

    assigned = set()

    def ok_stmt(s):
        if isinstance(s, (ast.Pass, ast.Continue, ast.Assert, ast.Raise)):
            # an error raised for one offending element aborts the command; which element is named is not a result
            return True
        if isinstance(s, ast.Delete):
            return all(isinstance(t, ast.Subscript) and ({x.id for x in ast.walk(t.slice) if isinstance(x, ast.Name)} & targets) for t in s.targets)
        if isinstance(s, ast.Assign) and all(isinstance(t, (ast.Name, ast.Tuple)) for t in s.targets):
            # loop-local temporaries (checked below not to be read after the loop)
            for t in s.targets:
                for x in ast.walk(t):
                    if isinstance(x, ast.Name):
                        assigned.add(x.id)
            return True
        if isinstance(s, ast.If):
            return all(ok_stmt(x) for x in s.body) and all(ok_stmt(x) for x in s.orelse)
        if isinstance(s, ast.AugAssign) and isinstance(s.op, (ast.Add, ast.Sub, ast.BitOr, ast.BitAnd)) and isinstance(s.target, ast.Name):
            # numeric / set accumulation; string or list concatenation would be order sensitive
            return not isinstance(s.value, (ast.List, ast.Constant)) or (isinstance(s.value, ast.Constant) and isinstance(s.value.value, (int, float)))
        if isinstance(s, ast.Expr) and isinstance(s.value, ast.Call) and isinstance(s.value.func, ast.Attribute) and s.value.func.attr in COMMUTATIVE_METHODS:
            return True
        if isinstance(s, ast.Assign) and len(s.targets) == 1 and isinstance(s.targets[0], ast.Subscript):
            key_names = {x.id for x in ast.walk(s.targets[0].slice) if isinstance(x, ast.Name)}
            return bool(key_names & targets)
        if isinstance(s, ast.For):
            return all(ok_stmt(x) for x in s.body)
        return False

    if not all(ok_stmt(s) for s in loop.body):
        return False
    if assigned:
        # a temporary that is read after the loop carries the last iteration out (last-writer-wins)
        fn = loop
        while fn is not None and not isinstance(fn, (ast.FunctionDef, ast.AsyncFunctionDef, ast.Module)):
            fn = getattr(fn, "parent", None)
        inside = {id(x) for x in ast.walk(loop)}
        for x in ast.walk(fn) if fn is not None else []:
            if isinstance(x, ast.Name) and isinstance(x.ctx, ast.Load) and x.id in assigned and id(x) not in inside and getattr(x, "lineno", 0) > getattr(loop, "end_lineno", loop.lineno):
                return False
    return True
