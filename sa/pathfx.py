"""Path-sensitive effect summaries of small functions (copy propagation along CFG paths).

For rules about small decision procedures (merge two roots, sift one heap entry, pick an orientation, classify an
alignment) the *shape* of the code -- guard clauses or nested ifs, temporaries, tuple selection
`a, b = (x, y) if c else (y, x)`, one assignment after the branches or one in each branch -- must not matter.
This module enumerates the acyclic paths of a function's statement CFG (every loop body is entered at most
once) and, along each path, propagates the values of local names as expressions over the function's inputs:

    parent, child = x_root, y_root     ->  env[parent] = x_root ; env[child] = y_root
    child.parent = parent              ->  effect  store(y_root.parent, x_root)

Each path yields (guard atoms with the environment substituted, list of effects).  Effects are
("store", target_expr, value_expr), ("call", call_expr), ("return", value_expr or None), ("yield", value_expr).
No arithmetic is evaluated and no solver is involved: expressions stay syntax, compared after the
canonicalisation of sa.norm.  Contradictory paths (the same side-effect-free atom taken both ways) are dropped.
"""
import ast

import networkx as nx

from .norm import atoms, u

MAX_PATHS = 4000


def _clone(node):
    if isinstance(node, ast.AST):
        new = type(node)()
        for f in node._fields:
            if hasattr(node, f):
                setattr(new, f, _clone(getattr(node, f)))
        for a in ("lineno", "col_offset", "end_lineno", "end_col_offset"):
            if hasattr(node, a):
                setattr(new, a, getattr(node, a))
        return new
    if isinstance(node, list):
        return [_clone(x) for x in node]
    return node


class _Subst(ast.NodeTransformer):
    def __init__(self, env):
        self.env = env

    def visit_Name(self, node):
        if isinstance(node.ctx, ast.Load) and node.id in self.env:
            return _clone(self.env[node.id])
        return node

    # comprehension / lambda variables shadow
    def _scoped(self, node, bound):
        saved = {k: self.env[k] for k in bound if k in self.env}
        for k in bound:
            self.env.pop(k, None)
        self.generic_visit(node)
        self.env.update(saved)
        return node

    def visit_ListComp(self, node):
        return self._scoped(node, {n.id for g in node.generators for n in ast.walk(g.target) if isinstance(n, ast.Name)})

    visit_SetComp = visit_GeneratorExp = visit_DictComp = visit_ListComp

    def visit_Lambda(self, node):
        return self._scoped(node, {a.arg for a in node.args.args})


def subst(expr, env):
    if expr is None:
        return None
    e = _clone(expr)
    holder = ast.Expression(body=e)
    _Subst(dict(env)).visit(holder)
    return holder.body


def _const_truth(e):
    """Truth value of an expression that is constant after substitution (None if it is not)."""
    if isinstance(e, ast.Constant):
        return bool(e.value)
    if isinstance(e, ast.UnaryOp) and isinstance(e.op, ast.Not):
        v = _const_truth(e.operand)
        return None if v is None else not v
    if isinstance(e, ast.BoolOp):
        vals = [_const_truth(v) for v in e.values]
        if isinstance(e.op, ast.And):
            if any(v is False for v in vals):
                return False
            return True if all(v is True for v in vals) else None
        if any(v is True for v in vals):
            return True
        return False if all(v is False for v in vals) else None
    if isinstance(e, ast.Compare) and len(e.ops) == 1 and isinstance(e.left, ast.Name) and isinstance(e.comparators[0], ast.Name) and e.left.id == e.comparators[0].id:
        # a local compared with itself (after substitution): x == x, x <= x hold, x != x, x < x do not (no NaN among indices / names)
        return {ast.Eq: True, ast.LtE: True, ast.GtE: True, ast.Is: True, ast.NotEq: False, ast.Lt: False, ast.Gt: False, ast.IsNot: False}.get(type(e.ops[0]))
    if isinstance(e, ast.Compare) and len(e.ops) == 1 and isinstance(e.left, ast.Constant) and isinstance(e.comparators[0], ast.Constant):
        a, b = e.left.value, e.comparators[0].value
        try:
            return {ast.Eq: a == b, ast.NotEq: a != b, ast.Is: a is b, ast.IsNot: a is not b}.get(type(e.ops[0]))
        except Exception:
            return None
    return None


class PathSummary:
    __slots__ = ("atoms", "effects", "path", "env")

    def __init__(self, atoms_, effects, path, env):
        self.atoms = atoms_
        self.effects = effects
        self.path = path
        self.env = env

    def stores(self, attr=None):
        out = []
        for e in self.effects:
            if e[0] == "store" and (attr is None or (isinstance(e[1], ast.Attribute) and e[1].attr == attr)):
                out.append(e)
        return out

    def calls(self, name=None):
        return [e for e in self.effects if e[0] == "call" and (name is None or u(e[1].func) == name or (isinstance(e[1].func, ast.Attribute) and e[1].func.attr == name))]

    def returns(self):
        return [e for e in self.effects if e[0] == "return"]

    def has(self, text, pol=True):
        return (text, pol) in self.atoms


_VALUE_ONLY = [False]
_OPAQUE = [frozenset()]


def _assign(env, effects, target, value, node):
    """Bind `target = value` (value already substituted)."""
    if isinstance(target, ast.Name):
        if target.id in _OPAQUE[0]:
            env.pop(target.id, None)  # kept symbolic on request; the binding itself is recorded as an effect
            effects.append(("bind", target, value, node))
            return
        if _VALUE_ONLY[0]:
            from .derefactor import _value_like

            if not _value_like(value):
                env.pop(target.id, None)  # a fresh object: the name stands for itself
                return
        env[target.id] = value
    elif isinstance(target, (ast.Tuple, ast.List)):
        if isinstance(value, (ast.Tuple, ast.List)) and len(value.elts) == len(target.elts):
            # evaluate all right-hand sides first (they are already substituted), then bind
            for t, v in zip(target.elts, value.elts):
                _assign(env, effects, t, v, node)
        else:
            for i, t in enumerate(target.elts):
                _assign(env, effects, t, ast.Subscript(value=value, slice=ast.Constant(value=i), ctx=ast.Load()), node)
    elif isinstance(target, ast.Starred):
        _assign(env, effects, target.value, value, node)
    else:
        effects.append(("store", target, value, node))


def summarise_path(cfg, path, start_env=None):
    env = dict(start_env or {})
    effects = []
    ats = set()
    for a, b in zip(path, path[1:] + [None]):
        kind = cfg.kind(a)
        node = cfg.ast(a)
        if kind == "test" and b is not None:
            labs = cfg.g[a][b]["label"].split("|")
            t = subst(node, env)
            if "true" in labs and "false" in labs:
                continue
            ct = _const_truth(t)
            if ct is not None and (("true" in labs and not ct) or ("false" in labs and ct)):
                ats.add(("<infeasible: `%s` is %s here>" % (u(node), ct), True))
                ats.add(("<infeasible: `%s` is %s here>" % (u(node), ct), False))
            if "true" in labs:
                ats |= atoms(t, True)
            elif "false" in labs:
                ats |= atoms(t, False)
            continue
        if kind in ("for",) and node is not None:
            # the loop target stands for itself (an element of the iterable)
            for n in ast.walk(node.target):
                if isinstance(n, ast.Name):
                    env.pop(n.id, None)
            if b is not None:
                labs = cfg.g[a][b]["label"].split("|")
                if "loop" in labs:
                    ats.add(("<iter> %s in %s" % (u(node.target), u(subst(node.iter, env))), True))
            continue
        if kind != "stmt" or node is None:
            if kind == "return" and node is not None:
                effects.append(("return", subst(node.value, env) if getattr(node, "value", None) is not None else None, None, node))
            elif kind == "raise_stmt" and node is not None:
                effects.append(("raise", subst(node.exc, env) if getattr(node, "exc", None) is not None else None, None, node))
            continue
        s = node
        if isinstance(s, ast.Assign):
            v = subst(s.value, env)
            if isinstance(v, ast.Call):
                effects.append(("call", v, None, s))
            # simultaneous assignment: all targets are substituted with the OLD environment
            tgts = [subst_target(t, env) for t in s.targets]
            for t in tgts:
                _assign(env, effects, t, v, s)
        elif isinstance(s, ast.AnnAssign) and s.value is not None:
            _assign(env, effects, subst_target(s.target, env), subst(s.value, env), s)
        elif isinstance(s, ast.AugAssign):
            v = ast.BinOp(left=subst(_as_load(s.target), env), op=s.op, right=subst(s.value, env))
            if isinstance(s.target, ast.Name):
                env[s.target.id] = v
            else:
                effects.append(("augstore", subst_target(s.target, env), subst(s.value, env), s))
        elif isinstance(s, ast.Expr):
            v = subst(s.value, env)
            if isinstance(v, ast.Call):
                effects.append(("call", v, None, s))
            elif isinstance(v, (ast.Yield, ast.YieldFrom)):
                effects.append(("yield", v.value, None, s))
        elif isinstance(s, ast.Return):
            effects.append(("return", subst(s.value, env) if s.value is not None else None, None, s))
        elif isinstance(s, ast.Delete):
            for t in s.targets:
                effects.append(("delete", subst_target(t, env), None, s))
        elif isinstance(s, ast.Raise):
            effects.append(("raise", subst(s.exc, env) if s.exc is not None else None, None, s))
    return PathSummary(ats, effects, path, env)


def _as_load(t):
    c = _clone(t)
    for n in ast.walk(c):
        if hasattr(n, "ctx"):
            n.ctx = ast.Load()
    return c


def subst_target(t, env):
    """Substitute inside a store target: the root object / indices are read, the outermost attribute / subscript is written."""
    if isinstance(t, ast.Name):
        return t
    if isinstance(t, ast.Attribute):
        return ast.Attribute(value=subst(_as_load(t.value), env), attr=t.attr, ctx=ast.Store())
    if isinstance(t, ast.Subscript):
        return ast.Subscript(value=subst(_as_load(t.value), env), slice=subst(t.slice, env), ctx=ast.Store())
    if isinstance(t, (ast.Tuple, ast.List)):
        return type(t)(elts=[subst_target(x, env) for x in t.elts], ctx=ast.Store())
    if isinstance(t, ast.Starred):
        return ast.Starred(value=subst_target(t.value, env), ctx=ast.Store())
    return t


def _loop_heads(cfg):
    heads = set()
    for n in cfg.g.nodes:
        k = cfg.kind(n)
        if k == "for":
            heads.add(n)
        elif k == "test" and isinstance(cfg.stmt(n), ast.While):
            heads.add(n)
    return heads


def paths(cfg, src=None, dst=None, avoid=()):
    """Paths src -> dst on which every node occurs once, except loop heads, which may occur twice
    (enter the body once, come back, leave): each loop body is executed at most once."""
    src = cfg.entry if src is None else src
    targets = {cfg.exit, cfg.raise_exit} if dst is None else {dst}
    avoid = set(avoid)
    heads = _loop_heads(cfg)
    g = cfg.g
    count = {}
    n_found = [0]
    out = []
    # iterative DFS with explicit stack of (node, iterator over successors)
    path = [src]
    count[src] = 1
    stack = [iter(sorted(g.successors(src)))]
    if src in targets and dst is not None and src == dst:
        pass
    while stack:
        it = stack[-1]
        nxt = next(it, None)
        if nxt is None:
            stack.pop()
            last = path.pop()
            count[last] -= 1
            continue
        if nxt in avoid:
            continue
        limit = 2 if nxt in heads else 1
        if count.get(nxt, 0) >= limit:
            continue
        if nxt in targets:
            n_found[0] += 1
            if n_found[0] > MAX_PATHS:
                raise OverflowError("more than %d paths" % MAX_PATHS)
            yield path + [nxt]
            if dst is not None:
                continue
            continue
        path.append(nxt)
        count[nxt] = count.get(nxt, 0) + 1
        stack.append(iter(sorted(g.successors(nxt))))


def summaries(cfg, src=None, dst=None, start_env=None, feasible_only=True, include_raise=False, value_only=False, opaque=()):
    """PathSummary for every acyclic path (loops entered at most once).
    value_only: only value-like definitions (names, attributes, subscripts, arithmetic, pure builtins) are substituted;
    a local bound to a fresh object (constructor call, display, comprehension) keeps standing for itself."""
    out = []
    for p in paths(cfg, src, dst):
        if not include_raise and dst is None and p[-1] == cfg.raise_exit:
            continue
        # a completed `return` does not continue in an exception handler
        if any(cfg.kind(a) == "return" and cfg.kind(b) == "except" for a, b in zip(p, p[1:])):
            continue
        _VALUE_ONLY[0] = bool(value_only)
        _OPAQUE[0] = frozenset(opaque)
        try:
            s = summarise_path(cfg, p, start_env)
        finally:
            _VALUE_ONLY[0] = False
            _OPAQUE[0] = frozenset()
        if feasible_only and any((t, not pol) in s.atoms for t, pol in s.atoms if not t.startswith("<iter>")):
            continue
        out.append(s)
    return out


def canon_comprehension_vars(e):
    """Copy of the expression with comprehension / generator variables renamed _c0, _c1, ... in order of appearance."""
    e = _clone(e)
    k = [0]

    def walk(n):
        if isinstance(n, (ast.ListComp, ast.SetComp, ast.GeneratorExp, ast.DictComp)):
            ren = {}
            for g in n.generators:
                for t in ast.walk(g.target):
                    if isinstance(t, ast.Name):
                        ren[t.id] = "_c%d" % k[0]
                        k[0] += 1
            for x in ast.walk(n):
                if isinstance(x, ast.Name) and x.id in ren:
                    x.id = ren[x.id]
        for c in ast.iter_child_nodes(n):
            walk(c)

    walk(e)
    return e


def iteration_summaries(cfg, loop_stmt, start_env=None, value_only=False):
    """Path summaries of ONE iteration of a loop: from the first statement of the body back to the loop head
    (through the end of the body or a `continue`); iterations that leave the loop (break / return) are not included."""
    head = cfg.node_of(loop_stmt)
    starts = cfg.succ(head, "loop") if cfg.kind(head) == "for" else cfg.succ(head, "true")
    out = []
    g = cfg.g.subgraph([x for x in cfg.g.nodes if x != head])
    body = cfg.loop_body_nodes(head)
    preds = [p for p in cfg.g.predecessors(head) if p in body]
    n = 0
    for s in starts:
        for p in preds:
            if s not in g or p not in g:
                continue
            plist = [[s]] if s == p else nx.all_simple_paths(g, s, p)
            for path in plist:
                n += 1
                if n > MAX_PATHS:
                    raise OverflowError("more than %d paths" % MAX_PATHS)
                full = [head] + list(path) + [head]
                _VALUE_ONLY[0] = bool(value_only)
                try:
                    sm = summarise_path(cfg, full[:-1] + [head], start_env)
                finally:
                    _VALUE_ONLY[0] = False
                if any((t, not pol) in sm.atoms for t, pol in sm.atoms if not t.startswith("<iter>")):
                    continue
                out.append(sm)
    return out
