"""Program model: every module the build covers, one function table, callee resolution.

The set of analysed files is derived from the repository itself:
* ``whatshap/**/*.py``
* the ``.pyx`` listed in ``setup.py``'s ``Extension`` entries plus the ``.pxd`` next to them
  (lowered to ``ast`` by :mod:`sa.pyx`)
* the C++ sources listed in ``setup.py`` (handled by :mod:`sa.clangq`)
"""
import ast
import os
import glob
import hashlib
import pickle

from . import pyx as pyxmod


class AnalysisError(Exception):
    """The analysis itself cannot proceed (parse error, vanished anchor, floor missed)."""


class FuncInfo:
    def __init__(self, qual, node, module, cls):
        self.qual = qual
        self.node = node
        self.module = module
        self.cls = cls  # ClassInfo or None

    @property
    def name(self):
        return self.node.name

    @property
    def path(self):
        return self.module.relpath

    def loc(self, node=None):
        n = node if node is not None else self.node
        return "%s:%s" % (self.module.relpath, getattr(n, "lineno", "?"))

    def __repr__(self):
        return "<Func %s>" % self.qual


class ClassInfo:
    def __init__(self, qual, node, module):
        self.qual = qual
        self.node = node
        self.module = module
        self.methods = {}
        self.bases = []


class ModuleInfo:
    def __init__(self, name, path, relpath, tree, kind):
        self.name = name
        self.path = path
        self.relpath = relpath
        self.tree = tree
        self.kind = kind
        self.functions = {}
        self.classes = {}
        self.imports = {}  # local name -> (module, symbol or None)


def set_parents(tree):
    for parent in ast.walk(tree):
        for child in ast.iter_child_nodes(parent):
            child.parent = parent
    return tree


def setup_py_sources(root):
    """Return (pyx list, cpp list) read from setup.py's Extension entries with ``ast``."""
    path = os.path.join(root, "setup.py")
    try:
        tree = ast.parse(open(path).read())
    except (OSError, SyntaxError) as e:
        raise AnalysisError("cannot read setup.py: %s" % e)
    pyxs, cpps = [], []
    for n in ast.walk(tree):
        if isinstance(n, ast.Constant) and isinstance(n.value, str):
            if n.value.endswith(".pyx"):
                pyxs.append(n.value)
            elif n.value.endswith(".cpp"):
                cpps.append(n.value)
    return pyxs, cpps


class Program:
    def __init__(self, root, want_pyx=True, overlay=None):
        self.root = os.path.abspath(root)
        # overlay: directory with files that replace those of ``root`` (same relative paths);
        # used by the sensitivity audit so that only the edited file is copied
        self.overlay = overlay or os.environ.get("VERIF_OVERLAY") or None
        self.modules = {}
        self.functions = {}
        self.classes = {}
        self.pyx_sources, self.cpp_sources = setup_py_sources(self.root)
        self.pyx_sources = [p for p in self.pyx_sources]
        self._load_py()
        if want_pyx:
            self._load_pyx()
        for m in self.modules.values():
            self._index(m)
        self._by_name = {}
        for f in self.functions.values():
            self._by_name.setdefault(f.name, []).append(f)
        # undo pure renamings of locals/parameters (see sa/alpha.py); the rules name whatshap's variables
        self.renamed = {}
        if os.environ.get("VERIF_NO_ALPHA") != "1":
            from . import alpha

            self.renamed = alpha.normalise(self)
        # undo behaviour-preserving restructurings that are new w.r.t. the reference (see sa/derefactor.py)
        self.derefactored = {}
        if os.environ.get("VERIF_NO_DEREFACTOR") != "1" and os.environ.get("VERIF_NO_ALPHA") != "1":
            from . import alpha, derefactor

            ref = alpha.load_reference()
            self.derefactored = derefactor.normalise(self, ref)
            if any(self.derefactored.get(k) for k in ("#inlined", "#temps", "#unrolled")):
                self._by_name = {}
                for f in self.functions.values():
                    self._by_name.setdefault(f.name, []).append(f)
                again = alpha.normalise(self)
                for q, m in again.items():
                    self.renamed.setdefault(q, {}).update(m)

    def real(self, rel):
        """Absolute path of a repository file, honouring the overlay."""
        if self.overlay:
            p = os.path.join(self.overlay, rel)
            if os.path.exists(p):
                return p
        return os.path.join(self.root, rel)

    # -- loading ---------------------------------------------------------------
    def _modname(self, rel):
        mod = rel.rsplit(".", 1)[0].replace(os.sep, ".")
        if mod.endswith(".__init__"):
            mod = mod[: -len(".__init__")]
        return mod

    def _load_py(self):
        pkg = os.path.join(self.root, "whatshap")
        if not os.path.isdir(pkg):
            raise AnalysisError("no whatshap package under %s" % self.root)
        for path in sorted(glob.glob(os.path.join(pkg, "**", "*.py"), recursive=True)):
            rel = os.path.relpath(path, self.root)
            path = self.real(rel)
            try:
                src = open(path, encoding="utf-8").read()
                tree = ast.parse(src, filename=rel)
            except (OSError, SyntaxError) as e:
                raise AnalysisError("cannot parse %s: %s" % (rel, e))
            set_parents(tree)
            m = ModuleInfo(self._modname(rel), path, rel, tree, "py")
            m.src = src
            self.modules[m.name] = m

    def _load_pyx(self):
        files = list(self.pyx_sources)
        for p in list(files):
            d = os.path.dirname(p)
            for pxd in sorted(glob.glob(os.path.join(self.root, d, "*.pxd"))):
                rel = os.path.relpath(pxd, self.root)
                if rel not in files:
                    files.append(rel)
        cache_dir = os.environ.get("VERIF_CACHE")
        for rel in files:
            path = self.real(rel)
            if not os.path.exists(path):
                raise AnalysisError("setup.py names %s but it does not exist" % rel)
            tree = None
            key = None
            if cache_dir:
                h = hashlib.sha256(open(path, "rb").read() + open(pyxmod.__file__, "rb").read()).hexdigest()
                key = os.path.join(cache_dir, h + ".pickle")
                if os.path.exists(key):
                    try:
                        tree = pickle.load(open(key, "rb"))
                    except Exception:
                        tree = None
            if tree is None:
                try:
                    tree = pyxmod.lower_file(path, self._modname(rel))
                except pyxmod.LoweringError as e:
                    raise AnalysisError(str(e))
                except Exception as e:  # Cython's own errors
                    raise AnalysisError("cannot parse %s: %s: %s" % (rel, type(e).__name__, e))
                ast.fix_missing_locations(tree)
                if key:
                    try:
                        os.makedirs(cache_dir, exist_ok=True)
                        pickle.dump(tree, open(key, "wb"))
                    except Exception:
                        pass
            set_parents(tree)
            name = self._modname(rel)
            kind = "pxd" if rel.endswith(".pxd") else "pyx"
            if kind == "pxd":
                name = name + "#pxd"
            m = ModuleInfo(name, path, rel, tree, kind)
            m.src = open(path, encoding="utf-8").read()
            self.modules[name] = m

    def _index(self, m):
        def visit(body, prefix, cls):
            for n in body:
                if isinstance(n, (ast.FunctionDef, ast.AsyncFunctionDef)):
                    q = prefix + "." + n.name
                    fi = FuncInfo(q, n, m, cls)
                    # keep the first definition under the plain name, later ones get a suffix
                    if q in self.functions:
                        k = 2
                        while "%s#%d" % (q, k) in self.functions:
                            k += 1
                        q = "%s#%d" % (q, k)
                        fi.qual = q
                    self.functions[q] = fi
                    m.functions[q] = fi
                    if cls is not None:
                        cls.methods.setdefault(n.name, fi)
                    visit(n.body, q, None)
                elif isinstance(n, ast.ClassDef):
                    q = prefix + "." + n.name
                    ci = ClassInfo(q, n, m)
                    ci.bases = [ast.unparse(b) for b in n.bases]
                    self.classes.setdefault(q, ci)
                    m.classes[q] = ci
                    visit(n.body, q, ci)
                elif isinstance(n, (ast.If, ast.Try, ast.With)):
                    for sub in ("body", "orelse", "finalbody"):
                        visit(getattr(n, sub, []) or [], prefix, cls)
                    for h in getattr(n, "handlers", []) or []:
                        visit(h.body, prefix, cls)

        base = m.name.replace("#pxd", "")
        visit(m.tree.body, base if m.kind != "pxd" else base + "#pxd", None)
        pkg = base if m.relpath.endswith("__init__.py") else base.rsplit(".", 1)[0]
        for n in ast.walk(m.tree):
            if isinstance(n, ast.ImportFrom):
                if n.level:
                    parts = pkg.split(".")
                    if n.level > 1:
                        parts = parts[: -(n.level - 1)]
                    src = ".".join(parts + ([n.module] if n.module else []))
                else:
                    src = n.module or ""
                for a in n.names:
                    m.imports[a.asname or a.name] = (src, a.name)
            elif isinstance(n, ast.Import):
                for a in n.names:
                    m.imports[a.asname or a.name.split(".")[0]] = (a.name if a.asname else a.name.split(".")[0], None)

    # -- lookup ----------------------------------------------------------------
    def func(self, qual):
        f = self.functions.get(qual)
        if f is None:
            raise AnalysisError("anchor vanished: function %s not found" % qual)
        return f

    def cls(self, qual):
        c = self.classes.get(qual)
        if c is None:
            raise AnalysisError("anchor vanished: class %s not found" % qual)
        return c

    def module(self, name):
        m = self.modules.get(name)
        if m is None:
            raise AnalysisError("anchor vanished: module %s not found" % name)
        return m

    def funcs_in(self, modname):
        return [f for f in self.functions.values() if f.module.name == modname]

    def enclosing_function(self, node):
        n = getattr(node, "parent", None)
        while n is not None and not isinstance(n, (ast.FunctionDef, ast.AsyncFunctionDef)):
            n = getattr(n, "parent", None)
        return n

    def funcinfo_of_node(self, fnode):
        for f in self.functions.values():
            if f.node is fnode:
                return f
        return None

    def class_chain(self, ci):
        """``ci`` followed by its base classes inside the package."""
        out, seen = [], set()
        work = [ci]
        while work:
            c = work.pop(0)
            if c is None or c.qual in seen:
                continue
            seen.add(c.qual)
            out.append(c)
            for b in c.bases:
                bname = b.split(".")[-1]
                cand = None
                imp = c.module.imports.get(bname)
                if imp and (imp[0] + "." + imp[1]) in self.classes:
                    cand = self.classes[imp[0] + "." + imp[1]]
                elif (c.module.name + "." + bname) in self.classes:
                    cand = self.classes[c.module.name + "." + bname]
                work.append(cand)
        return out

    def resolve_call(self, call, fi):
        """Resolve the callee of ``call`` (inside function ``fi``) to a list of FuncInfo.

        Returns (targets, how) with how in {"local", "import", "self", "class", "by-name", "unknown"}.
        """
        fn = call.func
        m = fi.module
        base = m.name.replace("#pxd", "")
        if isinstance(fn, ast.Name):
            q = base + "." + fn.id
            if q in self.functions:
                return [self.functions[q]], "local"
            if q in self.classes:
                init = self.classes[q].methods.get("__init__") or self.classes[q].methods.get("__cinit__")
                return ([init] if init else []), "class"
            imp = m.imports.get(fn.id)
            if imp and imp[1]:
                q = imp[0] + "." + imp[1]
                if q in self.functions:
                    return [self.functions[q]], "import"
                if q in self.classes:
                    c = self.classes[q]
                    init = None
                    for cc in self.class_chain(c):
                        init = cc.methods.get("__init__") or cc.methods.get("__cinit__")
                        if init:
                            break
                    return ([init] if init else []), "class"
            # nested function
            q = fi.qual + "." + fn.id
            if q in self.functions:
                return [self.functions[q]], "local"
            return [], "unknown"
        if isinstance(fn, ast.Attribute):
            if isinstance(fn.value, ast.Name) and fn.value.id in ("self", "cls") and fi.cls is not None:
                for c in self.class_chain(fi.cls):
                    if fn.attr in c.methods:
                        return [c.methods[fn.attr]], "self"
                return [], "unknown"
            if isinstance(fn.value, ast.Name):
                imp = m.imports.get(fn.value.id)
                if imp and imp[1] is None:
                    q = imp[0] + "." + fn.attr
                    if q in self.functions:
                        return [self.functions[q]], "import"
                elif imp:
                    q = imp[0] + "." + imp[1] + "." + fn.attr
                    if q in self.functions:
                        return [self.functions[q]], "import"
            cands = [f for f in self._by_name.get(fn.attr, []) if f.cls is not None and not f.module.name.endswith("#pxd")]
            if len(cands) == 1:
                return cands, "by-name"
            if cands:
                return cands, "by-name-ambiguous"
            return [], "unknown"
        return [], "unknown"

    def calls_in(self, fnode, include_nested=False):
        out = []
        for n in walk_function(fnode, include_nested):
            if isinstance(n, ast.Call):
                out.append(n)
        return out


def walk_function(fnode, include_nested=False):
    """Walk the nodes of a function body without entering nested defs/classes."""
    stack = list(reversed(fnode.body))
    while stack:
        n = stack.pop()
        yield n
        for c in reversed(list(ast.iter_child_nodes(n))):
            if not include_nested and isinstance(c, (ast.FunctionDef, ast.AsyncFunctionDef, ast.ClassDef, ast.Lambda)):
                continue
            stack.append(c)


def call_name(call):
    """Dotted name of a call's function expression, or None."""
    f = call.func
    parts = []
    while isinstance(f, ast.Attribute):
        parts.append(f.attr)
        f = f.value
    if isinstance(f, ast.Name):
        parts.append(f.id)
        return ".".join(reversed(parts))
    return None


def attr_chain(e):
    """('a','b','c') for a.b.c, None if the base is not a Name."""
    parts = []
    while isinstance(e, ast.Attribute):
        parts.append(e.attr)
        e = e.value
    if isinstance(e, ast.Name):
        parts.append(e.id)
        return tuple(reversed(parts))
    return None
