"""Rule framework: obligations, instance floors, known findings, evidence, reports."""
import json
import os
import time
import traceback

from .model import AnalysisError, Program

VERIF = os.path.dirname(os.path.dirname(os.path.abspath(__file__)))
KNOWN_PATH = os.path.join(VERIF, "known_findings.json")


class Ob:
    __slots__ = ("rule", "func", "construct", "ok", "loc", "msg", "witness", "note")

    def __init__(self, rule, func, construct, ok, loc, msg, witness=None, note=False):
        self.rule = rule
        self.func = func
        self.construct = construct
        self.ok = bool(ok)
        self.loc = loc
        self.msg = msg
        self.witness = witness or []
        self.note = note

    @property
    def key(self):
        return "%s|%s|%s" % (self.rule, self.func, self.construct)

    def as_dict(self):
        return {
            "rule": self.rule,
            "function": self.func,
            "construct": self.construct,
            "ok": self.ok,
            "loc": self.loc,
            "msg": self.msg,
            "witness": self.witness,
        }


class Ctx:
    """What a rule sees: the program, and sinks for obligations / notes / analysed units."""

    def __init__(self, prog, prop, tier="quick"):
        self.prog = prog
        self.prop = prop
        self.tier = tier
        self.obs = []
        self.notes = []
        self.analysed_functions = set()
        self.analysed_files = set()
        self.cfg_nodes = 0
        self.calls_resolved = 0
        self.calls_total = 0
        self.current_rule = None
        self.analysis_errors = []

    def ob(self, func, construct, ok, loc, msg, witness=None, rule=None):
        if ok is None:
            # undecided: the construct this obligation talks about is not there in a shape the rule understands.
            # Neither a violation (nothing contradicts the rule) nor a pass: the run ends as ANALYSIS-ERROR (exit 2).
            self.analysis_errors.append("%s: undecided %s [%s] at %s: %s" % (rule or self.current_rule, func, construct, loc, msg))
            return None
        o = Ob(rule or self.current_rule, func, construct, ok, loc, msg, witness)
        self.obs.append(o)
        return o

    def note(self, msg):
        self.notes.append("%s: %s" % (self.current_rule, msg))

    def require(self, cond, msg):
        if not cond:
            raise AnalysisError("%s: %s" % (self.current_rule, msg))

    def func(self, qual):
        f = self.prog.func(qual)
        self.analysed_functions.add(qual)
        self.analysed_files.add(f.module.relpath)
        return f

    def cfg(self, fi):
        from .cfg import cfg_of

        c = cfg_of(fi)
        self.analysed_functions.add(fi.qual)
        self.analysed_files.add(fi.module.relpath)
        return c

    def resolve(self, call, fi):
        t, how = self.prog.resolve_call(call, fi)
        self.calls_total += 1
        if t:
            self.calls_resolved += 1
        return t, how


def load_known():
    if not os.path.exists(KNOWN_PATH):
        return []
    with open(KNOWN_PATH) as f:
        return json.load(f).get("findings", [])


def match_known(ob, prop, known):
    for k in known:
        if k.get("status") != "known":
            continue
        if k["property"] == prop and k["rule"] == ob.rule and k["function"] == ob.func and k["construct"] == ob.construct:
            return k
    return None


def run_property(propmod, root, tier="quick", only_rules=None):
    """Run every rule of a property module on the tree at ``root``.
    Returns (ctx, floors_missed list). Raises AnalysisError."""
    prog = Program(root, want_pyx=getattr(propmod, "NEEDS_PYX", False))
    ctx = Ctx(prog, propmod.PROPERTY, tier)
    counts = {}
    for rid, title, fn in propmod.RULES:
        if only_rules and rid not in only_rules:
            continue
        ctx.current_rule = rid
        before = len(ctx.obs)
        try:
            fn(ctx)
        except AnalysisError as e:
            # keep going: a violation found by another rule must still be reported;
            # the run is only "analysis broken" (exit 2) if nothing else is wrong
            ctx.analysis_errors.append("%s: %s" % (rid, e))
        except (IndexError, KeyError, AttributeError, TypeError, ValueError) as e:
            # the rule met a shape of the code it was not written for: undecided, never a silent pass
            tb = traceback.extract_tb(e.__traceback__)
            where = "%s:%s" % (os.path.basename(tb[-1].filename), tb[-1].lineno) if tb else "?"
            ctx.analysis_errors.append("%s: undecided (the rule does not understand the shape of the code it looks at: %s: %s at %s)" % (rid, type(e).__name__, e, where))
        counts[rid] = len(ctx.obs) - before
    ctx.current_rule = None
    missed = []
    for rid, floor in getattr(propmod, "FLOORS", {}).items():
        if only_rules and rid not in only_rules:
            continue
        if any(e.startswith(rid + ":") for e in ctx.analysis_errors):
            continue
        if counts.get(rid, 0) < floor:
            missed.append("%s: %d instances found, floor is %d" % (rid, counts.get(rid, 0), floor))
    ctx.rule_counts = counts
    return ctx, missed


def write_evidence(propmod, ctx, tier, wall, violations, known_hits, extra=None, path=None):
    prop = propmod.PROPERTY
    obs = ctx.obs
    rules = {}
    for rid, title, fn in propmod.RULES:
        rs = [o for o in obs if o.rule == rid]
        rules[rid] = {
            "title": title,
            "instances": len(rs),
            "holding": sum(1 for o in rs if o.ok),
            "floor": getattr(propmod, "FLOORS", {}).get(rid, 0),
        }
    samples = []
    seen_rules = set()
    for o in obs:
        if o.rule not in seen_rules or not o.ok:
            seen_rules.add(o.rule)
            samples.append(o.as_dict())
    distinct = len({o.key for o in obs})
    cov = {
        "explanation": propmod.EXPLANATION,
        "not_decided": getattr(propmod, "NOT_DECIDED", ""),
        "obligations": len(obs),
        "discharged": sum(1 for o in obs if o.ok),
        "evaluations": len(obs),
        "distinct_nontrivial": distinct,
        "rule": "one obligation per rule instance located in /repo's current source; distinct = distinct (rule, function, construct) keys",
        "samples": samples[:40],
        "rules": rules,
        "files_analysed": sorted(ctx.analysed_files),
        "functions_analysed": sorted(ctx.analysed_functions),
        "modules_parsed": len(ctx.prog.modules),
        "functions_in_program": len(ctx.prog.functions),
        "callee_resolution": {"resolved": ctx.calls_resolved, "total": ctx.calls_total},
        "known_findings_reported": known_hits,
        "normalisation": {
            "what": "before the rules ran: locals renamed back to the reference names (sa/alpha.py); helpers / temporaries / constants / loops that are new w.r.t. reference/names.json folded back (sa/derefactor.py). Empty on the reference tree.",
            "renamed_functions": sorted(getattr(ctx.prog, "renamed", {}) or {})[:50],
            "derefactored": {k: (v if isinstance(v, list) else v) for k, v in (getattr(ctx.prog, "derefactored", {}) or {}).items() if k.startswith("#")},
        },
        "undecided": list(ctx.analysis_errors),
        "notes": ctx.notes,
        "exhaustive": True,
        "trusted_base": [
            "Python ast",
            "Cython 3 parser (parse only)",
            "clang 14 front end (-ast-dump=json)",
            "frozen fact tables in /verif/rules (each with a reason)",
            "reference/names.json (function shapes of the reference commit: decides what counts as a NEW helper / temporary / constant)",
            "pysam semantics of call[...], call.phased, set_tag",
        ],
    }
    if extra:
        cov.update(extra)
    ev = {
        "property_id": prop,
        "tier": tier,
        "seed": int(os.environ.get("VERIF_SEED", "0") or 0),
        "level": "other",
        "coverage": cov,
        "assumptions": getattr(propmod, "ASSUMPTIONS", []),
        "wall_s": round(wall, 3),
        "violations": violations,
    }
    path = path or os.path.join(VERIF, "evidence", "%s.json" % prop)
    os.makedirs(os.path.dirname(path), exist_ok=True)
    tmp = path + ".tmp.%d" % os.getpid()
    with open(tmp, "w") as f:
        json.dump(ev, f, indent=1, sort_keys=True)
    os.replace(tmp, path)
    return path


def report_violation(prop, ob, root):
    rdir = os.path.join(VERIF, "evidence", "replay")
    os.makedirs(rdir, exist_ok=True)
    safe = "".join(c if c.isalnum() or c in "-_." else "_" for c in "%s-%s-%s" % (ob.rule, ob.func.split(".")[-1], ob.construct))[:120]
    path = os.path.join(rdir, "%s.json" % safe)
    with open(path, "w") as f:
        json.dump({"property": prop, "rule": ob.rule, "function": ob.func, "construct": ob.construct, "loc": ob.loc, "msg": ob.msg, "witness": ob.witness, "root": root}, f, indent=1)
    print("VIOLATION property=%s replay=%s" % (prop, path))
    print("  %s  %s %s: %s" % (ob.rule, ob.loc, ob.func, ob.msg))
    for w in ob.witness:
        print("    | %s" % w)
    return path
