"""Statement-level control-flow graph for one function (Python or lowered Cython).

Nodes are integers in a ``networkx.DiGraph`` with attributes

* ``kind``: entry | exit | raise | stmt | test | for | with | return | raise_stmt |
  break | continue | except | join
* ``ast``:  the statement (or, for ``test`` nodes, the test expression)
* ``stmt``: the owning statement

Edge attribute ``label``: next | true | false | loop | exhausted | exc | back

"Normal exit" is the ``exit`` node (return / fall off the end); ``raise`` collects
uncaught exceptions and failed assertions.
"""
import ast
import networkx as nx

from .model import AnalysisError

SIMPLE = (
    ast.Assign,
    ast.AugAssign,
    ast.AnnAssign,
    ast.Expr,
    ast.Delete,
    ast.Pass,
    ast.Import,
    ast.ImportFrom,
    ast.Global,
    ast.Nonlocal,
    ast.FunctionDef,
    ast.AsyncFunctionDef,
    ast.ClassDef,
)


class CFG:
    def __init__(self, fnode, filename="?"):
        self.fnode = fnode
        self.filename = filename
        self.g = nx.DiGraph()
        self._n = 0
        self.entry = self._node("entry", None, None)
        self.exit = self._node("exit", None, None)
        self.raise_exit = self._node("raise", None, None)
        self.by_stmt = {}
        self._ctx = []
        out = self._block(fnode.body, [(self.entry, "next")])
        self._connect(out, self.exit)
        self._idom = None
        self._ipdom = None

    # -- construction ----------------------------------------------------------
    def _node(self, kind, node, stmt):
        i = self._n
        self._n += 1
        self.g.add_node(i, kind=kind, ast=node, stmt=stmt)
        if stmt is not None:
            self.by_stmt.setdefault(id(stmt), []).append(i)
        return i

    def _connect(self, dangling, target):
        for src, label in dangling:
            if self.g.has_edge(src, target):
                # keep both labels (an `if` whose two arms are empty)
                self.g[src][target]["label"] = self.g[src][target]["label"] + "|" + label
            else:
                self.g.add_edge(src, target, label=label)

    def _exc_targets(self):
        for kind, val in reversed(self._ctx):
            if kind == "handlers":
                return val
        return None

    def _new(self, kind, node, stmt, preds):
        n = self._node(kind, node, stmt)
        self._connect(preds, n)
        # any statement inside a try body may raise into the handlers
        for kind_, val in reversed(self._ctx):
            if kind_ == "handlers":
                for h in val:
                    if not self.g.has_edge(n, h):
                        self.g.add_edge(n, h, label="exc")
                break
            if kind_ == "finally":
                continue
        return n

    def _unwind(self, preds, stop_kind):
        """Run the finally bodies between here and the nearest ``stop_kind`` context entry.
        Returns (dangling, ctx_entry or None)."""
        dang = preds
        saved = self._ctx
        for idx in range(len(saved) - 1, -1, -1):
            kind, val = saved[idx]
            if kind == "finally":
                self._ctx = saved[:idx]
                dang = self._block(val, dang)
                self._ctx = saved
            elif kind == stop_kind:
                self._ctx = saved
                return dang, val
        self._ctx = saved
        return dang, None

    def _block(self, stmts, preds):
        for s in stmts:
            preds = self._stmt(s, preds)
        return preds

    def _stmt(self, s, preds):
        if isinstance(s, SIMPLE):
            n = self._new("stmt", s, s, preds)
            return [(n, "next")]
        if isinstance(s, ast.If):
            t = self._new("test", s.test, s, preds)
            a = self._block(s.body, [(t, "true")])
            b = self._block(s.orelse, [(t, "false")])
            return a + b
        if isinstance(s, ast.Assert):
            t = self._new("test", s.test, s, preds)
            dang, handlers = self._unwind([(t, "false")], "handlers")
            if handlers:
                for h in handlers:
                    self._connect(dang, h)
            else:
                self._connect(dang, self.raise_exit)
            return [(t, "true")]
        if isinstance(s, ast.While):
            t = self._new("test", s.test, s, preds)
            info = {"head": t, "breaks": []}
            self._ctx.append(("loop", info))
            body_out = self._block(s.body, [(t, "true")])
            self._ctx.pop()
            self._connect([(a, "back" if l == "next" else l) for a, l in body_out], t)
            const_true = isinstance(s.test, ast.Constant) and bool(s.test.value)
            after = [] if const_true else self._block(s.orelse, [(t, "false")])
            return after + info["breaks"]
        if isinstance(s, (ast.For, ast.AsyncFor)):
            h = self._new("for", s, s, preds)
            info = {"head": h, "breaks": []}
            self._ctx.append(("loop", info))
            body_out = self._block(s.body, [(h, "loop")])
            self._ctx.pop()
            self._connect([(a, "back" if l == "next" else l) for a, l in body_out], h)
            after = self._block(s.orelse, [(h, "exhausted")])
            return after + info["breaks"]
        if isinstance(s, (ast.With, ast.AsyncWith)):
            w = self._new("with", s, s, preds)
            return self._block(s.body, [(w, "next")])
        if isinstance(s, ast.Return):
            n = self._new("return", s, s, preds)
            dang, _ = self._unwind([(n, "next")], "function")
            self._connect(dang, self.exit)
            return []
        if isinstance(s, ast.Raise):
            n = self._new("raise_stmt", s, s, preds)
            dang, handlers = self._unwind([(n, "next")], "handlers")
            if handlers:
                for h in handlers:
                    self._connect(dang, h)
                # an exception type no handler names still escapes
                self._connect(dang, self.raise_exit)
            else:
                self._connect(dang, self.raise_exit)
            return []
        if isinstance(s, ast.Break):
            n = self._new("break", s, s, preds)
            dang, info = self._unwind([(n, "next")], "loop")
            if info is None:
                raise AnalysisError("break outside loop at %s:%s" % (self.filename, s.lineno))
            info["breaks"].extend(dang)
            return []
        if isinstance(s, ast.Continue):
            n = self._new("continue", s, s, preds)
            dang, info = self._unwind([(n, "next")], "loop")
            if info is None:
                raise AnalysisError("continue outside loop at %s:%s" % (self.filename, s.lineno))
            self._connect([(a, "back") for a, _ in dang], info["head"])
            return []
        if isinstance(s, ast.Try) or type(s).__name__ == "TryStar":
            handler_nodes = [self._node("except", h, h) for h in s.handlers]
            if s.finalbody:
                self._ctx.append(("finally", s.finalbody))
            if handler_nodes:
                self._ctx.append(("handlers", handler_nodes))
            j = self._new("join", s, None, preds)
            body_out = self._block(s.body, [(j, "next")])
            if handler_nodes:
                self._ctx.pop()
            body_out = self._block(s.orelse, body_out)
            outs = list(body_out)
            for hn, h in zip(handler_nodes, s.handlers):
                outs += self._block(h.body, [(hn, "next")])
            if s.finalbody:
                self._ctx.pop()
                outs = self._block(s.finalbody, outs)
            return outs
        if type(s).__name__ == "Match":
            raise AnalysisError("match statement not supported (%s:%s)" % (self.filename, s.lineno))
        raise AnalysisError("unsupported statement %s at %s:%s" % (type(s).__name__, self.filename, getattr(s, "lineno", "?")))

    # -- queries -----------------------------------------------------------------
    def kind(self, n):
        return self.g.nodes[n]["kind"]

    def ast(self, n):
        return self.g.nodes[n]["ast"]

    def stmt(self, n):
        return self.g.nodes[n]["stmt"]

    def line(self, n):
        a = self.g.nodes[n]["ast"] or self.g.nodes[n]["stmt"]
        return getattr(a, "lineno", 0) if a is not None else 0

    def nodes_of(self, stmt):
        return list(self.by_stmt.get(id(stmt), []))

    def node_of(self, stmt):
        ns = self.nodes_of(stmt)
        if not ns:
            raise AnalysisError("statement at line %s has no CFG node" % getattr(stmt, "lineno", "?"))
        return ns[0]

    def enclosing_stmt(self, node):
        """The innermost statement (that has a CFG node) containing ast ``node``."""
        n = node
        while n is not None:
            if id(n) in self.by_stmt:
                return n
            n = getattr(n, "parent", None)
        return None

    def node_containing(self, node):
        s = self.enclosing_stmt(node)
        if s is None:
            raise AnalysisError("no CFG node contains expression at line %s" % getattr(node, "lineno", "?"))
        ns = self.nodes_of(s)
        # for compound statements the expression may be in the header (test / iter)
        return ns[0]

    def succ(self, n, label=None):
        return [m for m in self.g.successors(n) if label is None or label in self.g[n][m]["label"].split("|")]

    def reachable(self, src, avoid_nodes=(), avoid_edges=()):
        avoid_nodes = set(avoid_nodes)
        avoid_edges = set(avoid_edges)
        seen = set()
        if src in avoid_nodes:
            return seen
        stack = [src]
        seen.add(src)
        while stack:
            a = stack.pop()
            for b in self.g.successors(a):
                if b in seen or b in avoid_nodes or (a, b) in avoid_edges:
                    continue
                seen.add(b)
                stack.append(b)
        return seen

    def find_path(self, src, dst, avoid_nodes=(), avoid_edges=(), start_after=False):
        """BFS witness path src -> dst avoiding nodes/edges; None if there is none.
        With ``start_after`` the path must leave ``src`` first (for cycles src -> src)."""
        avoid_nodes = set(avoid_nodes) - {src, dst}
        avoid_edges = set(avoid_edges)
        prev = {}
        from collections import deque

        q = deque()
        if start_after:
            for b in self.g.successors(src):
                if b not in avoid_nodes and (src, b) not in avoid_edges and b not in prev:
                    prev[b] = src
                    q.append(b)
        else:
            prev[src] = None
            q.append(src)
        while q:
            a = q.popleft()
            if a == dst and (a in prev):
                path = [a]
                p = prev[a]
                while p is not None and (p != src or not start_after):
                    path.append(p)
                    p = prev.get(p)
                if start_after:
                    path.append(src)
                return list(reversed(path))
            for b in self.g.successors(a):
                if b in prev or b in avoid_nodes or (a, b) in avoid_edges:
                    continue
                prev[b] = a
                q.append(b)
        return None

    def idom(self):
        if self._idom is None:
            self._idom = nx.immediate_dominators(self.g, self.entry)
        return self._idom

    def dominates(self, a, b):
        """Every path entry -> b passes through a."""
        idom = self.idom()
        if b not in idom:
            return False  # unreachable
        n = b
        while True:
            if n == a:
                return True
            p = idom.get(n)
            if p is None or p == n:
                return False
            n = p

    def postdominates(self, a, b, exit_node=None):
        """Every path b -> normal exit passes through a (paths into ``raise`` are ignored)."""
        ex = self.exit if exit_node is None else exit_node
        if a == b:
            return True
        reach = self.reachable(b, avoid_nodes=[a])
        return ex not in reach

    def edge_dominates(self, edge, n):
        if n not in self.reachable(self.entry):
            return False
        return n not in self.reachable(self.entry, avoid_edges=[edge])

    def dominating_edges(self, n):
        """All (test node, label) branch edges through which every path entry -> n passes."""
        out = []
        for a in self.g.nodes:
            k = self.kind(a)
            if k not in ("test", "for"):
                continue
            succs = list(self.g.successors(a))
            if len(succs) < 2 and not (len(succs) == 1 and "|" not in self.g[a][succs[0]]["label"]):
                continue
            if not self.dominates(a, n) and a != n:
                continue
            for b in succs:
                lab = self.g[a][b]["label"]
                if "|" in lab:
                    continue
                if self.edge_dominates((a, b), n):
                    out.append((a, lab))
        return out

    def describe(self, n):
        k = self.kind(n)
        if k in ("entry", "exit", "raise"):
            return k
        a = self.ast(n)
        try:
            if k == "for":
                txt = "for %s in %s" % (ast.unparse(a.target), ast.unparse(a.iter))
            elif k == "with":
                txt = "with " + ", ".join(ast.unparse(i.context_expr) for i in a.items)
            elif k == "except":
                txt = "except " + (ast.unparse(a.type) if a.type is not None else "")
            elif k == "join":
                txt = "try"
            elif isinstance(a, (ast.FunctionDef, ast.ClassDef)):
                txt = "def " + a.name
            else:
                txt = ast.unparse(a)
        except Exception:
            txt = type(a).__name__
        txt = txt.split("\n")[0]
        if len(txt) > 90:
            txt = txt[:87] + "..."
        return "%s:%s %s" % (self.filename, self.line(n), txt)

    def describe_path(self, path, maxlen=12):
        if path is None:
            return []
        items = [self.describe(n) for n in path]
        if len(items) > maxlen:
            items = items[: maxlen // 2] + ["..."] + items[-maxlen // 2 :]
        return items

    def loop_body_nodes(self, head):
        """Nodes on some cycle through ``head`` (i.e. the loop body, including nested code)."""
        body_starts = self.succ(head, "loop") + self.succ(head, "true")
        fwd = set()
        for b in body_starts:
            fwd |= self.reachable(b, avoid_nodes=[head])
        # only nodes from which head is reachable again
        rev = nx.ancestors(self.g, head)
        return (fwd & rev) | set(body_starts)


_cfg_cache = {}


def cfg_of(fi):
    key = id(fi.node)
    c = _cfg_cache.get(key)
    if c is None:
        c = CFG(fi.node, fi.module.relpath)
        _cfg_cache[key] = c
    return c
