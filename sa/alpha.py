"""Name normalisation: undo renamings of local variables before the rules run.

The rules of /verif/rules name local variables of whatshap's functions (`read_haplotype`,
`is_tagged`, `to_discard`, ...).  A refactoring that merely renames locals (or parameters) must not
change any verdict.  For every function we keep, in `reference/names.json`, the sequence of its
statement *fingerprints* (the statement header unparsed with every local name replaced by `_`) together
with the local names in order of occurrence.  At analysis time the function's current statements are
aligned with that sequence (difflib on fingerprints); aligned statements with equal fingerprints vote
for a mapping current-name -> reference-name; a consistent, injective mapping is applied to the
function's AST in memory.  Statements that changed shape simply do not vote, so an edited function
still gets its untouched variables back under their reference names.

This is a normalisation, not a rule: it can only remove differences that are pure renamings.
"""
import ast
import copy
import difflib
import json
import os

from .model import walk_function

REF_PATH = os.path.join(os.path.dirname(os.path.dirname(os.path.abspath(__file__))), "reference", "names.json")


def local_names(fnode):
    names = set()
    a = fnode.args
    for x in a.posonlyargs + a.args + a.kwonlyargs:
        names.add(x.arg)
    if a.vararg:
        names.add(a.vararg.arg)
    if a.kwarg:
        names.add(a.kwarg.arg)
    declared_global = set()
    for n in ast.walk(fnode):
        if isinstance(n, (ast.Global, ast.Nonlocal)):
            declared_global |= set(n.names)
        elif isinstance(n, ast.Name) and isinstance(n.ctx, (ast.Store, ast.Del)):
            names.add(n.id)
        elif isinstance(n, ast.ExceptHandler) and n.name:
            names.add(n.name)
        elif isinstance(n, (ast.FunctionDef, ast.AsyncFunctionDef)) and n is not fnode:
            names.add(n.name)
            for x in n.args.posonlyargs + n.args.args + n.args.kwonlyargs:
                names.add(x.arg)
    names -= declared_global
    names.discard("self")
    names.discard("cls")
    return names


_BODY_FIELDS = ("body", "orelse", "finalbody", "handlers")


def _clone(node):
    """Structural copy along _fields only (the `parent` back-links of the program model are not followed)."""
    if isinstance(node, ast.AST):
        new = type(node)()
        for f in node._fields:
            if hasattr(node, f):
                setattr(new, f, _clone(getattr(node, f)))
        for a in ("lineno", "col_offset", "end_lineno", "end_col_offset"):
            if hasattr(node, a):
                setattr(new, a, getattr(node, a))
        return new
    if isinstance(node, list):
        return [_clone(x) for x in node]
    return node


def _header(stmt):
    """Shallow copy of a statement without nested statement lists."""
    c = copy.copy(stmt)
    for f in _BODY_FIELDS:
        if hasattr(c, f) and isinstance(getattr(c, f), list):
            setattr(c, f, [ast.Pass()] if f == "body" else [])
    if isinstance(c, ast.Try):
        c.body = [ast.Pass()]
        c.handlers = []
        c.finalbody = [ast.Pass()]
    return c


def _units(fnode):
    """Statements of the function in pre-order (nested defs are one unit each, their bodies are walked too)."""
    out = [fnode]
    stack = list(reversed(fnode.body))
    while stack:
        s = stack.pop()
        out.append(s)
        if isinstance(s, ast.ExceptHandler):
            stack.extend(reversed(s.body))
            continue
        for f in ("finalbody", "orelse", "handlers", "body"):
            v = getattr(s, f, None)
            if isinstance(v, list) and v and isinstance(v[0], (ast.stmt, ast.ExceptHandler)):
                stack.extend(reversed(v))
    return out


def _fingerprint(unit, locs):
    """(text with locals abstracted, [local names in order of occurrence])."""
    if isinstance(unit, (ast.FunctionDef, ast.AsyncFunctionDef)):
        h = copy.copy(unit)
        h.body = [ast.Pass()]
        h.decorator_list = []
    elif isinstance(unit, ast.ExceptHandler):
        h = copy.copy(unit)
        h.body = [ast.Pass()]
    else:
        h = _header(unit)
    h = _clone(h)
    order = []
    for n in ast.walk(h):
        if isinstance(n, ast.Name) and n.id in locs:
            order.append(n.id)
            n.id = "_"
        elif isinstance(n, ast.arg) and n.arg in locs:
            order.append(n.arg)
            n.arg = "_"
        elif isinstance(n, ast.ExceptHandler) and n.name in locs:
            order.append(n.name)
            n.name = "_"
        elif isinstance(n, (ast.FunctionDef, ast.AsyncFunctionDef)) and n.name in locs:
            order.append(n.name)
            n.name = "_"
    try:
        txt = ast.unparse(h)
    except Exception:
        txt = ast.dump(h)
    return txt, order


def deep_fingerprint(unit, locs):
    """Digest of a whole (compound) statement with locals abstracted: 'is this very statement, body included, in the reference?'"""
    import hashlib

    h = _clone(unit)
    for n in ast.walk(h):
        if isinstance(n, ast.Name) and n.id in locs:
            n.id = "_"
        elif isinstance(n, ast.arg) and n.arg in locs:
            n.arg = "_"
        elif isinstance(n, ast.ExceptHandler) and n.name in locs:
            n.name = "_"
    try:
        txt = ast.unparse(h)
    except Exception:
        txt = ast.dump(h)
    return hashlib.sha1(txt.encode()).hexdigest()[:12]


def exact_hash(fnode):
    """Digest of the function's AST as written (names included, positions excluded): equal to the reference's digest iff the
    function is untouched, in which case every normalisation is the identity and can be skipped."""
    import hashlib

    return hashlib.sha1(ast.dump(fnode, annotate_fields=False, include_attributes=False).encode()).hexdigest()[:16]


def deep_set(fnode):
    locs = local_names(fnode)
    return sorted({deep_fingerprint(n, locs) for n in ast.walk(fnode) if isinstance(n, (ast.For, ast.While, ast.If, ast.With, ast.Try)) and n is not fnode})


def describe(fnode):
    locs = local_names(fnode)
    return [list(_fingerprint(u_, locs)) for u_ in _units(fnode)]


def build_reference(prog):
    ref = {}
    for q, fi in prog.functions.items():
        if fi.module.kind not in ("py", "pyx"):
            continue
        ref[q] = describe(fi.node)
        ref["#deep:" + q] = deep_set(fi.node)
        ref["#hash:" + q] = exact_hash(fi.node)
    # module-level names (a scalar constant that is new w.r.t. this list is folded back into its uses, see sa/derefactor.py)
    for mname, m in prog.modules.items():
        if m.kind not in ("py", "pyx"):
            continue
        names = set()
        for s_ in m.tree.body:
            for n in ast.walk(s_) if isinstance(s_, (ast.Assign, ast.AnnAssign, ast.AugAssign)) else []:
                if isinstance(n, ast.Name) and isinstance(n.ctx, ast.Store):
                    names.add(n.id)
        ref["#globals:" + mname] = sorted(names)
        cnames = set()
        for c_ in ast.walk(m.tree):
            if isinstance(c_, ast.ClassDef):
                for s_ in c_.body:
                    for n in ast.walk(s_) if isinstance(s_, (ast.Assign, ast.AnnAssign, ast.AugAssign)) else []:
                        if isinstance(n, ast.Name) and isinstance(n.ctx, ast.Store):
                            cnames.add("%s.%s" % (c_.name, n.id))
        ref["#classattrs:" + mname] = sorted(cnames)
        ref["#classes:" + mname] = sorted(c_.name for c_ in ast.walk(m.tree) if isinstance(c_, ast.ClassDef))
    return ref


def load_reference():
    if not os.path.exists(REF_PATH):
        return {}
    with open(REF_PATH) as f:
        return json.load(f)


def mapping_for(fnode, refdesc):
    cur = describe(fnode)
    a = [x[0] for x in cur]
    b = [x[0] for x in refdesc]
    votes = {}
    sm = difflib.SequenceMatcher(None, a, b, autojunk=False)
    for i, j, n in sm.get_matching_blocks():
        for k in range(n):
            cn, rn = cur[i + k][1], refdesc[j + k][1]
            if len(cn) != len(rn):
                continue
            for x, y in zip(cn, rn):
                votes.setdefault(x, {}).setdefault(y, 0)
                votes[x][y] += 1
    # a renaming is believed only if most statements that mention the name say so: in a restructured function a
    # single accidental fingerprint match (`yield _`) must not rename a new temporary into a reference variable
    occurrences = {}
    for fp, names in cur:
        for x in set(names):
            occurrences[x] = occurrences.get(x, 0) + 1
    mapping = {}
    for x, d in votes.items():
        best = sorted(d.items(), key=lambda t: (-t[1], t[0]))
        if len(best) > 1 and best[0][1] == best[1][1]:
            continue  # ambiguous
        if 2 * best[0][1] < occurrences.get(x, 1):
            continue  # too little evidence
        mapping[x] = best[0][0]
    # injective: drop weaker claims on the same reference name
    by_ref = {}
    for x, y in mapping.items():
        by_ref.setdefault(y, []).append((votes[x][y], x))
    for y, claim in by_ref.items():
        if len(claim) > 1:
            claim.sort(reverse=True)
            for _, x in claim[1:]:
                del mapping[x]
    return {x: y for x, y in mapping.items() if x != y}


def apply_mapping(fnode, mapping):
    if not mapping:
        return 0
    locs = local_names(fnode)
    # a local is never renamed *into* a parameter's name: a local
    # that was un-shadowed from a parameter (`for chrom, chrom_regions in ...` where the reference re-used `regions`) stays as it is
    a_ = fnode.args
    params = {x.arg for x in a_.posonlyargs + a_.args + a_.kwonlyargs} | ({a_.vararg.arg} if a_.vararg else set()) | ({a_.kwarg.arg} if a_.kwarg else set())
    mapping = {x: y for x, y in mapping.items() if not (y in params and x not in params)}
    if not mapping:
        return 0
    taken = set(mapping.values())
    final = dict(mapping)
    for x in locs:
        if x not in final and x in taken:
            # an unmapped local that would collide with a reference name handed to another variable
            k = 1
            while "%s_%d" % (x, k) in locs or "%s_%d" % (x, k) in taken:
                k += 1
            final[x] = "%s_%d" % (x, k)
    n_changed = 0
    for n in ast.walk(fnode):
        if isinstance(n, ast.Name) and n.id in final:
            n.id = final[n.id]
            n_changed += 1
        elif isinstance(n, ast.arg) and n.arg in final:
            n.arg = final[n.arg]
        elif isinstance(n, ast.ExceptHandler) and n.name in final:
            n.name = final[n.name]
        elif isinstance(n, (ast.FunctionDef, ast.AsyncFunctionDef)) and n is not fnode and n.name in final:
            n.name = final[n.name]
        elif isinstance(n, ast.keyword) and False:
            pass
    return n_changed


def normalise(prog):
    """Rename locals of every function back to the reference names where they were merely renamed.
    Returns {qualname: mapping} for the functions that were touched."""
    ref = load_reference()
    touched = {}
    if not ref:
        return touched
    for q, fi in prog.functions.items():
        d = ref.get(q)
        if not d:
            continue
        if ref.get("#hash:" + q) == exact_hash(fi.node):
            continue  # untouched
        try:
            m = mapping_for(fi.node, d)
        except Exception:
            continue
        if m:
            apply_mapping(fi.node, m)
            touched[q] = m
    return touched
