"""Lowering of Cython parse trees (.pyx/.pxd) to stdlib ``ast`` nodes.

Only the Cython *parser* is used (``Context.parse``); no type analysis, no code
generation.  The node vocabulary below is closed: a Cython node class that the
lowering does not know raises ``LoweringError`` (the driver turns it into
ANALYSIS-ERROR, exit 2) -- nothing is dropped silently.

Conventions of the lowered tree
* ``cdef T x = e``            -> ``AnnAssign(Name x, annotation=Constant("T"), value=e)``
* ``cdef`` function / method   -> ``FunctionDef`` with attribute ``c_level = True``
* C++ method declaration (.pxd)-> ``FunctionDef`` with ``c_decl = True`` and body ``[Pass]``
* ``cdef class`` / ``cppclass``-> ``ClassDef`` (``c_level`` / ``cpp_class``)
* ``property p:``              -> ``ClassDef`` with ``is_property = True``
* ``new T(args)``              -> ``Call(Name("new"), [Constant("T"), *args])``
* ``<T>e``                     -> ``Call(Name("cast"), [Constant("T"), e])``
* ``NULL``                     -> ``Name("NULL")``
* ``with nogil:``              -> ``With(items=[Name("nogil")])``
* argument C types are kept in ``arg.annotation`` as ``Constant("T")``
"""
import ast
import os


class LoweringError(Exception):
    pass


_ctx_cache = {}


def _cy():
    from Cython.Compiler.Main import Context, CompilationOptions, default_options
    from Cython.Compiler.Scanning import FileSourceDescriptor
    from Cython.Compiler import Nodes, ExprNodes

    return Context, CompilationOptions, default_options, FileSourceDescriptor, Nodes, ExprNodes


def parse_cython(path, modname):
    Context, CompilationOptions, default_options, FSD, Nodes, ExprNodes = _cy()
    opts = CompilationOptions(default_options, language_level=3, cplus=True)
    ctx = Context.from_options(opts)
    src = FSD(path, path)
    scope = ctx.find_module(modname, pos=(src, 1, 0), need_pxd=0)
    return ctx.parse(src, scope, pxd=path.endswith(".pxd"), full_module_name=modname)


_BINOPS = {
    "+": ast.Add,
    "-": ast.Sub,
    "*": ast.Mult,
    "/": ast.Div,
    "//": ast.FloorDiv,
    "%": ast.Mod,
    "**": ast.Pow,
    "<<": ast.LShift,
    ">>": ast.RShift,
    "|": ast.BitOr,
    "&": ast.BitAnd,
    "^": ast.BitXor,
    "@": ast.MatMult,
}
_CMPOPS = {
    "==": ast.Eq,
    "!=": ast.NotEq,
    "<": ast.Lt,
    "<=": ast.LtE,
    ">": ast.Gt,
    ">=": ast.GtE,
    "is": ast.Is,
    "is_not": ast.IsNot,
    "is not": ast.IsNot,
    "in": ast.In,
    "not_in": ast.NotIn,
    "not in": ast.NotIn,
}


class Lowerer:
    def __init__(self, filename):
        self.filename = filename

    # -- helpers -----------------------------------------------------------
    def loc(self, new, node):
        pos = getattr(node, "pos", None)
        if pos:
            new.lineno = pos[1]
            new.col_offset = pos[2]
        else:
            new.lineno = 0
            new.col_offset = 0
        new.end_lineno = new.lineno
        new.end_col_offset = new.col_offset
        return new

    def fail(self, node):
        pos = getattr(node, "pos", None)
        where = "%s:%s" % (self.filename, pos[1] if pos else "?")
        raise LoweringError("unknown Cython node %s at %s" % (type(node).__name__, where))

    # -- types ---------------------------------------------------------------
    def typestr(self, base, declarator=None):
        k = type(base).__name__
        if k == "CSimpleBaseTypeNode":
            s = ".".join(list(base.module_path) + [base.name or ""])
            if getattr(base, "signed", 1) == 0:
                s = "unsigned " + s
            if getattr(base, "longness", 0) == 1:
                s = "long " + s if s != "int" else "long"
            elif getattr(base, "longness", 0) == 2:
                s = "long long"
        elif k == "TemplatedTypeNode":
            args = ", ".join(self.typestr(a) if type(a).__name__.startswith(("C", "Templated")) else ast.unparse(self.expr(a)) for a in base.positional_args)
            s = "%s[%s]" % (self.typestr(base.base_type_node), args)
        elif k == "CNestedBaseTypeNode":
            s = "%s.%s" % (self.typestr(base.base_type), base.name)
        elif k == "CQualifierTypeNode":
            s = ("const " if base.is_const else "") + self.typestr(base.base_type)
        elif k == "CComplexBaseTypeNode":
            s = self.typestr(base.base_type, base.declarator)
        elif k == "MemoryViewSliceTypeNode":
            s = self.typestr(base.base_type_node) + "[:]"
        else:
            self.fail(base)
        d = declarator
        while d is not None:
            dk = type(d).__name__
            if dk == "CPtrDeclaratorNode":
                s += "*"
                d = d.base
            elif dk == "CReferenceDeclaratorNode":
                s += "&"
                d = d.base
            elif dk in ("CNameDeclaratorNode",):
                break
            elif dk == "CFuncDeclaratorNode":
                d = d.base
            else:
                self.fail(d)
        return s

    def decl_name(self, d):
        while True:
            dk = type(d).__name__
            if dk == "CNameDeclaratorNode":
                return str(d.name), d
            if dk in ("CPtrDeclaratorNode", "CReferenceDeclaratorNode", "CFuncDeclaratorNode"):
                d = d.base
                continue
            self.fail(d)

    def func_declarator(self, d):
        while d is not None:
            if type(d).__name__ == "CFuncDeclaratorNode":
                return d
            d = getattr(d, "base", None)
        return None

    def cargs(self, arglist, star=None, starstar=None, nkwonly=0):
        args, defaults = [], []
        kwonly, kw_defaults = [], []
        for a in arglist:
            name, nd = self.decl_name(a.declarator)
            if name == "":
                # untyped argument: Cython parses the name as the base type
                name = str(a.base_type.name)
                ann = None
            else:
                ts = self.typestr(a.base_type, a.declarator)
                ann = self.loc(ast.Constant(ts), a) if ts else None
            if getattr(a, "annotation", None) is not None and ann is None:
                try:
                    ann = self.expr(a.annotation.expr if hasattr(a.annotation, "expr") else a.annotation)
                except LoweringError:
                    ann = None
            arg = self.loc(ast.arg(arg=name, annotation=ann), a)
            if getattr(a, "kw_only", False):
                kwonly.append(arg)
                kw_defaults.append(self.expr(a.default) if a.default is not None else None)
            else:
                args.append(arg)
                if a.default is not None:
                    defaults.append(self.expr(a.default))
        return ast.arguments(
            posonlyargs=[],
            args=args,
            vararg=self.loc(ast.arg(arg=str(star.name), annotation=None), star) if star is not None else None,
            kwonlyargs=kwonly,
            kw_defaults=kw_defaults,
            kwarg=self.loc(ast.arg(arg=str(starstar.name), annotation=None), starstar) if starstar is not None else None,
            defaults=defaults,
        )

    # -- statements ------------------------------------------------------------
    def body(self, node):
        if node is None:
            return []
        out = []
        if type(node).__name__ == "StatListNode":
            for s in node.stats:
                out.extend(self.body(s))
        else:
            out.extend(self.stmt(node))
        return out

    def nonempty(self, stmts, at):
        return stmts if stmts else [self.loc(ast.Pass(), at)]

    def stmt(self, n):
        k = type(n).__name__
        m = getattr(self, "s_" + k, None)
        if m is None:
            self.fail(n)
        r = m(n)
        if r is None:
            return []
        if isinstance(r, list):
            return r
        return [r]

    def s_StatListNode(self, n):
        return self.body(n)

    def s_ModuleNode(self, n):
        return self.body(n.body)

    def s_PassStatNode(self, n):
        return self.loc(ast.Pass(), n)

    def s_ExprStatNode(self, n):
        return self.loc(ast.Expr(self.expr(n.expr)), n)

    def s_SingleAssignmentNode(self, n):
        if type(n.rhs).__name__ == "ImportNode":
            modname = str(n.rhs.module_name.value)
            asname = str(n.lhs.name)
            top = modname.split(".")[0]
            alias = ast.alias(name=modname, asname=None if asname == top and not n.rhs.is_import_as_name else asname)
            return self.loc(ast.Import(names=[alias]), n)
        return self.loc(ast.Assign(targets=[self.expr(n.lhs, ast.Store)], value=self.expr(n.rhs)), n)

    def s_CascadedAssignmentNode(self, n):
        return self.loc(ast.Assign(targets=[self.expr(t, ast.Store) for t in n.lhs_list], value=self.expr(n.rhs)), n)

    def s_ParallelAssignmentNode(self, n):
        out = []
        for s in n.stats:
            out.extend(self.stmt(s))
        return out

    def s_InPlaceAssignmentNode(self, n):
        return self.loc(ast.AugAssign(target=self.expr(n.lhs, ast.Store), op=_BINOPS[n.operator](), value=self.expr(n.rhs)), n)

    def s_FromImportStatNode(self, n):
        imp = n.module
        names = [ast.alias(name=str(name), asname=(str(target.name) if str(target.name) != str(name) else None)) for name, target in n.items]
        return self.loc(ast.ImportFrom(module=str(imp.module_name.value) or None, names=names, level=max(imp.level, 0)), n)

    def s_FromCImportStatNode(self, n):
        names = []
        for item in n.imported_names:
            # (pos, name, as_name) in Cython 3
            name = item[1]
            asname = item[2] if len(item) > 2 else None
            names.append(ast.alias(name=str(name), asname=str(asname) if asname else None))
        r = self.loc(ast.ImportFrom(module=str(n.module_name) or None, names=names, level=max(n.relative_level or 0, 0)), n)
        r.cimport = True
        return r

    def s_CImportStatNode(self, n):
        r = self.loc(ast.Import(names=[ast.alias(name=str(n.module_name), asname=str(n.as_name) if n.as_name else None)]), n)
        r.cimport = True
        return r

    def s_DefNode(self, n):
        f = ast.FunctionDef(
            name=str(n.name),
            args=self.cargs(n.args, n.star_arg, n.starstar_arg),
            body=self.nonempty(self.body(n.body), n),
            decorator_list=[self.expr(d.decorator) for d in (n.decorators or [])],
            returns=None,
            type_comment=None,
        )
        f.type_params = []
        f.c_level = False
        f.doc = str(n.doc) if n.doc else None
        return self.loc(f, n)

    def s_CFuncDefNode(self, n):
        name, _ = self.decl_name(n.declarator)
        fd = self.func_declarator(n.declarator)
        f = ast.FunctionDef(
            name=name,
            args=self.cargs(fd.args),
            body=self.nonempty(self.body(n.body), n),
            decorator_list=[],
            returns=self.loc(ast.Constant(self.typestr(n.base_type, n.declarator)), n),
            type_comment=None,
        )
        f.type_params = []
        f.c_level = True
        f.overridable = bool(n.overridable)
        return self.loc(f, n)

    def s_CVarDefNode(self, n):
        out = []
        for d in n.declarators:
            fd = self.func_declarator(d)
            name, nd = self.decl_name(d)
            if fd is not None:
                f = ast.FunctionDef(
                    name=name,
                    args=self.cargs(fd.args),
                    body=[self.loc(ast.Pass(), n)],
                    decorator_list=[],
                    returns=self.loc(ast.Constant(self.typestr(n.base_type, d)), n),
                    type_comment=None,
                )
                f.type_params = []
                f.c_level = True
                f.c_decl = True
                out.append(self.loc(f, n))
                continue
            ann = self.loc(ast.Constant(self.typestr(n.base_type, d)), n)
            tgt = self.loc(ast.Name(id=name, ctx=ast.Store()), n)
            val = self.expr(nd.default) if nd.default is not None else None
            a = self.loc(ast.AnnAssign(target=tgt, annotation=ann, value=val, simple=1), n)
            a.c_level = True
            out.append(a)
        return out

    def _classdef(self, name, bases, body, n):
        c = ast.ClassDef(name=name, bases=bases, keywords=[], body=self.nonempty(body, n), decorator_list=[])
        c.type_params = []
        return self.loc(c, n)

    def s_CClassDefNode(self, n):
        bases = [self.expr(b) for b in (n.bases.args if n.bases is not None else [])]
        c = self._classdef(str(n.class_name), bases, self.body(n.body), n)
        c.c_level = True
        return c

    def s_PyClassDefNode(self, n):
        bases = [self.expr(b) for b in (n.bases.args if getattr(n, "bases", None) is not None else [])]
        return self._classdef(str(n.name), bases, self.body(n.body), n)

    def s_CppClassNode(self, n):
        body = []
        for a in n.attributes or []:
            body.extend(self.stmt(a))
        c = self._classdef(str(n.name), [], body, n)
        c.cpp_class = True
        return c

    def s_PropertyNode(self, n):
        c = self._classdef(str(n.name), [], self.body(n.body), n)
        c.is_property = True
        return c

    def s_CDefExternNode(self, n):
        return self.body(n.body)

    def s_CTypeDefNode(self, n):
        name, _ = self.decl_name(n.declarator)
        a = self.loc(
            ast.AnnAssign(
                target=self.loc(ast.Name(id=name, ctx=ast.Store()), n),
                annotation=self.loc(ast.Constant("ctypedef " + self.typestr(n.base_type, n.declarator)), n),
                value=None,
                simple=1,
            ),
            n,
        )
        a.c_level = True
        return a

    def s_IfStatNode(self, n):
        clauses = list(n.if_clauses)
        orelse = self.body(n.else_clause)
        for c in reversed(clauses):
            node = self.loc(ast.If(test=self.expr(c.condition), body=self.nonempty(self.body(c.body), c), orelse=orelse), c)
            orelse = [node]
        return orelse

    def s_WhileStatNode(self, n):
        return self.loc(ast.While(test=self.expr(n.condition), body=self.nonempty(self.body(n.body), n), orelse=self.body(n.else_clause)), n)

    def s_ForInStatNode(self, n):
        it = n.iterator
        seq = it.sequence if type(it).__name__ == "IteratorNode" else it
        f = ast.For(
            target=self.expr(n.target, ast.Store),
            iter=self.expr(seq),
            body=self.nonempty(self.body(n.body), n),
            orelse=self.body(n.else_clause),
            type_comment=None,
        )
        return self.loc(f, n)

    def s_ReturnStatNode(self, n):
        return self.loc(ast.Return(value=self.expr(n.value) if n.value is not None else None), n)

    def s_RaiseStatNode(self, n):
        exc = None
        if n.exc_type is not None:
            exc = self.expr(n.exc_type)
            if n.exc_value is not None:
                exc = self.loc(ast.Call(func=exc, args=[self.expr(n.exc_value)], keywords=[]), n)
        return self.loc(ast.Raise(exc=exc, cause=self.expr(n.cause) if n.cause is not None else None), n)

    def s_ReraiseStatNode(self, n):
        return self.loc(ast.Raise(exc=None, cause=None), n)

    def s_AssertStatNode(self, n):
        cond = getattr(n, "condition", None)
        msg = getattr(n, "value", None)
        if cond is None and getattr(n, "exception", None) is not None:
            self.fail(n)
        return self.loc(ast.Assert(test=self.expr(cond), msg=self.expr(msg) if msg is not None else None), n)

    def s_BreakStatNode(self, n):
        return self.loc(ast.Break(), n)

    def s_ContinueStatNode(self, n):
        return self.loc(ast.Continue(), n)

    def s_DelStatNode(self, n):
        return self.loc(ast.Delete(targets=[self.expr(a, ast.Del) for a in n.args]), n)

    def s_TryExceptStatNode(self, n):
        handlers = []
        for c in n.except_clauses:
            pat = c.pattern
            typ = None
            if pat:
                if isinstance(pat, list):
                    typ = self.expr(pat[0]) if len(pat) == 1 else self.loc(ast.Tuple(elts=[self.expr(p) for p in pat], ctx=ast.Load()), c)
                else:
                    typ = self.expr(pat)
            name = str(c.target.name) if c.target is not None else None
            handlers.append(self.loc(ast.ExceptHandler(type=typ, name=name, body=self.nonempty(self.body(c.body), c)), c))
        return self.loc(ast.Try(body=self.nonempty(self.body(n.body), n), handlers=handlers, orelse=self.body(n.else_clause), finalbody=[]), n)

    def s_TryFinallyStatNode(self, n):
        return self.loc(ast.Try(body=self.nonempty(self.body(n.body), n), handlers=[], orelse=[], finalbody=self.body(n.finally_clause)), n)

    def s_GILStatNode(self, n):
        item = ast.withitem(context_expr=self.loc(ast.Name(id=str(n.state), ctx=ast.Load()), n), optional_vars=None)
        return self.loc(ast.With(items=[item], body=self.nonempty(self.body(n.body), n), type_comment=None), n)

    def s_WithStatNode(self, n):
        item = ast.withitem(context_expr=self.expr(n.manager), optional_vars=self.expr(n.target, ast.Store) if n.target is not None else None)
        return self.loc(ast.With(items=[item], body=self.nonempty(self.body(n.body), n), type_comment=None), n)

    def s_GlobalNode(self, n):
        return self.loc(ast.Global(names=[str(x) for x in n.names]), n)

    # -- expressions -------------------------------------------------------------
    def expr(self, n, ctx=ast.Load):
        k = type(n).__name__
        m = getattr(self, "e_" + k, None)
        if m is None:
            if k.endswith("Node") and hasattr(n, "operator") and hasattr(n, "operand1") and n.operator in _BINOPS and k not in ("PrimaryCmpNode", "BoolBinopNode"):
                return self.loc(ast.BinOp(left=self.expr(n.operand1), op=_BINOPS[n.operator](), right=self.expr(n.operand2)), n)
            self.fail(n)
        return m(n, ctx)

    def e_NameNode(self, n, ctx):
        return self.loc(ast.Name(id=str(n.name), ctx=ctx()), n)

    def e_AttributeNode(self, n, ctx):
        return self.loc(ast.Attribute(value=self.expr(n.obj), attr=str(n.attribute), ctx=ctx()), n)

    def e_IndexNode(self, n, ctx):
        return self.loc(ast.Subscript(value=self.expr(n.base), slice=self.expr(n.index), ctx=ctx()), n)

    def e_SliceNode(self, n, ctx):
        def opt(x):
            return None if x is None or type(x).__name__ == "NoneNode" else self.expr(x)

        return self.loc(ast.Slice(lower=opt(n.start), upper=opt(n.stop), step=opt(n.step)), n)

    def e_SliceIndexNode(self, n, ctx):
        sl = self.loc(ast.Slice(lower=self.expr(n.start) if n.start is not None else None, upper=self.expr(n.stop) if n.stop is not None else None, step=None), n)
        return self.loc(ast.Subscript(value=self.expr(n.base), slice=sl, ctx=ctx()), n)

    def e_SimpleCallNode(self, n, ctx):
        return self.loc(ast.Call(func=self.expr(n.function), args=[self.expr(a) for a in n.args], keywords=[]), n)

    def e_GeneralCallNode(self, n, ctx):
        args = []
        pa = n.positional_args
        if type(pa).__name__ == "TupleNode":
            args = [self.expr(a) for a in pa.args]
        elif type(pa).__name__ == "AsTupleNode":
            args = [self.loc(ast.Starred(value=self.expr(pa.arg), ctx=ast.Load()), pa)]
        else:
            self.fail(pa)
        kws = []
        ka = n.keyword_args
        if ka is not None:
            if type(ka).__name__ == "DictNode":
                for item in ka.key_value_pairs:
                    kws.append(ast.keyword(arg=str(item.key.value), value=self.expr(item.value)))
            else:
                kws.append(ast.keyword(arg=None, value=self.expr(ka)))
        return self.loc(ast.Call(func=self.expr(n.function), args=args, keywords=kws), n)

    def e_BoolBinopNode(self, n, ctx):
        op = ast.And() if n.operator == "and" else ast.Or()
        l, r = self.expr(n.operand1), self.expr(n.operand2)
        vals = []
        for v in (l, r):
            if isinstance(v, ast.BoolOp) and type(v.op) is type(op) and v is l:
                vals.extend(v.values)
            else:
                vals.append(v)
        return self.loc(ast.BoolOp(op=op, values=vals), n)

    def e_NotNode(self, n, ctx):
        return self.loc(ast.UnaryOp(op=ast.Not(), operand=self.expr(n.operand)), n)

    def e_UnaryMinusNode(self, n, ctx):
        return self.loc(ast.UnaryOp(op=ast.USub(), operand=self.expr(n.operand)), n)

    def e_UnaryPlusNode(self, n, ctx):
        return self.loc(ast.UnaryOp(op=ast.UAdd(), operand=self.expr(n.operand)), n)

    def e_TildeNode(self, n, ctx):
        return self.loc(ast.UnaryOp(op=ast.Invert(), operand=self.expr(n.operand)), n)

    def e_PrimaryCmpNode(self, n, ctx):
        ops = [_CMPOPS[n.operator]()]
        comps = [self.expr(n.operand2)]
        c = n.cascade
        while c is not None:
            ops.append(_CMPOPS[c.operator]())
            comps.append(self.expr(c.operand2))
            c = c.cascade
        return self.loc(ast.Compare(left=self.expr(n.operand1), ops=ops, comparators=comps), n)

    def e_CondExprNode(self, n, ctx):
        return self.loc(ast.IfExp(test=self.expr(n.condition), body=self.expr(n.true_val), orelse=self.expr(n.false_val)), n)

    def e_IntNode(self, n, ctx):
        try:
            v = int(n.value, 0)
        except ValueError:
            v = int(n.value.rstrip("uUlL"), 0)
        return self.loc(ast.Constant(v), n)

    def e_FloatNode(self, n, ctx):
        return self.loc(ast.Constant(float(n.value)), n)

    def e_BoolNode(self, n, ctx):
        return self.loc(ast.Constant(bool(n.value)), n)

    def e_NoneNode(self, n, ctx):
        return self.loc(ast.Constant(None), n)

    def e_NullNode(self, n, ctx):
        return self.loc(ast.Name(id="NULL", ctx=ast.Load()), n)

    def e_UnicodeNode(self, n, ctx):
        return self.loc(ast.Constant(str(n.value)), n)

    def e_StringNode(self, n, ctx):
        return self.loc(ast.Constant(str(n.value)), n)

    def e_IdentifierStringNode(self, n, ctx):
        return self.loc(ast.Constant(str(n.value)), n)

    def e_BytesNode(self, n, ctx):
        return self.loc(ast.Constant(bytes(n.value, "latin-1") if isinstance(n.value, str) else bytes(n.value)), n)

    def e_TupleNode(self, n, ctx):
        return self.loc(ast.Tuple(elts=[self.expr(a, ctx) for a in n.args], ctx=ctx()), n)

    def e_ListNode(self, n, ctx):
        lst = self.loc(ast.List(elts=[self.expr(a, ctx) for a in n.args], ctx=ctx()), n)
        if getattr(n, "mult_factor", None) is not None:
            return self.loc(ast.BinOp(left=lst, op=ast.Mult(), right=self.expr(n.mult_factor)), n)
        return lst

    def e_SetNode(self, n, ctx):
        return self.loc(ast.Set(elts=[self.expr(a) for a in n.args]), n)

    def e_DictNode(self, n, ctx):
        return self.loc(ast.Dict(keys=[self.expr(i.key) for i in n.key_value_pairs], values=[self.expr(i.value) for i in n.key_value_pairs]), n)

    def e_YieldExprNode(self, n, ctx):
        return self.loc(ast.Yield(value=self.expr(n.arg) if n.arg is not None else None), n)

    def e_NewExprNode(self, n, ctx):
        return self.loc(ast.Name(id="new " + self.typestr(n.cppclass), ctx=ast.Load()), n)

    def e_TypecastNode(self, n, ctx):
        t = self.loc(ast.Constant(self.typestr(n.base_type, n.declarator)), n)
        return self.loc(ast.Call(func=self.loc(ast.Name(id="cast", ctx=ast.Load()), n), args=[t, self.expr(n.operand)], keywords=[]), n)

    def e_SizeofTypeNode(self, n, ctx):
        t = self.loc(ast.Constant(self.typestr(n.base_type, n.declarator)), n)
        return self.loc(ast.Call(func=self.loc(ast.Name(id="sizeof", ctx=ast.Load()), n), args=[t], keywords=[]), n)

    def e_SizeofVarNode(self, n, ctx):
        return self.loc(ast.Call(func=self.loc(ast.Name(id="sizeof", ctx=ast.Load()), n), args=[self.expr(n.operand)], keywords=[]), n)

    def e_AmpersandNode(self, n, ctx):
        return self.loc(ast.Call(func=self.loc(ast.Name(id="addressof", ctx=ast.Load()), n), args=[self.expr(n.operand)], keywords=[]), n)

    def e_JoinedStrNode(self, n, ctx):
        vals = []
        for v in n.values:
            if type(v).__name__ == "FormattedValueNode":
                vals.append(self.loc(ast.FormattedValue(value=self.expr(v.value), conversion=-1, format_spec=None), v))
            else:
                vals.append(self.expr(v))
        return self.loc(ast.JoinedStr(values=vals), n)

    def e_FormattedValueNode(self, n, ctx):
        return self.loc(ast.FormattedValue(value=self.expr(n.value), conversion=-1, format_spec=None), n)

    # comprehensions: Cython stores a loop nest ending in an append node
    def _comp_parts(self, loop):
        gens = []
        node = loop
        while True:
            k = type(node).__name__
            if k == "StatListNode":
                if len(node.stats) != 1:
                    self.fail(node)
                node = node.stats[0]
                continue
            if k == "ForInStatNode":
                it = node.iterator
                seq = it.sequence if type(it).__name__ == "IteratorNode" else it
                gens.append(ast.comprehension(target=self.expr(node.target, ast.Store), iter=self.expr(seq), ifs=[], is_async=0))
                node = node.body
                continue
            if k == "IfStatNode":
                if len(node.if_clauses) != 1 or node.else_clause is not None or not gens:
                    self.fail(node)
                gens[-1].ifs.append(self.expr(node.if_clauses[0].condition))
                node = node.if_clauses[0].body
                continue
            if k == "ExprStatNode":
                return gens, node.expr
            if k in ("ComprehensionAppendNode", "DictComprehensionAppendNode"):
                return gens, node
            self.fail(node)

    def e_ComprehensionNode(self, n, ctx):
        gens, app = self._comp_parts(n.loop)
        ak = type(app).__name__
        tname = getattr(n.type, "name", None) or str(n.type)
        if ak == "DictComprehensionAppendNode":
            return self.loc(ast.DictComp(key=self.expr(app.dict_item.key), value=self.expr(app.dict_item.value), generators=gens), n)
        if ak == "ComprehensionAppendNode":
            if "set" in str(tname):
                return self.loc(ast.SetComp(elt=self.expr(app.expr), generators=gens), n)
            return self.loc(ast.ListComp(elt=self.expr(app.expr), generators=gens), n)
        self.fail(app)

    def e_GeneratorExpressionNode(self, n, ctx):
        gens, y = self._comp_parts(n.loop)
        if type(y).__name__ != "YieldExprNode":
            self.fail(y)
        return self.loc(ast.GeneratorExp(elt=self.expr(y.arg), generators=gens), n)


def lower_file(path, modname=None):
    """Parse a .pyx/.pxd file and return an ``ast.Module``."""
    if modname is None:
        modname = os.path.splitext(os.path.basename(path))[0]
    tree = parse_cython(path, modname)
    lw = Lowerer(path)
    mod = ast.Module(body=lw.s_ModuleNode(tree), type_ignores=[])
    mod.lowered_from = path
    return mod
