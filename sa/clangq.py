"""Small query layer over clang's type-resolved JSON AST (one filtered dump per class/function).

``dump(prog, "src/readset.cpp", "read_comparator_t")`` runs
``clang++ <flags from setup.py> -fsyntax-only -Xclang -ast-dump=json -Xclang -ast-dump-filter=<name>``
on the *current* source and returns the list of top-level JSON objects.  The unfiltered dump
(190 MB) is never produced.
"""
import json
import os
import subprocess
import hashlib

from .model import AnalysisError

FLAGS = ["-std=c++11", "-fsyntax-only", "-w"]


def dump(prog, relpath, name, extra_includes=()):
    path = prog.real(relpath)
    if not os.path.exists(path):
        raise AnalysisError("anchor vanished: %s" % relpath)
    # the overlay directory (if any) shadows headers as well
    incs = []
    if prog.overlay:
        incs += ["-I", os.path.join(prog.overlay, "src"), "-I", os.path.join(prog.overlay, os.path.dirname(relpath))]
    incs += ["-I", os.path.join(prog.root, "src"), "-I", os.path.join(prog.root, os.path.dirname(relpath))]
    tmpdir = None
    if prog.overlay:
        # `#include "x.h"` looks in the including file's directory first; compile a private copy of the
        # translation unit so that overlay headers (searched via -I, overlay first) win over /repo's
        import shutil
        import tempfile

        tmpdir = tempfile.mkdtemp(prefix="verif_clang_")
        private = os.path.join(tmpdir, os.path.basename(relpath))
        shutil.copyfile(path, private)
        path = private
    cmd = ["clang++"] + FLAGS + incs + ["-Xclang", "-ast-dump=json", "-Xclang", "-ast-dump-filter=%s" % name, path]
    try:
        r = subprocess.run(cmd, stdout=subprocess.PIPE, stderr=subprocess.PIPE, timeout=120)
    except (OSError, subprocess.TimeoutExpired) as e:
        raise AnalysisError("clang++ failed on %s: %s" % (relpath, e))
    finally:
        if tmpdir:
            import shutil

            shutil.rmtree(tmpdir, ignore_errors=True)
    if r.returncode != 0:
        raise AnalysisError("clang++ cannot parse %s: %s" % (relpath, r.stderr.decode(errors="replace")[:400]))
    txt = r.stdout.decode(errors="replace")
    objs = []
    dec = json.JSONDecoder()
    i = 0
    n = len(txt)
    while i < n:
        while i < n and txt[i] in " \r\n\t":
            i += 1
        if i >= n:
            break
        try:
            obj, j = dec.raw_decode(txt, i)
        except ValueError as e:
            raise AnalysisError("cannot decode clang JSON for %s/%s: %s" % (relpath, name, e))
        objs.append(obj)
        i = j
    if not objs:
        raise AnalysisError("anchor vanished: no declaration named %s in %s" % (name, relpath))
    return objs


def walk(node):
    stack = [node]
    while stack:
        n = stack.pop()
        if not isinstance(n, dict):
            continue
        yield n
        for c in reversed(n.get("inner", []) or []):
            stack.append(c)


def find(node, kind=None, name=None):
    return [n for n in walk(node) if (kind is None or n.get("kind") == kind) and (name is None or n.get("name") == name)]


def qual(n):
    t = n.get("type") or {}
    return t.get("qualType", "")


def is_pointer_type(qt):
    qt = qt.strip()
    return qt.endswith("*") or qt.endswith("* const") or "(*)" in qt


def strip_casts(n):
    while isinstance(n, dict) and n.get("kind") in ("ImplicitCastExpr", "ParenExpr", "ExprWithCleanups", "MaterializeTemporaryExpr", "CXXBindTemporaryExpr", "CXXFunctionalCastExpr", "CStyleCastExpr", "CXXStaticCastExpr", "ConstantExpr") and n.get("inner"):
        n = n["inner"][0]
    return n


def callee_name(call):
    """Name of the function / method a CallExpr or CXXMemberCallExpr invokes."""
    if not call.get("inner"):
        return None
    f = strip_casts(call["inner"][0])
    if f.get("kind") == "MemberExpr":
        return f.get("name")
    if f.get("kind") == "DeclRefExpr":
        return (f.get("referencedDecl") or {}).get("name")
    return None


def line_of(n, default=0):
    loc = n.get("loc") or {}
    if "line" in loc:
        return loc["line"]
    rng = (n.get("range") or {}).get("begin") or {}
    if "line" in rng:
        return rng["line"]
    for k in ("spellingLoc", "expansionLoc"):
        if k in loc and "line" in loc[k]:
            return loc[k]["line"]
        if k in rng and "line" in rng[k]:
            return rng[k]["line"]
    return default


def int_value(n):
    """Evaluate an integer constant expression built from literals and + - * << >> (else None)."""
    n = strip_casts(n)
    k = n.get("kind")
    if k == "IntegerLiteral":
        try:
            return int(n.get("value"))
        except (TypeError, ValueError):
            return None
    if k == "BinaryOperator":
        a, b = int_value(n["inner"][0]), int_value(n["inner"][1])
        if a is None or b is None:
            return None
        op = n.get("opcode")
        return {"+": a + b, "-": a - b, "*": a * b, "<<": a << b, ">>": a >> b}.get(op)
    if k == "UnaryOperator" and n.get("opcode") == "-":
        a = int_value(n["inner"][0])
        return -a if a is not None else None
    return None


def local_inits(fn):
    """{name: init expression} of the local variables of a function that are initialised at their declaration and
    never assigned again (no `=`, compound assignment, ++/-- on them): they are names for their initialiser."""
    inits, dirty = {}, set()
    for v in find(fn, "VarDecl"):
        if v.get("inner") and v.get("name"):
            init = [x for x in v["inner"] if x.get("kind") not in ("FullComment", "ParagraphComment", "TextComment")]
            if init:
                inits[v["name"]] = init[-1]
    for n in walk(fn):
        k = n.get("kind")
        if k in ("BinaryOperator", "CompoundAssignOperator") and (k == "CompoundAssignOperator" or n.get("opcode") == "=") and n.get("inner"):
            lhs = strip_casts(n["inner"][0])
            if lhs.get("kind") == "DeclRefExpr":
                dirty.add((lhs.get("referencedDecl") or {}).get("name"))
        elif k == "UnaryOperator" and n.get("opcode") in ("++", "--") and n.get("inner"):
            x = strip_casts(n["inner"][0])
            if x.get("kind") == "DeclRefExpr":
                dirty.add((x.get("referencedDecl") or {}).get("name"))
        elif k == "CXXOperatorCallExpr" and n.get("inner") and expr_text(n["inner"][0]) in ("operator=", "operator+=", "operator-="):
            x = strip_casts(n["inner"][1]) if len(n["inner"]) > 1 else {}
            if x.get("kind") == "DeclRefExpr":
                dirty.add((x.get("referencedDecl") or {}).get("name"))
    return {k: v for k, v in inits.items() if k not in dirty}


def split_index_chain(text):
    """'a[b[c]][d]' -> ('a', ['b[c]', 'd']) (bracket-depth aware)."""
    idx = []
    t = text
    while t.endswith("]"):
        depth = 0
        for i in range(len(t) - 1, -1, -1):
            if t[i] == "]":
                depth += 1
            elif t[i] == "[":
                depth -= 1
                if depth == 0:
                    idx.insert(0, t[i + 1 : -1])
                    t = t[:i]
                    break
        else:
            break
    return t, idx


def expr_text(n, env=None, _depth=0):
    """Compact textual rendering of an expression subtree (for reports and structural comparison).
    With ``env`` (from local_inits) references to single-assignment locals are replaced by their initialisers."""
    n = strip_casts(n)
    k = n.get("kind")
    inner = n.get("inner", []) or []
    if env and k == "DeclRefExpr" and _depth < 12:
        nm = (n.get("referencedDecl") or {}).get("name")
        if nm in env:
            return "(" + expr_text(env[nm], env, _depth + 1) + ")"
    if env is not None:
        _et = lambda x: expr_text(x, env, _depth)
    else:
        _et = expr_text
    return _expr_text(n, k, inner, _et)


def _expr_text(n, k, inner, expr_text):
    if k == "IntegerLiteral":
        return str(n.get("value"))
    if k == "DeclRefExpr":
        return (n.get("referencedDecl") or {}).get("name", "?")
    if k == "MemberExpr":
        base = expr_text(inner[0]) if inner else "this"
        return "%s%s%s" % (base, "->" if n.get("isArrow") else ".", n.get("name"))
    if k == "CXXThisExpr":
        return "this"
    if k in ("BinaryOperator", "CompoundAssignOperator"):
        return "(%s %s %s)" % (expr_text(inner[0]), n.get("opcode"), expr_text(inner[1]))
    if k == "UnaryOperator":
        return "%s%s" % (n.get("opcode"), expr_text(inner[0])) if not n.get("isPostfix") else "%s%s" % (expr_text(inner[0]), n.get("opcode"))
    if k in ("CallExpr", "CXXMemberCallExpr"):
        return "%s(%s)" % (expr_text(inner[0]), ", ".join(expr_text(a) for a in inner[1:]))
    if k == "CXXOperatorCallExpr":
        op = expr_text(inner[0])
        args = [expr_text(a) for a in inner[1:]]
        if op == "operator[]" and len(args) == 2:
            return "%s[%s]" % (args[0], args[1])
        return "%s(%s)" % (op, ", ".join(args))
    if k == "ArraySubscriptExpr":
        return "%s[%s]" % (expr_text(inner[0]), expr_text(inner[1]))
    if k == "InitListExpr":
        return "{%s}" % ", ".join(expr_text(a) for a in inner)
    if k in ("CXXConstructExpr", "CXXTemporaryObjectExpr"):
        return "%s(%s)" % (qual(n).split("<")[0], ", ".join(expr_text(a) for a in inner))
    if k == "CXXBoolLiteralExpr":
        return "true" if n.get("value") else "false"
    if k == "ConditionalOperator":
        return "(%s ? %s : %s)" % tuple(expr_text(a) for a in inner[:3])
    if inner:
        return "%s(%s)" % (k, ", ".join(expr_text(a) for a in inner))
    return k or "?"
