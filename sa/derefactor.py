"""De-refactoring normalisation: undo behaviour-preserving restructurings before the rules run.

The rules of /verif/rules describe whatshap's functions as they are at the reference commit
(`reference/names.json`: every function with its statement fingerprints and local names).  A maintainer's
clean-up commit that (a) extracts a few statements into a *new* helper, (b) introduces a *new* temporary for a
sub-expression, or (c) folds repeated statements into a *new* loop over a literal tuple (with getattr/setattr)
changes no behaviour, and must not change any verdict.  This pass rewrites the in-memory AST of every analysed
function back towards the reference shape:

1. **helper inlining** -- a call to a function that does not exist in the reference (a new helper) is replaced
   by the helper's body when the helper is simple: no generators, no recursion, returns only in tail position
   (guard-clause returns are turned into if/else), parameters bound to the arguments.  A helper whose body is
   one `return <expr>` is also inlined inside expressions.  Helpers inlined at every call site are removed
   from the function table ("absorbed").
2. **temporary propagation** -- a local that does not exist in the function's reference entry, is bound exactly
   once by a plain assignment, and whose defining expression mentions no name that is re-bound later in the
   function, is replaced by its defining expression at every use (copy propagation).
3. **constant-loop unrolling** -- a `for` statement that does not exist in the reference and iterates a literal
   tuple/list of constants (or a module-level name bound to one) with a short body without break/continue is
   unrolled; `getattr(o, "c")` / `setattr(o, "c", v)` with constant names become attribute accesses;
   `x = x + y` produced this way becomes `x += y`.

The pass is the identity on the reference tree (nothing is new there).  It is a normalisation, not a rule:
it only removes differences of the three kinds above; evaluation-count and evaluation-time differences of the
propagated expressions are ignored (they are assumed free of side effects, as a reviewer of such a clean-up
commit would require).
"""
import ast
import copy

from .model import walk_function, set_parents

MAX_HELPER_STMTS = 45
MAX_ROUNDS = 4


# ------------------------------------------------------------------------------------------------ helpers
def _clone(node):
    if isinstance(node, ast.AST):
        new = type(node)()
        for f in node._fields:
            if hasattr(node, f):
                setattr(new, f, _clone(getattr(node, f)))
        for a in ("lineno", "col_offset", "end_lineno", "end_col_offset"):
            if hasattr(node, a):
                setattr(new, a, getattr(node, a))
        return new
    if isinstance(node, list):
        return [_clone(x) for x in node]
    return node


def _relocate(nodes, at):
    """Give every node the position of the call site (reports then point at the caller's line)."""
    for top in nodes if isinstance(nodes, list) else [nodes]:
        for n in ast.walk(top):
            if isinstance(n, (ast.stmt, ast.expr, ast.ExceptHandler, ast.arg, ast.keyword, ast.comprehension)):
                for a in ("lineno", "col_offset", "end_lineno", "end_col_offset"):
                    if hasattr(at, a):
                        try:
                            setattr(n, a, getattr(at, a))
                        except AttributeError:
                            pass


def _body_wo_doc(fnode):
    body = list(fnode.body)
    if body and isinstance(body[0], ast.Expr) and isinstance(body[0].value, ast.Constant) and isinstance(body[0].value.value, str):
        body = body[1:]
    return body


def _contains(stmts, types):
    for s in stmts:
        for n in ast.walk(s):
            if isinstance(n, types):
                return True
    return False


def _contains_return(stmts):
    for s in stmts:
        stack = [s]
        while stack:
            n = stack.pop()
            if isinstance(n, ast.Return):
                return True
            if isinstance(n, (ast.FunctionDef, ast.AsyncFunctionDef, ast.Lambda, ast.ClassDef)) and n is not s:
                continue
            stack.extend(ast.iter_child_nodes(n))
    return False


def _always_returns(stmts):
    if not stmts:
        return False
    last = stmts[-1]
    if isinstance(last, (ast.Return, ast.Raise)):
        return True
    if isinstance(last, ast.If):
        return _always_returns(last.body) and _always_returns(last.orelse)
    return False


def _names_bound(fnode):
    out = set()
    a = fnode.args
    for x in a.posonlyargs + a.args + a.kwonlyargs:
        out.add(x.arg)
    if a.vararg:
        out.add(a.vararg.arg)
    if a.kwarg:
        out.add(a.kwarg.arg)
    for n in ast.walk(fnode):
        if isinstance(n, ast.Name) and isinstance(n.ctx, (ast.Store, ast.Del)):
            out.add(n.id)
        elif isinstance(n, ast.ExceptHandler) and n.name:
            out.add(n.name)
    return out


def _names_used(node):
    return {n.id for n in ast.walk(node) if isinstance(n, ast.Name)}


class _Subst(ast.NodeTransformer):
    def __init__(self, mapping):
        self.mapping = mapping

    def visit_Name(self, node):
        if node.id in self.mapping and isinstance(node.ctx, ast.Load):
            return _clone(self.mapping[node.id])
        return node


class _Rename(ast.NodeTransformer):
    def __init__(self, mapping):
        self.mapping = mapping

    def visit_Name(self, node):
        if node.id in self.mapping:
            node.id = self.mapping[node.id]
        return node

    def visit_arg(self, node):
        if node.arg in self.mapping:
            node.arg = self.mapping[node.arg]
        return node

    def visit_ExceptHandler(self, node):
        if node.name in self.mapping:
            node.name = self.mapping[node.name]
        self.generic_visit(node)
        return node


def _simple_arg(e):
    """Expressions that may be substituted for a parameter at every use."""
    if isinstance(e, (ast.Name, ast.Constant)):
        return True
    if isinstance(e, ast.Attribute):
        return _simple_arg(e.value)
    if isinstance(e, ast.Subscript):
        return _simple_arg(e.value) and _simple_arg(e.slice)
    if isinstance(e, ast.UnaryOp) and isinstance(e.op, (ast.USub, ast.Not)):
        return _simple_arg(e.operand)
    if isinstance(e, (ast.Tuple, ast.List)):
        return all(_simple_arg(x) for x in e.elts)
    if isinstance(e, ast.Call) and isinstance(e.func, ast.Name) and e.func.id in ("len", "list", "set", "sorted", "tuple") and not e.keywords:
        return all(_simple_arg(x) for x in e.args)
    if isinstance(e, ast.BinOp):
        return _simple_arg(e.left) and _simple_arg(e.right)
    return False


# ------------------------------------------------------------------------------------------------ inlining
def _inlinable(ginfo):
    g = ginfo.node
    if g.args.vararg or g.args.kwarg:
        return False
    for d in g.decorator_list:
        if not (isinstance(d, ast.Name) and d.id in ("staticmethod", "classmethod")):
            return False
    body = _body_wo_doc(g)
    if not body or sum(1 for _ in ast.walk(g) if isinstance(_, ast.stmt)) > MAX_HELPER_STMTS:
        return False
    if _contains(body, (ast.Yield, ast.YieldFrom, ast.Await, ast.Global, ast.Nonlocal, ast.FunctionDef, ast.AsyncFunctionDef, ast.ClassDef)):
        return False
    for n in ast.walk(g):
        if isinstance(n, ast.Call) and isinstance(n.func, ast.Name) and n.func.id == g.name:
            return False
        if isinstance(n, ast.Call) and isinstance(n.func, ast.Attribute) and n.func.attr == g.name and isinstance(n.func.value, ast.Name) and n.func.value.id in ("self", "cls"):
            return False
    return True


def _convert_returns(stmts, make_assign):
    """Rewrite tail-position returns: `return E` -> make_assign(E) (or nothing); guard returns -> if/else.
    Returns the new statement list, or None when a return sits where this is not possible (inside a loop, try, with)."""
    out = []
    for i, s in enumerate(stmts):
        if isinstance(s, ast.Return):
            a = make_assign(s.value)
            if a is not None:
                out.append(a)
            return out
        if isinstance(s, ast.If) and _contains_return([s]):
            rest = stmts[i + 1 :]
            b_always, o_always = _always_returns(s.body), _always_returns(s.orelse)
            if b_always and o_always:
                nb, no = _convert_returns(s.body, make_assign), _convert_returns(s.orelse, make_assign)
            elif b_always and not _contains_return(s.orelse):
                nb, no = _convert_returns(s.body, make_assign), _convert_returns(list(s.orelse) + rest, make_assign)
            elif o_always and not _contains_return(s.body):
                nb, no = _convert_returns(list(s.body) + rest, make_assign), _convert_returns(s.orelse, make_assign)
            else:
                return None
            if nb is None or no is None:
                return None
            new = ast.If(test=s.test, body=nb or [ast.Pass()], orelse=no)
            ast.copy_location(new, s)
            out.append(new)
            return out
        if isinstance(s, ast.Try) and _contains_return([s]) and not _contains_return(s.finalbody):
            rest = stmts[i + 1 :]
            # every way through the try statement must end in a return / raise, or nothing may follow it
            parts_always = _always_returns(s.body) or (bool(s.orelse) and _always_returns(s.orelse))
            handlers_always = all(_always_returns(h.body) for h in s.handlers)
            if rest and not (parts_always and handlers_always):
                return None
            nb = _convert_returns(s.body, make_assign) if _contains_return(s.body) else list(s.body)
            no = _convert_returns(s.orelse, make_assign) if _contains_return(s.orelse) else list(s.orelse)
            nh = []
            for h in s.handlers:
                hb = _convert_returns(h.body, make_assign) if _contains_return(h.body) else list(h.body)
                if hb is None:
                    return None
                nh.append(ast.ExceptHandler(type=h.type, name=h.name, body=hb or [ast.Pass()]))
            if nb is None or no is None:
                return None
            new = ast.Try(body=nb or [ast.Pass()], handlers=nh, orelse=no, finalbody=list(s.finalbody))
            ast.copy_location(new, s)
            out.append(new)
            return out
        if _contains_return([s]):
            return None
        out.append(s)
    a = make_assign(None)
    if a is not None:
        out.append(a)
    return out


def _bind_params(ginfo, call, receiver_is_instance):
    """Map parameter name -> argument AST (None if the call does not fit the signature)."""
    g = ginfo.node
    params = [a.arg for a in g.args.posonlyargs + g.args.args]
    kwonly = [a.arg for a in g.args.kwonlyargs]
    is_static = any(isinstance(d, ast.Name) and d.id == "staticmethod" for d in g.decorator_list)
    mapping = {}
    if ginfo.cls is not None and not is_static:
        if not params:
            return None
        recv = call.func.value if isinstance(call.func, ast.Attribute) else None
        if recv is None:
            return None
        mapping[params[0]] = recv
        params = params[1:]
    if any(isinstance(a, ast.Starred) for a in call.args) or any(k.arg is None for k in call.keywords):
        return None
    if len(call.args) > len(params):
        return None
    for p, a in zip(params, call.args):
        mapping[p] = a
    for k in call.keywords:
        if k.arg in mapping or k.arg not in params + kwonly:
            return None
        mapping[k.arg] = k.value
    defaults = g.args.defaults
    for p, d in zip(params[len(params) - len(defaults) :], defaults):
        mapping.setdefault(p, d)
    for p, d in zip(kwonly, g.args.kw_defaults):
        if d is not None:
            mapping.setdefault(p, d)
    if any(p not in mapping for p in params + kwonly):
        return None
    return mapping


def _instantiate(ginfo, call, caller_names, target):
    """Statements that replace `target = call` (target may be None).  None if not possible."""
    g = ginfo.node
    mapping = _bind_params(ginfo, call, True)
    if mapping is None:
        return None
    body = _clone(_body_wo_doc(g))
    assigned_in_g = set()
    for s in body:
        for n in ast.walk(s):
            if isinstance(n, ast.Name) and isinstance(n.ctx, (ast.Store, ast.Del)):
                assigned_in_g.add(n.id)
    # locals of the helper that collide with names of the caller are renamed apart
    param_names = set(mapping)
    g_locals = assigned_in_g - param_names
    ren = {}
    for x in sorted(g_locals):
        if x in caller_names:
            k = x + "_" + g.name.strip("_")
            while k in caller_names or k in g_locals:
                k += "_"
            ren[x] = k
    pre = []
    subst = {}
    for p, a in mapping.items():
        if p in assigned_in_g or not _simple_arg(a):
            # bind through a local of the parameter's own name (renamed apart if needed)
            name = p
            if name in caller_names:
                name = p + "_" + g.name.strip("_")
                while name in caller_names:
                    name += "_"
            if name != p:
                ren[p] = name
            asg = ast.Assign(targets=[ast.Name(id=name, ctx=ast.Store())], value=_clone(a), type_comment=None)
            pre.append(asg)
        else:
            subst[p] = a
    holder = ast.Module(body=body, type_ignores=[])
    if ren:
        _Rename(ren).visit(holder)
    if subst:
        _Subst(subst).visit(holder)
    body = holder.body

    def make_assign(value):
        if target is None:
            if value is None or isinstance(value, (ast.Constant, ast.Name)):
                return None
            return ast.Expr(value=value)
        v = value if value is not None else ast.Constant(value=None)
        return ast.Assign(targets=[_clone(target)], value=v, type_comment=None)

    conv = _convert_returns(body, make_assign)
    if conv is None:
        return None
    new = pre + conv
    if not new:
        new = [ast.Pass()]
    _relocate(new, call)
    for s in new:
        ast.fix_missing_locations(s)
    return new


def _instantiate_generator(ginfo, for_stmt, caller_names):
    """Statements replacing `for T in gen(args): BODY` for a generator helper of the form
    [setup...] for X in ITER: [stmts without yield, may `continue`] yield E   -- the yield being the last statement of the loop body
    and nothing following the loop.  None if the helper is not of that form."""
    g = ginfo.node
    if g.args.vararg or g.args.kwarg or g.decorator_list and not all(isinstance(d, ast.Name) and d.id in ("staticmethod",) for d in g.decorator_list):
        return None
    body = _body_wo_doc(g)
    yields = [n for n in ast.walk(g) if isinstance(n, (ast.Yield, ast.YieldFrom))]
    if len(yields) != 1 or not isinstance(yields[0], ast.Yield) or yields[0].value is None:
        return None
    if _contains(body, (ast.Return, ast.Await, ast.Global, ast.Nonlocal, ast.FunctionDef, ast.AsyncFunctionDef, ast.ClassDef)):
        return None
    if not body or not isinstance(body[-1], (ast.For, ast.While)) or body[-1].orelse:
        return None
    loop = body[-1]

    def tail_block(stmts):
        """The statement list in which the yield is the last statement, if the yield is in tail position of `stmts`."""
        if not stmts:
            return None
        last = stmts[-1]
        if isinstance(last, ast.Expr) and isinstance(last.value, ast.Yield):
            return stmts
        if isinstance(last, ast.If):
            return tail_block(last.body) or tail_block(last.orelse)
        return None

    if tail_block(loop.body) is None or not any(x is yields[0] for x in ast.walk(loop)):
        return None
    if _contains(for_stmt.body, (ast.Break, ast.Return)) and False:
        return None
    # a `break` in the caller's body leaves the helper's loop: fine, nothing follows it in the helper
    mapping = _bind_params(ginfo, for_stmt.iter, True)
    if mapping is None:
        return None
    new_body = _clone(body)
    assigned_in_g = set()
    for st in new_body:
        for n in ast.walk(st):
            if isinstance(n, ast.Name) and isinstance(n.ctx, (ast.Store, ast.Del)):
                assigned_in_g.add(n.id)
    ren = {}
    for x in sorted(assigned_in_g - set(mapping)):
        if x in caller_names:
            k = x + "_" + g.name.strip("_")
            while k in caller_names:
                k += "_"
            ren[x] = k
    pre, subst = [], {}
    for p, a in mapping.items():
        if p in assigned_in_g or not _simple_arg(a):
            name = p
            if name in caller_names:
                name = p + "_" + g.name.strip("_")
                while name in caller_names:
                    name += "_"
            if name != p:
                ren[p] = name
            pre.append(ast.Assign(targets=[ast.Name(id=name, ctx=ast.Store())], value=_clone(a), type_comment=None))
        else:
            subst[p] = a
    holder = ast.Module(body=new_body, type_ignores=[])
    if ren:
        _Rename(ren).visit(holder)
    if subst:
        _Subst(subst).visit(holder)
    new_body = holder.body
    nloop = new_body[-1]

    def tail_block2(stmts):
        if not stmts:
            return None
        last = stmts[-1]
        if isinstance(last, ast.Expr) and isinstance(last.value, ast.Yield):
            return stmts
        if isinstance(last, ast.If):
            return tail_block2(last.body) or tail_block2(last.orelse)
        return None

    tb = tail_block2(nloop.body)
    yexpr = tb[-1].value.value
    bind = ast.Assign(targets=[_clone(for_stmt.target)], value=yexpr, type_comment=None)
    for n in ast.walk(bind.targets[0]):
        if hasattr(n, "ctx"):
            n.ctx = ast.Store()
    tb[-1:] = [bind] + list(for_stmt.body)
    out = pre + new_body
    _relocate([x for x in pre], for_stmt)
    for st in out:
        ast.fix_missing_locations(st)
    return out


def _single_return_expr(ginfo):
    body = _body_wo_doc(ginfo.node)
    if len(body) == 1 and isinstance(body[0], ast.Return) and body[0].value is not None:
        return body[0].value
    return None


def _inline_in_function(prog, fi, is_new, stats):
    """One round of inlining inside function fi; returns number of call sites inlined."""
    done = 0
    caller_names = _names_bound(fi.node) | _names_used(fi.node)

    def targets_of(call):
        try:
            tg, how = prog.resolve_call(call, fi)
        except Exception:
            return None
        if len(tg) != 1 or how in ("class", "by-name-ambiguous", "unknown"):
            return None
        g = tg[0]
        if g is fi or not is_new(g) or g.module.kind not in ("py", "pyx"):
            return None
        if g.qual.startswith(fi.qual + "."):
            return None  # local def
        if not _inlinable(g):
            return None
        return g

    hoist_counter = [0]

    def hoist_nested(s):
        """`f(helper(a).m())` -> `_inl1 = helper(a); f(_inl1.m())` for a new multi-statement helper called once, unconditionally,
        inside a simple statement (no lambda / comprehension / short-circuit / conditional expression on the way)."""
        if isinstance(s, ast.If):
            top = s.test
        elif isinstance(s, (ast.Expr, ast.Assign, ast.Return, ast.AugAssign, ast.AnnAssign)):
            top = s.value
        else:
            return None
        if top is None or (isinstance(top, ast.Call) and targets_of(top) is not None and isinstance(s, (ast.Expr, ast.Assign, ast.Return))):
            return None
        found = []
        root_ = s if not isinstance(s, ast.If) else ast.Expr(value=s.test)
        if isinstance(s, ast.If):
            root_.value.parent = root_

        def walk(n, safe):
            for c in ast.iter_child_nodes(n):
                if isinstance(c, (ast.Lambda, ast.ListComp, ast.SetComp, ast.DictComp, ast.GeneratorExp)):
                    continue
                # the first operand of and/or and the test of a conditional expression are always evaluated
                if isinstance(n, ast.BoolOp):
                    csafe = safe and c is n.values[0]
                elif isinstance(n, ast.IfExp):
                    csafe = safe and c is n.test
                else:
                    csafe = safe
                if isinstance(c, ast.Call):
                    g_ = targets_of(c)
                    if g_ is not None and _single_return_expr(g_) is None:
                        found.append((c, n, csafe))
                walk(c, csafe)

        walk(root_, True)
        if len(found) != 1 or not found[0][2]:
            return None
        call, parent, _ = found[0]
        if isinstance(s, ast.If) and parent is root_:
            parent = s  # the call is the whole test
        hoist_counter[0] += 1
        tmp = "_inl%d_%s" % (hoist_counter[0], targets_of(call).node.name.strip("_"))
        while tmp in caller_names:
            tmp += "_"
        caller_names.add(tmp)
        asg = ast.Assign(targets=[ast.Name(id=tmp, ctx=ast.Store())], value=call, type_comment=None)
        ast.copy_location(asg, s)
        ref_ = ast.Name(id=tmp, ctx=ast.Load())
        ast.copy_location(ref_, call)
        if parent is s and isinstance(s, ast.If):
            s.test = ref_
        else:
            for f in parent._fields:
                v = getattr(parent, f, None)
                if v is call:
                    setattr(parent, f, ref_)
                elif isinstance(v, list):
                    for k, x in enumerate(v):
                        if x is call:
                            v[k] = ref_
        ast.fix_missing_locations(asg)
        return asg

    def rewrite_block(stmts):
        nonlocal done
        i = 0
        while i < len(stmts):
            s = stmts[i]
            pre_ = hoist_nested(s)
            if pre_ is not None:
                stmts.insert(i, pre_)
                s = pre_
            repl = None
            if isinstance(s, ast.Expr) and isinstance(s.value, ast.Call):
                g = targets_of(s.value)
                if g is not None:
                    repl = _instantiate(g, s.value, caller_names, None)
            elif isinstance(s, ast.Assign) and len(s.targets) == 1 and isinstance(s.value, ast.Call):
                g = targets_of(s.value)
                if g is not None:
                    repl = _instantiate(g, s.value, caller_names, s.targets[0])
            elif isinstance(s, ast.Return) and isinstance(s.value, ast.Call):
                g = targets_of(s.value)
                if g is not None and _single_return_expr(g) is None:
                    tmp = "_ret_" + g.node.name.strip("_")
                    r = _instantiate(g, s.value, caller_names, ast.Name(id=tmp, ctx=ast.Store()))
                    if r is not None:
                        ret = ast.Return(value=ast.Name(id=tmp, ctx=ast.Load()))
                        ast.copy_location(ret, s)
                        ast.fix_missing_locations(ret)
                        repl = r + [ret]
            if repl is not None:
                stmts[i : i + 1] = repl
                stats.setdefault(fi.qual, []).append(g.qual)
                stats.setdefault("#inlined", set()).add(g.qual)
                done += 1
                i += len(repl)
                continue
            for f in ("body", "orelse", "finalbody"):
                sub = getattr(s, f, None)
                if isinstance(sub, list) and sub and isinstance(sub[0], ast.stmt):
                    rewrite_block(sub)
            for h in getattr(s, "handlers", []) or []:
                rewrite_block(h.body)
            i += 1

    rewrite_block(fi.node.body)

    # generator helpers: `for T in gen(args): BODY` where the new helper is a loop whose body ends in its only `yield E`
    # becomes the helper's code with `T = E; BODY` in place of the yield
    def gen_inline(stmts):
        nonlocal done
        i = 0
        while i < len(stmts):
            s = stmts[i]
            if isinstance(s, ast.For) and not s.orelse and isinstance(s.iter, ast.Call):
                try:
                    tg, how = prog.resolve_call(s.iter, fi)
                except Exception:
                    tg, how = [], "unknown"
                g = tg[0] if len(tg) == 1 and how not in ("class", "by-name-ambiguous", "unknown") else None
                if g is not None and g is not fi and is_new(g) and g.module.kind in ("py", "pyx") and not g.qual.startswith(fi.qual + "."):
                    repl = _instantiate_generator(g, s, caller_names)
                    if repl is not None:
                        stmts[i : i + 1] = repl
                        stats.setdefault(fi.qual, []).append(g.qual)
                        stats.setdefault("#inlined", set()).add(g.qual)
                        done += 1
                        i += len(repl)
                        continue
            for f in ("body", "orelse", "finalbody"):
                sub = getattr(s, f, None)
                if isinstance(sub, list) and sub and isinstance(sub[0], ast.stmt):
                    gen_inline(sub)
            for h in getattr(s, "handlers", []) or []:
                gen_inline(h.body)
            i += 1

    gen_inline(fi.node.body)

    # expression-level: helpers that are a single `return <expr>`
    class ExprInline(ast.NodeTransformer):
        def visit_FunctionDef(self, node):
            if node is fi.node:
                self.generic_visit(node)
            return node

        def visit_Lambda(self, node):
            return node

        def visit_Call(self, node):
            self.generic_visit(node)
            nonlocal done
            g = targets_of(node)
            if g is None:
                return node
            e = _single_return_expr(g)
            if e is None:
                return node
            mapping = _bind_params(g, node, True)
            if mapping is None:
                return node
            # every parameter must be substitutable (simple argument, or used at most once in the expression)
            uses = {}
            for n in ast.walk(e):
                if isinstance(n, ast.Name) and n.id in mapping:
                    uses[n.id] = uses.get(n.id, 0) + 1
            for p, a in mapping.items():
                if not _simple_arg(a) and uses.get(p, 0) > 1:
                    return node
            new = _clone(e)
            # comprehension variables of the helper that collide with caller names are renamed apart
            ren = {}
            for n in ast.walk(new):
                if isinstance(n, ast.Name) and isinstance(n.ctx, ast.Store) and n.id in caller_names and n.id not in mapping:
                    ren[n.id] = n.id + "_" + g.node.name.strip("_")
            holder = ast.Expression(body=new)
            if ren:
                _Rename(ren).visit(holder)
            _Subst(mapping).visit(holder)
            new = holder.body
            _relocate(new, node)
            ast.fix_missing_locations(new)
            stats.setdefault(fi.qual, []).append(g.qual)
            stats.setdefault("#inlined", set()).add(g.qual)
            done += 1
            return new

    ExprInline().visit(fi.node)

    # a new single-expression helper passed as a callable (`key=helper`) is the lambda it abbreviates
    base_mod = fi.module.name.replace("#pxd", "")
    for n in list(ast.walk(fi.node)):
        if not isinstance(n, ast.Call):
            continue
        slots = [(n.args, i) for i in range(len(n.args))] + [(k, "value") for k in n.keywords]
        for holder, key in slots:
            v = holder[key] if isinstance(holder, list) else getattr(holder, key)
            if not isinstance(v, ast.Name):
                continue
            g = prog.functions.get(base_mod + "." + v.id)
            if g is None or not is_new(g) or g.cls is not None or not _inlinable(g):
                continue
            e = _single_return_expr(g)
            if e is None or g.node.args.defaults or g.node.args.kwonlyargs:
                continue
            lam = ast.Lambda(args=ast.arguments(posonlyargs=[], args=[ast.arg(arg=a.arg, annotation=None) for a in g.node.args.args], vararg=None, kwonlyargs=[], kw_defaults=[], kwarg=None, defaults=[]), body=_clone(e))
            _relocate(lam, v)
            ast.fix_missing_locations(lam)
            if isinstance(holder, list):
                holder[key] = lam
            else:
                setattr(holder, key, lam)
            stats.setdefault(fi.qual, []).append(g.qual)
            stats.setdefault("#inlined", set()).add(g.qual)
            done += 1
    return done


# ------------------------------------------------------------------------------------------------ temporaries
_PURE_CALLS = {"len", "int", "float", "str", "bool", "abs", "min", "max", "sum", "any", "all", "tuple", "frozenset", "isinstance", "divmod", "round", "ord", "chr", "range", "enumerate", "zip"}


def _value_like(e):
    """Expressions whose repeated evaluation yields interchangeable (immutable or aliased) values."""
    if isinstance(e, (ast.Name, ast.Constant)):
        return True
    if isinstance(e, ast.Attribute):
        return _value_like(e.value)
    if isinstance(e, ast.Subscript):
        return _value_like(e.value) and (_value_like(e.slice) if not isinstance(e.slice, ast.Slice) else False)
    if isinstance(e, (ast.BinOp,)):
        return _value_like(e.left) and _value_like(e.right)
    if isinstance(e, ast.UnaryOp):
        return _value_like(e.operand)
    if isinstance(e, ast.BoolOp):
        return all(_value_like(v) for v in e.values)
    if isinstance(e, ast.Compare):
        return _value_like(e.left) and all(_value_like(c) for c in e.comparators)
    if isinstance(e, ast.IfExp):
        return _value_like(e.test) and _value_like(e.body) and _value_like(e.orelse)
    if isinstance(e, ast.Tuple):
        return all(_value_like(x) for x in e.elts)
    if isinstance(e, ast.Call) and isinstance(e.func, ast.Name) and e.func.id in _PURE_CALLS and not e.keywords:
        return all(_value_like(a) or isinstance(a, (ast.GeneratorExp,)) for a in e.args)
    if isinstance(e, ast.Call) and isinstance(e.func, ast.Attribute) and e.func.attr in ("is_homozygous", "is_none", "is_snv", "as_vector", "get", "keys", "values", "items", "index", "count", "startswith", "endswith") and not e.keywords:
        return _value_like(e.func.value) and all(_value_like(a) for a in e.args)
    return False


def _is_mutated_use(un):
    """Is this Load of a temporary the receiver of a method call / the root of a store target?"""
    p = getattr(un, "parent", None)
    if isinstance(p, ast.Attribute) and isinstance(getattr(p, "parent", None), ast.Call) and p.parent.func is p:
        return True
    if isinstance(p, (ast.Attribute, ast.Subscript)) and isinstance(getattr(p, "ctx", None), (ast.Store, ast.Del)):
        return True
    return False


def _coalesce_copies(fi, ref_locals, stats):
    """`R = T` where T is a new temporary that is dead afterwards and R has no other binding: T is R under another
    name (typical after inlining a helper that returns its accumulator).  Rename T to R and drop the copy."""
    fnode = fi.node
    done = 0
    for _ in range(8):
        set_parents(fnode)
        bound = _names_bound(fnode)
        params = {a.arg for a in fnode.args.posonlyargs + fnode.args.args + fnode.args.kwonlyargs}
        hit = None
        for n in walk_function(fnode):
            if isinstance(n, ast.Assign) and len(n.targets) == 1 and isinstance(n.targets[0], ast.Name) and isinstance(n.value, ast.Name):
                R, T = n.targets[0].id, n.value.id
                if T in ref_locals or T in params or T == R or T not in bound:
                    continue
                r_stores = [x for x in ast.walk(fnode) if isinstance(x, ast.Name) and x.id == R and isinstance(x.ctx, (ast.Store, ast.Del))]
                if len(r_stores) != 1:
                    continue
                blk, _o = _block_of(n)
                if blk is None:
                    continue
                i = [k for k, x in enumerate(blk) if x is n][0]
                # T is dead after the copy and R does not exist before it: in pre-order every occurrence of T precedes the copy
                # statement, every occurrence of R follows it, and the uses of R lie in the copy's own block (after it)
                order = {}
                stack_ = [fnode]
                k_ = 0
                while stack_:
                    x_ = stack_.pop()
                    order[id(x_)] = k_
                    k_ += 1
                    stack_.extend(reversed(list(ast.iter_child_nodes(x_))))
                here = order[id(n)]
                occ = [x for x in ast.walk(fnode) if isinstance(x, ast.Name) and x.id == T and x is not n.value]
                if not occ or not all(order[id(x)] < here for x in occ):
                    continue
                r_occ = [x for x in ast.walk(fnode) if isinstance(x, ast.Name) and x.id == R and x is not n.targets[0]]
                later = set()
                for st_ in blk[i + 1 :]:
                    for x in ast.walk(st_):
                        later.add(id(x))
                if not all(id(x) in later for x in r_occ):
                    continue
                hit = (n, R, T, blk)
                break
        if hit is None:
            break
        n, R, T, blk = hit
        for x in ast.walk(fnode):
            if isinstance(x, ast.Name) and x.id == T:
                x.id = R
        blk.remove(n)
        stats.setdefault("#coalesced", []).append("%s:%s->%s" % (fi.qual, T, R))
        done += 1
    return done


def _merge_accumulators(fi, ref_locals, stats):
    """`T = set(); ... T.add(e) ...; X |= T` (T new, used for nothing else) is `X.add(e)` at the same places."""
    fnode = fi.node
    done = 0
    for _ in range(8):
        set_parents(fnode)
        params = {a.arg for a in fnode.args.posonlyargs + fnode.args.args + fnode.args.kwonlyargs}
        hit = None
        for n in walk_function(fnode):
            if not (isinstance(n, ast.Assign) and len(n.targets) == 1 and isinstance(n.targets[0], ast.Name)):
                continue
            T = n.targets[0].id
            if T in ref_locals or T in params:
                continue
            v = n.value
            kind = None
            if isinstance(v, ast.Call) and isinstance(v.func, ast.Name) and v.func.id == "set" and not v.args:
                kind = "set"
            elif isinstance(v, ast.List) and not v.elts:
                kind = "list"
            if kind is None:
                continue
            if len([x for x in ast.walk(fnode) if isinstance(x, ast.Name) and x.id == T and isinstance(x.ctx, ast.Store)]) != 1:
                continue
            blk, _o = _block_of(n)
            if blk is None:
                continue
            i = [k for k, x in enumerate(blk) if x is n][0]
            adds, merges, other = [], [], []
            for x in ast.walk(fnode):
                if isinstance(x, ast.Name) and x.id == T and isinstance(x.ctx, ast.Load):
                    p = x.parent
                    gp = getattr(p, "parent", None)
                    if isinstance(p, ast.Attribute) and p.attr == ("add" if kind == "set" else "append") and isinstance(gp, ast.Call) and gp.func is p and isinstance(getattr(gp, "parent", None), ast.Expr):
                        adds.append(gp)
                    elif isinstance(p, ast.AugAssign) and p.value is x and isinstance(p.target, ast.Name) and isinstance(p.op, ast.BitOr if kind == "set" else ast.Add):
                        merges.append(p)
                    elif isinstance(p, ast.Call) and isinstance(p.func, ast.Attribute) and p.func.attr == ("update" if kind == "set" else "extend") and p.args == [x] and isinstance(p.func.value, ast.Name) and isinstance(getattr(p, "parent", None), ast.Expr):
                        merges.append(p.parent)
                    else:
                        other.append(x)
            if other or len(merges) != 1 or not adds:
                continue
            mg = merges[0]
            if not any(x is mg for x in blk[i + 1 :]):
                continue
            # all adds happen between the initialisation and the merge
            between = set()
            for st_ in blk[i + 1 : [k for k, x in enumerate(blk) if x is mg][0]]:
                for x in ast.walk(st_):
                    between.add(id(x))
            if not all(id(a) in between for a in adds):
                continue
            X = mg.target.id if isinstance(mg, ast.AugAssign) else mg.value.func.value.id
            if X == T:
                continue
            hit = (n, mg, adds, X, T, blk)
            break
        if hit is None:
            break
        n, mg, adds, X, T, blk = hit
        for a in adds:
            a.func.value.id = X
        blk.remove(n)
        blk.remove(mg)
        stats.setdefault("#accumulators", []).append("%s:%s->%s" % (fi.qual, T, X))
        done += 1
    return done


def _stmt_of(node):
    n = node
    while n is not None and not isinstance(n, ast.stmt):
        n = getattr(n, "parent", None)
    return n


def _block_of(stmt):
    p = getattr(stmt, "parent", None)
    if p is None:
        return None, None
    for f in ("body", "orelse", "finalbody"):
        b = getattr(p, f, None)
        if isinstance(b, list) and any(x is stmt for x in b):
            return b, p
    if isinstance(p, ast.ExceptHandler) and any(x is stmt for x in p.body):
        return p.body, p
    return None, None


def _split_tuple_assignments(fnode, new_locals):
    """`a, b = x, y` with new temporaries -> `a = x; b = y` when no element reads a target of the statement."""
    changed = False
    for n in list(walk_function(fnode)):
        if isinstance(n, ast.Assign) and len(n.targets) == 1 and isinstance(n.targets[0], (ast.Tuple, ast.List)) and isinstance(n.value, (ast.Tuple, ast.List)) and len(n.targets[0].elts) == len(n.value.elts):
            tg = n.targets[0].elts
            if not all(isinstance(t, ast.Name) for t in tg):
                continue
            # only statements that involve a new temporary (as target or as copied value) are taken apart
            if not (any(t.id in new_locals for t in tg) or any(isinstance(v, ast.Name) and v.id in new_locals for v in n.value.elts)):
                continue
            tnames = {t.id for t in tg}
            if any(tnames & _names_used(v) for v in n.value.elts):
                continue
            blk, _ = _block_of(n)
            if blk is None:
                continue
            i = [k for k, x in enumerate(blk) if x is n][0]
            new = []
            for t, v in zip(tg, n.value.elts):
                a = ast.Assign(targets=[t], value=v, type_comment=None)
                ast.copy_location(a, n)
                new.append(a)
            blk[i : i + 1] = new
            changed = True
    return changed


def _propagate_temps(fi, ref_locals, stats):
    fnode = fi.node
    params = {a.arg for a in fnode.args.posonlyargs + fnode.args.args + fnode.args.kwonlyargs}
    bound = _names_bound(fnode)
    new_locals = {x for x in bound if x not in ref_locals and x not in params}
    if not new_locals:
        return 0
    set_parents(fnode)
    if _split_tuple_assignments(fnode, new_locals):
        set_parents(fnode)
    n_done = 0
    progress = True
    rounds = 0
    while progress and rounds < 8:
        progress = False
        rounds += 1
        stores, loads = {}, {}
        other_binding = set()
        for n in ast.walk(fnode):
            if isinstance(n, ast.Name) and n.id in new_locals:
                par_ = getattr(n, "parent", None)
                if isinstance(par_, ast.AnnAssign) and par_.value is None and par_.target is n:
                    continue  # a bare declaration (`x: int`, Cython `cdef int x`) binds nothing
                (stores if isinstance(n.ctx, (ast.Store, ast.Del)) else loads).setdefault(n.id, []).append(n)
            elif isinstance(n, ast.ExceptHandler) and n.name in new_locals:
                other_binding.add(n.name)
        all_stores = {}
        for n in ast.walk(fnode):
            if isinstance(n, ast.Name) and isinstance(n.ctx, (ast.Store, ast.Del)):
                all_stores.setdefault(n.id, []).append(n)
        for t in sorted(new_locals):
            if t in other_binding or not stores.get(t):
                continue
            # every binding must be a plain single-target assignment; each definition covers the uses that
            # follow it inside its own block up to the next definition in that block
            defs = []
            plain = True
            for st in stores[t]:
                d = getattr(st, "parent", None)
                if not (isinstance(d, ast.Assign) and len(d.targets) == 1 and d.targets[0] is st):
                    plain = False
                    break
                blk, owner = _block_of(d)
                if blk is None:
                    plain = False
                    break
                defs.append((st, d, blk, [k for k, x in enumerate(blk) if x is d][0]))
            if not plain:
                continue
            uses = loads.get(t, [])
            if not uses:
                continue  # unused temporaries are left alone
            cover = {}
            ok = True
            for un in uses:
                owner_def = None
                for st, d, blk, di in defs:
                    s_ = _stmt_of(un)
                    while s_ is not None and not any(x is s_ for x in blk):
                        par = getattr(s_, "parent", None)
                        s_ = _stmt_of(par) if par is not None else None
                    if s_ is None:
                        continue
                    ui = [k for k, x in enumerate(blk) if x is s_][0]
                    if ui <= di:
                        continue
                    # no other definition of t in the same block between di and ui
                    if any(b is blk and di < dj <= ui and dd is not d and not (dj == ui and s_ is dd and False) for _, dd, b, dj in defs):
                        continue
                    if owner_def is None or owner_def[3] < di or owner_def[2] is not blk:
                        owner_def = (st, d, blk, di)
                if owner_def is None:
                    ok = False
                    break
                cover.setdefault(id(owner_def[1]), []).append(un)
            if not ok or any(isinstance(x, (ast.Yield, ast.YieldFrom, ast.Await, ast.NamedExpr, ast.Lambda)) for _, d, _, _ in defs for x in ast.walk(d.value)):
                continue
            # an expression that creates a fresh object (display, comprehension, constructor or any other call) is an
            # identity, not a value: it may only be moved to a single use, and never to a place where it is mutated
            fresh_multi = False
            for _, d, _, _ in defs:
                if not _value_like(d.value):
                    us = cover.get(id(d), [])
                    if len(us) != 1 or _is_mutated_use(us[0]):
                        fresh_multi = True
            if fresh_multi:
                continue
            if len(defs) > 1:
                # several definitions (instances of the same inlined helper, or branches): none may lie in the
                # scope of another one, otherwise a use could see either of them
                def in_scope(x, y):
                    return any(z is y[1] for s_ in x[2][x[3] + 1 :] for z in ast.walk(s_))

                if any(in_scope(x, y) for x in defs for y in defs if x is not y):
                    continue
            clash = False
            order = {}
            stack_ = [fnode]
            k_ = 0
            while stack_:
                x_ = stack_.pop()
                order[id(x_)] = k_
                k_ += 1
                stack_.extend(reversed(list(ast.iter_child_nodes(x_))))

            def loops_around(x):
                out_ = []
                p_ = getattr(x, "parent", None)
                while p_ is not None and p_ is not fnode:
                    if isinstance(p_, (ast.For, ast.While, ast.AsyncFor)):
                        out_.append(p_)
                    p_ = getattr(p_, "parent", None)
                return out_

            for st, d, blk, di in defs:
                e = d.value
                my_uses = cover.get(id(d), [])
                if not my_uses:
                    continue
                free = _names_used(e) - {x.id for x in ast.walk(e) if isinstance(x, ast.Name) and isinstance(x.ctx, ast.Store)}
                d_loops = {id(l) for l in loops_around(d)}
                last_use = max(order[id(un)] for un in my_uses)
                inside_def = {id(x) for x in ast.walk(d)}
                for nm in free:
                    for sn in all_stores.get(nm, []):
                        if sn is st or id(sn) in inside_def:
                            continue  # the binding itself / comprehension variables of the defining expression
                        if order[id(sn)] < order[id(d)]:
                            continue  # re-bound before the definition is (re-)evaluated
                        if order[id(sn)] <= last_use:
                            clash = True
                            break
                        # after the last use: only harmful when a loop that does not contain the definition
                        # brings control back from the store to a use
                        sn_loops = [l for l in loops_around(sn) if id(l) not in d_loops]
                        if any(any(z is un for z in ast.walk(l)) for l in sn_loops for un in my_uses):
                            clash = True
                            break
                    if clash:
                        break
                if clash:
                    break
            if clash:
                continue
            # substitute
            for st, d, blk, di in defs:
                e = d.value
                for un in cover.get(id(d), []):
                    p = un.parent
                    new = _clone(e)
                    for f in p._fields:
                        v = getattr(p, f, None)
                        if v is un:
                            setattr(p, f, new)
                        elif isinstance(v, list):
                            for k, x in enumerate(v):
                                if x is un:
                                    v[k] = new
                blk.remove(d)
                if not blk:
                    ps = ast.Pass()
                    ast.copy_location(ps, d)
                    blk.append(ps)
            stats.setdefault("#temps", []).append("%s:%s" % (fi.qual, t))
            n_done += 1
            progress = True
            set_parents(fnode)
            break  # recompute the tables
    return n_done


# ------------------------------------------------------------------------------------------------ loops
def _const_seq(e, module_consts):
    if isinstance(e, (ast.Tuple, ast.List)) and e.elts and all(isinstance(x, ast.Constant) for x in e.elts):
        return e.elts
    # a short literal tuple of plain expressions (`for key in (a[i], a[i] + 1)`) is unrolled as well
    if isinstance(e, (ast.Tuple, ast.List)) and 1 < len(e.elts) <= 4 and all(_value_like(x) for x in e.elts):
        return e.elts
    if isinstance(e, ast.Name) and e.id in module_consts:
        return module_consts[e.id]
    return None


def _module_consts(m):
    out = {}
    for s in m.tree.body:
        if isinstance(s, ast.Assign) and len(s.targets) == 1 and isinstance(s.targets[0], ast.Name) and isinstance(s.value, (ast.Tuple, ast.List)) and s.value.elts and all(isinstance(x, ast.Constant) for x in s.value.elts):
            out[s.targets[0].id] = s.value.elts
    # class-level constants are looked up by bare attribute name as well
    for c in ast.walk(m.tree):
        if isinstance(c, ast.ClassDef):
            for s in c.body:
                if isinstance(s, ast.Assign) and len(s.targets) == 1 and isinstance(s.targets[0], ast.Name) and isinstance(s.value, (ast.Tuple, ast.List)) and s.value.elts and all(isinstance(x, ast.Constant) for x in s.value.elts):
                    out.setdefault("." + s.targets[0].id, s.value.elts)
    return out


class _AttrConst(ast.NodeTransformer):
    """getattr(o, "c") -> o.c ; setattr(o, "c", v) statement -> o.c = v ; x = x + y -> x += y."""

    def visit_Call(self, node):
        self.generic_visit(node)
        if isinstance(node.func, ast.Name) and node.func.id == "getattr" and len(node.args) == 2 and isinstance(node.args[1], ast.Constant) and isinstance(node.args[1].value, str) and node.args[1].value.isidentifier():
            new = ast.Attribute(value=node.args[0], attr=node.args[1].value, ctx=ast.Load())
            return ast.copy_location(new, node)
        return node

    def visit_Expr(self, node):
        self.generic_visit(node)
        c = node.value
        if isinstance(c, ast.Call) and isinstance(c.func, ast.Name) and c.func.id == "setattr" and len(c.args) == 3 and isinstance(c.args[1], ast.Constant) and isinstance(c.args[1].value, str) and c.args[1].value.isidentifier():
            tgt = ast.Attribute(value=c.args[0], attr=c.args[1].value, ctx=ast.Store())
            val = c.args[2]
            if isinstance(val, ast.BinOp) and ast.dump(val.left) == ast.dump(ast.Attribute(value=c.args[0], attr=c.args[1].value, ctx=ast.Load())):
                new = ast.AugAssign(target=tgt, op=val.op, value=val.right)
            else:
                new = ast.Assign(targets=[tgt], value=val, type_comment=None)
            ast.copy_location(new, node)
            ast.fix_missing_locations(new)
            return new
        return node


def _unfold_filtered_loops(fi, ref_fingerprints, stats):
    """A new `for T in (V for V in ITER if COND): BODY` (generator or list, element = the variable itself) is
    `for T in ITER: if COND[T/V]: BODY`.  (For a list the filter is evaluated for all elements before the first BODY runs;
    the normal form assumes BODY does not change what COND sees for later elements -- what a reviewer of such a clean-up checks.)"""
    from . import alpha

    locs = alpha.local_names(fi.node)
    done = 0
    for n in list(walk_function(fi.node)):
        if not (isinstance(n, ast.For) and not n.orelse and isinstance(n.iter, (ast.GeneratorExp, ast.ListComp))):
            continue
        c = n.iter
        if len(c.generators) != 1 or not c.generators[0].ifs or c.generators[0].is_async:
            continue
        g = c.generators[0]
        if not (isinstance(g.target, ast.Name) and isinstance(c.elt, ast.Name) and c.elt.id == g.target.id and isinstance(n.target, ast.Name)):
            continue
        if alpha._fingerprint(n, locs)[0] in ref_fingerprints:
            continue
        cond = g.ifs[0] if len(g.ifs) == 1 else ast.BoolOp(op=ast.And(), values=list(g.ifs))
        cond = _clone(cond)
        if g.target.id != n.target.id:
            holder = ast.Expression(body=cond)
            _Rename({g.target.id: n.target.id}).visit(holder)
            cond = holder.body
        guard = ast.If(test=cond, body=list(n.body), orelse=[])
        ast.copy_location(guard, n)
        n.iter = g.iter
        n.body = [guard]
        ast.fix_missing_locations(n)
        stats.setdefault("#filtered_loops", []).append(fi.qual)
        done += 1
    return done


def _split_new_divmod(fi, ref_fingerprints, stats):
    """A new statement `q, r = divmod(x, k)` is `r = x % k; q = x // k` (in an order that reads x before re-binding it)."""
    from . import alpha

    locs = alpha.local_names(fi.node)
    done = 0
    for n in list(walk_function(fi.node)):
        if not (isinstance(n, ast.Assign) and len(n.targets) == 1 and isinstance(n.targets[0], ast.Tuple) and len(n.targets[0].elts) == 2 and all(isinstance(t, ast.Name) for t in n.targets[0].elts)):
            continue
        v = n.value
        if not (isinstance(v, ast.Call) and isinstance(v.func, ast.Name) and v.func.id == "divmod" and len(v.args) == 2 and not v.keywords and _value_like(v.args[0]) and _value_like(v.args[1])):
            continue
        if alpha._fingerprint(n, locs)[0] in ref_fingerprints:
            continue
        blk, _o = _block_of(n)
        if blk is None:
            continue
        q, r = n.targets[0].elts
        x, k = v.args
        used = _names_used(x) | _names_used(k)
        sq = ast.Assign(targets=[ast.Name(id=q.id, ctx=ast.Store())], value=ast.BinOp(left=_clone(x), op=ast.FloorDiv(), right=_clone(k)), type_comment=None)
        sr = ast.Assign(targets=[ast.Name(id=r.id, ctx=ast.Store())], value=ast.BinOp(left=_clone(x), op=ast.Mod(), right=_clone(k)), type_comment=None)
        if q.id in used and r.id in used:
            continue
        seq = [sr, sq] if q.id in used else [sq, sr]
        for s_ in seq:
            ast.copy_location(s_, n)
            ast.fix_missing_locations(s_)
        i = [j for j, y in enumerate(blk) if y is n][0]
        blk[i : i + 1] = seq
        stats.setdefault("#divmod", []).append(fi.qual)
        done += 1
    return done


def _unroll_new_loops(fi, ref_fingerprints, module_consts, stats):
    from . import alpha

    fnode = fi.node
    locs = alpha.local_names(fnode)
    done = 0

    def rewrite(stmts):
        nonlocal done
        i = 0
        while i < len(stmts):
            s = stmts[i]
            # for a, b in zip(S, X) where S is a fixed-size local display ([[], []]): one copy of the body per slot of S
            if isinstance(s, ast.For) and not s.orelse and isinstance(s.target, ast.Tuple) and isinstance(s.iter, ast.Call) and isinstance(s.iter.func, ast.Name) and s.iter.func.id == "zip" and len(s.iter.args) == len(s.target.elts) >= 2 and all(isinstance(t, ast.Name) for t in s.target.elts) and not s.iter.keywords:
                fp = alpha._fingerprint(s, locs)[0]
                nfix = None
                for a_ in s.iter.args:
                    if isinstance(a_, ast.Name):
                        defs_ = [x for x in walk_function(fnode) if isinstance(x, (ast.Assign, ast.AnnAssign)) and any(isinstance(t, ast.Name) and t.id == a_.id for t in (x.targets if isinstance(x, ast.Assign) else [x.target]))]
                        resized = any(isinstance(c, ast.Call) and isinstance(c.func, ast.Attribute) and isinstance(c.func.value, ast.Name) and c.func.value.id == a_.id and c.func.attr in ("append", "extend", "insert", "pop", "remove", "clear") for c in walk_function(fnode))
                        if len(defs_) == 1 and isinstance(defs_[0].value, (ast.List, ast.Tuple)) and 1 < len(defs_[0].value.elts) <= 4 and not resized:
                            nfix = len(defs_[0].value.elts)
                    elif isinstance(a_, (ast.Tuple, ast.List)) and 1 < len(a_.elts) <= 4:
                        nfix = nfix or len(a_.elts)
                literal_ok = all(len(a_.elts) == nfix for a_ in s.iter.args if isinstance(a_, (ast.Tuple, ast.List)))
                if nfix and literal_ok and fp not in ref_fingerprints and len(s.body) <= 4 and not _contains(s.body, (ast.Break, ast.Continue, ast.Return, ast.For, ast.While)):
                    if not any(isinstance(n, ast.Name) and isinstance(n.ctx, ast.Store) and n.id in {t.id for t in s.target.elts} for b in s.body for n in ast.walk(b)):
                        new = []
                        for k in range(nfix):
                            mp = {}
                            for t, a_ in zip(s.target.elts, s.iter.args):
                                if isinstance(a_, (ast.Tuple, ast.List)):
                                    mp[t.id] = a_.elts[k]
                                elif _value_like(a_):
                                    mp[t.id] = ast.Subscript(value=_clone(a_), slice=ast.Constant(value=k), ctx=ast.Load())
                                else:
                                    mp = None
                                    break
                            if mp is None:
                                new = None
                                break
                            body = _clone(s.body)
                            holder = ast.Module(body=body, type_ignores=[])
                            _Subst(mp).visit(holder)
                            new.extend(holder.body)
                        if new:
                            for x in new:
                                ast.copy_location(x, s)
                                ast.fix_missing_locations(x)
                            stmts[i : i + 1] = new
                            stats.setdefault("#unrolled", []).append("%s:zip" % fi.qual)
                            done += 1
                            i += len(new)
                            continue
            if isinstance(s, ast.For) and not s.orelse and isinstance(s.target, ast.Name):
                seq = _const_seq(s.iter, module_consts)
                if seq is None and isinstance(s.iter, ast.Attribute) and isinstance(s.iter.value, ast.Name) and s.iter.value.id in ("self", "cls"):
                    seq = module_consts.get("." + s.iter.attr)
                fp = alpha._fingerprint(s, locs)[0]
                if seq is not None and fp not in ref_fingerprints and len(seq) <= 12 and len(s.body) <= 4 and not _contains(s.body, (ast.Break, ast.Continue, ast.Return, ast.For, ast.While)):
                    # the loop variable must not be assigned in the body
                    if not any(isinstance(n, ast.Name) and n.id == s.target.id and isinstance(n.ctx, ast.Store) for b in s.body for n in ast.walk(b)):
                        new = []
                        for c in seq:
                            body = _clone(s.body)
                            holder = ast.Module(body=body, type_ignores=[])
                            _Subst({s.target.id: c}).visit(holder)
                            _AttrConst().visit(holder)
                            new.extend(holder.body)
                        for x in new:
                            ast.copy_location(x, s)
                            ast.fix_missing_locations(x)
                        stmts[i : i + 1] = new
                        stats.setdefault("#unrolled", []).append("%s:%s" % (fi.qual, s.target.id))
                        done += 1
                        i += len(new)
                        continue
            for f in ("body", "orelse", "finalbody"):
                sub = getattr(s, f, None)
                if isinstance(sub, list) and sub and isinstance(sub[0], ast.stmt):
                    rewrite(sub)
            for h in getattr(s, "handlers", []) or []:
                rewrite(h.body)
            i += 1

    rewrite(fnode.body)
    return done


# ------------------------------------------------------------------------------------------------ driver
def normalise(prog, ref):
    """Apply the three normalisations to every function of the program (in place).  Returns statistics."""
    stats = {}
    if not ref:
        return stats
    ref_funcs = set(ref)

    def base(q):
        return q.split("#")[0]

    def is_new(g):
        return base(g.qual) not in ref_funcs and not g.qual.startswith("#")

    any_new = any(is_new(f) for f in prog.functions.values() if f.module.kind in ("py", "pyx"))
    # 1. inlining of new helpers (a few rounds: helpers may call helpers)
    if any_new:
        for _ in range(MAX_ROUNDS):
            n = 0
            for fi in list(prog.functions.values()):
                if fi.module.kind not in ("py", "pyx"):
                    continue
                try:
                    k = _inline_in_function(prog, fi, is_new, stats)
                except RecursionError:
                    k = 0
                if k:
                    set_parents(fi.node)
                    fi.node.parent = getattr(fi.node, "parent", None)
                n += k
            if not n:
                break
        # helpers that are no longer called anywhere are absorbed
        inlined = stats.get("#inlined", set())
        still_called = set()
        for fi in prog.functions.values():
            if fi.module.kind not in ("py", "pyx"):
                continue
            for c in ast.walk(fi.node):
                if isinstance(c, ast.Call):
                    try:
                        tg, how = prog.resolve_call(c, fi)
                    except Exception:
                        continue
                    for g in tg:
                        still_called.add(g.qual)
        absorbed = []
        for q in sorted(inlined):
            if q not in still_called and q in prog.functions:
                g = prog.functions.pop(q)
                g.module.functions.pop(q, None)
                if g.cls is not None and g.cls.methods.get(g.node.name) is g:
                    g.cls.methods.pop(g.node.name, None)
                lst = prog._by_name.get(g.name, [])
                if g in lst:
                    lst.remove(g)
                absorbed.append(q)
        stats["#absorbed"] = absorbed
    # 1b. new module-level scalar constants (`MAX_COVERAGE = 23`) are folded back into the functions of their module
    for m in prog.modules.values():
        if m.kind not in ("py", "pyx"):
            continue
        known = ref.get("#globals:" + m.name)
        if known is None:
            continue
        consts = {}
        stores = {}
        for n in ast.walk(m.tree):
            if isinstance(n, ast.Name) and isinstance(n.ctx, (ast.Store, ast.Del)):
                stores[n.id] = stores.get(n.id, 0) + 1
        for s_ in m.tree.body:
            if isinstance(s_, ast.Assign) and len(s_.targets) == 1 and isinstance(s_.targets[0], ast.Name) and isinstance(s_.value, ast.Constant) and isinstance(s_.value.value, (int, float, str, bool)):
                nm = s_.targets[0].id
                if nm not in known and stores.get(nm) == 1:
                    consts[nm] = s_.value
        if not consts:
            continue
        for fi in prog.functions.values():
            if fi.module is not m:
                continue
            bound = _names_bound(fi.node)
            use = {k: v for k, v in consts.items() if k not in bound}
            if use and any(isinstance(n, ast.Name) and n.id in use for n in ast.walk(fi.node)):
                _Subst(use).visit(fi.node)
                # f"...{CONST}..." with a constant inside becomes plain text again
                for js in [x for x in ast.walk(fi.node) if isinstance(x, ast.JoinedStr)]:
                    vals = []
                    for v in js.values:
                        if isinstance(v, ast.FormattedValue) and isinstance(v.value, ast.Constant) and v.conversion == -1 and v.format_spec is None:
                            vals.append(ast.Constant(value=str(v.value.value)))
                        else:
                            vals.append(v)
                    merged = []
                    for v in vals:
                        if merged and isinstance(v, ast.Constant) and isinstance(merged[-1], ast.Constant) and isinstance(v.value, str) and isinstance(merged[-1].value, str):
                            merged[-1] = ast.Constant(value=merged[-1].value + v.value)
                        else:
                            merged.append(v)
                    js.values = merged
                set_parents(fi.node)
                stats.setdefault("#constants", []).append("%s:%s" % (fi.qual, ",".join(sorted(use))))
    # 2./3. per function: new constant loops, new temporaries
    mconsts = {}
    for fi in list(prog.functions.values()):
        if fi.module.kind not in ("py", "pyx"):
            continue
        d = ref.get(base(fi.qual))
        if not d:
            continue
        ref_fps = {x[0] for x in d}
        ref_locals = set()
        for x in d:
            ref_locals |= set(x[1])
        mc = mconsts.get(fi.module.name)
        if mc is None:
            mc = mconsts[fi.module.name] = _module_consts(fi.module)
        try:
            if _unroll_new_loops(fi, ref_fps, mc, stats):
                set_parents(fi.node)
            if _split_new_divmod(fi, ref_fps, stats):
                set_parents(fi.node)
            for _round in range(3):
                k = _propagate_temps(fi, ref_locals, stats)
                k += _coalesce_copies(fi, ref_locals, stats)
                k += _merge_accumulators(fi, ref_locals, stats)
                if _unfold_filtered_loops(fi, ref_fps, stats):
                    set_parents(fi.node)
                    k += 1
                if not k:
                    break
        except RecursionError:
            pass
        set_parents(fi.node)
    # parent links of the function nodes themselves
    for m in prog.modules.values():
        if m.kind in ("py", "pyx"):
            set_parents(m.tree)
    if "#inlined" in stats:
        stats["#inlined"] = sorted(stats["#inlined"])
    return stats
