"""De-refactoring normalisation: undo behaviour-preserving restructurings before the rules run.

The rules of /verif/rules describe whatshap's functions as they are at the reference commit
(`reference/names.json`: every function with its statement fingerprints and local names).  A maintainer's
clean-up commit that (a) extracts a few statements into a *new* helper, (b) introduces a *new* temporary for a
sub-expression, or (c) folds repeated statements into a *new* loop over a literal tuple (with getattr/setattr)
changes no behaviour, and must not change any verdict.  This pass rewrites the in-memory AST of every analysed
function back towards the reference shape:

1. **helper inlining** -- a call to a function that does not exist in the reference (a new helper) is replaced
   by the helper's body when the helper is simple: no generators, no recursion, returns only in tail position
   (guard-clause returns are turned into if/else), parameters bound to the arguments.  A helper whose body is
   one `return <expr>` is also inlined inside expressions.  Helpers inlined at every call site are removed
   from the function table ("absorbed").
2. **temporary propagation** -- a local that does not exist in the function's reference entry, is bound exactly
   once by a plain assignment, and whose defining expression mentions no name that is re-bound later in the
   function, is replaced by its defining expression at every use (copy propagation).
3. **constant-loop unrolling** -- a `for` statement that does not exist in the reference and iterates a literal
   tuple/list of constants (or a module-level name bound to one) with a short body without break/continue is
   unrolled; `getattr(o, "c")` / `setattr(o, "c", v)` with constant names become attribute accesses;
   `x = x + y` produced this way becomes `x += y`.

The pass is the identity on the reference tree (nothing is new there).  It is a normalisation, not a rule:
it only removes differences of the three kinds above; evaluation-count and evaluation-time differences of the
propagated expressions are ignored (they are assumed free of side effects, as a reviewer of such a clean-up
commit would require).
"""
import ast
import copy

from .model import walk_function, set_parents

MAX_HELPER_STMTS = 45
MAX_ROUNDS = 4


# ------------------------------------------------------------------------------------------------ helpers
def _clone(node):
    if isinstance(node, ast.AST):
        new = type(node)()
        for f in node._fields:
            if hasattr(node, f):
                setattr(new, f, _clone(getattr(node, f)))
        for a in ("lineno", "col_offset", "end_lineno", "end_col_offset"):
            if hasattr(node, a):
                setattr(new, a, getattr(node, a))
        return new
    if isinstance(node, list):
        return [_clone(x) for x in node]
    return node


def _relocate(nodes, at):
    """Give every node the position of the call site (reports then point at the caller's line)."""
    for top in nodes if isinstance(nodes, list) else [nodes]:
        for n in ast.walk(top):
            if isinstance(n, (ast.stmt, ast.expr, ast.ExceptHandler, ast.arg, ast.keyword, ast.comprehension)):
                for a in ("lineno", "col_offset", "end_lineno", "end_col_offset"):
                    if hasattr(at, a):
                        try:
                            setattr(n, a, getattr(at, a))
                        except AttributeError:
                            pass


def _body_wo_doc(fnode):
    body = list(fnode.body)
    if body and isinstance(body[0], ast.Expr) and isinstance(body[0].value, ast.Constant) and isinstance(body[0].value.value, str):
        body = body[1:]
    return body


def _contains(stmts, types):
    for s in stmts:
        for n in ast.walk(s):
            if isinstance(n, types):
                return True
    return False


def _contains_return(stmts):
    for s in stmts:
        stack = [s]
        while stack:
            n = stack.pop()
            if isinstance(n, ast.Return):
                return True
            if isinstance(n, (ast.FunctionDef, ast.AsyncFunctionDef, ast.Lambda, ast.ClassDef)) and n is not s:
                continue
            stack.extend(ast.iter_child_nodes(n))
    return False


def _always_returns(stmts):
    if not stmts:
        return False
    last = stmts[-1]
    if isinstance(last, (ast.Return, ast.Raise)):
        return True
    if isinstance(last, ast.If):
        return _always_returns(last.body) and _always_returns(last.orelse)
    return False


def _names_bound(fnode):
    out = set()
    a = fnode.args
    for x in a.posonlyargs + a.args + a.kwonlyargs:
        out.add(x.arg)
    if a.vararg:
        out.add(a.vararg.arg)
    if a.kwarg:
        out.add(a.kwarg.arg)
    for n in ast.walk(fnode):
        if isinstance(n, ast.Name) and isinstance(n.ctx, (ast.Store, ast.Del)):
            out.add(n.id)
        elif isinstance(n, ast.ExceptHandler) and n.name:
            out.add(n.name)
    return out


def _names_used(node):
    return {n.id for n in ast.walk(node) if isinstance(n, ast.Name)}


class _Subst(ast.NodeTransformer):
    def __init__(self, mapping):
        self.mapping = mapping

    def visit_Name(self, node):
        if node.id in self.mapping and isinstance(node.ctx, ast.Load):
            return _clone(self.mapping[node.id])
        return node


class _Rename(ast.NodeTransformer):
    def __init__(self, mapping):
        self.mapping = mapping

    def visit_Name(self, node):
        if node.id in self.mapping:
            node.id = self.mapping[node.id]
        return node

    def visit_arg(self, node):
        if node.arg in self.mapping:
            node.arg = self.mapping[node.arg]
        return node

    def visit_ExceptHandler(self, node):
        if node.name in self.mapping:
            node.name = self.mapping[node.name]
        self.generic_visit(node)
        return node


def _simple_arg(e):
    """Expressions that may be substituted for a parameter at every use."""
    if isinstance(e, (ast.Name, ast.Constant)):
        return True
    if isinstance(e, ast.Attribute):
        return _simple_arg(e.value)
    if isinstance(e, ast.Subscript):
        return _simple_arg(e.value) and _simple_arg(e.slice)
    if isinstance(e, ast.UnaryOp) and isinstance(e.op, (ast.USub, ast.Not)):
        return _simple_arg(e.operand)
    if isinstance(e, (ast.Tuple, ast.List)):
        return all(_simple_arg(x) for x in e.elts)
    if isinstance(e, ast.Call) and isinstance(e.func, ast.Name) and e.func.id in ("len", "list", "set", "sorted", "tuple") and not e.keywords:
        return all(_simple_arg(x) for x in e.args)
    if isinstance(e, ast.BinOp):
        return _simple_arg(e.left) and _simple_arg(e.right)
    return False


# ------------------------------------------------------------------------------------------------ inlining
def _inlinable(ginfo):
    g = ginfo.node
    if g.args.vararg or g.args.kwarg:
        return False
    for d in g.decorator_list:
        if not (isinstance(d, ast.Name) and d.id in ("staticmethod", "classmethod")):
            return False
    body = _body_wo_doc(g)
    if not body or sum(1 for _ in ast.walk(g) if isinstance(_, ast.stmt)) > MAX_HELPER_STMTS:
        return False
    if _contains(body, (ast.Yield, ast.YieldFrom, ast.Await, ast.Global, ast.Nonlocal, ast.FunctionDef, ast.AsyncFunctionDef, ast.ClassDef)):
        return False
    for n in ast.walk(g):
        if isinstance(n, ast.Call) and isinstance(n.func, ast.Name) and n.func.id == g.name:
            return False
        if isinstance(n, ast.Call) and isinstance(n.func, ast.Attribute) and n.func.attr == g.name and isinstance(n.func.value, ast.Name) and n.func.value.id in ("self", "cls"):
            return False
    return True


def _convert_returns(stmts, make_assign):
    """Rewrite tail-position returns: `return E` -> make_assign(E) (or nothing); guard returns -> if/else.
    Returns the new statement list, or None when a return sits where this is not possible (inside a loop, try, with)."""
    out = []
    for i, s in enumerate(stmts):
        if isinstance(s, ast.Return):
            a = make_assign(s.value)
            if a is not None:
                out.append(a)
            return out
        if isinstance(s, ast.If) and _contains_return([s]):
            rest = stmts[i + 1 :]
            b_always, o_always = _always_returns(s.body), _always_returns(s.orelse)
            if b_always and o_always:
                nb, no = _convert_returns(s.body, make_assign), _convert_returns(s.orelse, make_assign)
            elif b_always and not _contains_return(s.orelse):
                nb, no = _convert_returns(s.body, make_assign), _convert_returns(list(s.orelse) + rest, make_assign)
            elif o_always and not _contains_return(s.body):
                nb, no = _convert_returns(list(s.body) + rest, make_assign), _convert_returns(s.orelse, make_assign)
            else:
                return None
            if nb is None or no is None:
                return None
            new = ast.If(test=s.test, body=nb or [ast.Pass()], orelse=no)
            ast.copy_location(new, s)
            out.append(new)
            return out
        if isinstance(s, ast.Try) and _contains_return([s]) and not _contains_return(s.finalbody):
            rest = stmts[i + 1 :]
            # every way through the try statement must end in a return / raise, or nothing may follow it
            parts_always = _always_returns(s.body) or (bool(s.orelse) and _always_returns(s.orelse))
            handlers_always = all(_always_returns(h.body) for h in s.handlers)
            if rest and not (parts_always and handlers_always):
                return None
            nb = _convert_returns(s.body, make_assign) if _contains_return(s.body) else list(s.body)
            no = _convert_returns(s.orelse, make_assign) if _contains_return(s.orelse) else list(s.orelse)
            nh = []
            for h in s.handlers:
                hb = _convert_returns(h.body, make_assign) if _contains_return(h.body) else list(h.body)
                if hb is None:
                    return None
                nh.append(ast.ExceptHandler(type=h.type, name=h.name, body=hb or [ast.Pass()]))
            if nb is None or no is None:
                return None
            new = ast.Try(body=nb or [ast.Pass()], handlers=nh, orelse=no, finalbody=list(s.finalbody))
            ast.copy_location(new, s)
            out.append(new)
            return out
        if _contains_return([s]):
            return None
        out.append(s)
    a = make_assign(None)
    if a is not None:
        out.append(a)
    return out


def _bind_params(ginfo, call, receiver_is_instance):
    """Map parameter name -> argument AST (None if the call does not fit the signature)."""
    g = ginfo.node
    params = [a.arg for a in g.args.posonlyargs + g.args.args]
    kwonly = [a.arg for a in g.args.kwonlyargs]
    is_static = any(isinstance(d, ast.Name) and d.id == "staticmethod" for d in g.decorator_list)
    mapping = {}
    if ginfo.cls is not None and not is_static:
        if not params:
            return None
        recv = call.func.value if isinstance(call.func, ast.Attribute) else None
        if recv is None:
            return None
        mapping[params[0]] = recv
        params = params[1:]
    if any(isinstance(a, ast.Starred) for a in call.args) or any(k.arg is None for k in call.keywords):
        return None
    if len(call.args) > len(params):
        return None
    for p, a in zip(params, call.args):
        mapping[p] = a
    for k in call.keywords:
        if k.arg in mapping or k.arg not in params + kwonly:
            return None
        mapping[k.arg] = k.value
    defaults = g.args.defaults
    for p, d in zip(params[len(params) - len(defaults) :], defaults):
        mapping.setdefault(p, d)
    for p, d in zip(kwonly, g.args.kw_defaults):
        if d is not None:
            mapping.setdefault(p, d)
    if any(p not in mapping for p in params + kwonly):
        return None
    return mapping


def _instantiate(ginfo, call, caller_names, target):
    """Statements that replace `target = call` (target may be None).  None if not possible."""
    g = ginfo.node
    mapping = _bind_params(ginfo, call, True)
    if mapping is None:
        return None
    body = _clone(_body_wo_doc(g))
    assigned_in_g = set()
    for s in body:
        for n in ast.walk(s):
            if isinstance(n, ast.Name) and isinstance(n.ctx, (ast.Store, ast.Del)):
                assigned_in_g.add(n.id)
    # locals of the helper that collide with names of the caller are renamed apart
    param_names = set(mapping)
    g_locals = assigned_in_g - param_names
    ren = {}
    for x in sorted(g_locals):
        if x in caller_names:
            k = x + "_" + g.name.strip("_")
            while k in caller_names or k in g_locals:
                k += "_"
            ren[x] = k
    pre = []
    subst = {}
    for p, a in mapping.items():
        if p in assigned_in_g or not _simple_arg(a):
            # bind through a local of the parameter's own name (renamed apart if needed)
            name = p
            if name in caller_names:
                name = p + "_" + g.name.strip("_")
                while name in caller_names:
                    name += "_"
            if name != p:
                ren[p] = name
            asg = ast.Assign(targets=[ast.Name(id=name, ctx=ast.Store())], value=_clone(a), type_comment=None)
            pre.append(asg)
        else:
            subst[p] = a
    holder = ast.Module(body=body, type_ignores=[])
    if ren:
        _Rename(ren).visit(holder)
    if subst:
        _Subst(subst).visit(holder)
    body = holder.body

    def make_assign(value):
        if target is None:
            if value is None or isinstance(value, (ast.Constant, ast.Name)):
                return None
            return ast.Expr(value=value)
        v = value if value is not None else ast.Constant(value=None)
        return ast.Assign(targets=[_clone(target)], value=v, type_comment=None)

    conv = _convert_returns(body, make_assign)
    if conv is None:
        return None
    new = pre + conv
    if not new:
        new = [ast.Pass()]
    _relocate(new, call)
    for s in new:
        ast.fix_missing_locations(s)
    return new


def _instantiate_generator(ginfo, for_stmt, caller_names, index_name=None):
    """Statements replacing `for T in gen(args): BODY` for a generator helper of the form
    [setup...] for X in ITER: [stmts without yield, may `continue`] yield E   -- the yield being the last statement of the loop body
    and nothing following the loop.  None if the helper is not of that form."""
    g = ginfo.node
    if g.args.vararg or g.args.kwarg or g.decorator_list and not all(isinstance(d, ast.Name) and d.id in ("staticmethod",) for d in g.decorator_list):
        return None
    body = _body_wo_doc(g)
    yields = [n for n in ast.walk(g) if isinstance(n, (ast.Yield, ast.YieldFrom))]
    if len(yields) != 1 or not isinstance(yields[0], ast.Yield) or yields[0].value is None:
        return None
    if _contains(body, (ast.Return, ast.Await, ast.Global, ast.Nonlocal, ast.FunctionDef, ast.AsyncFunctionDef, ast.ClassDef)):
        return None
    if not body or not isinstance(body[-1], (ast.For, ast.While)) or body[-1].orelse:
        return None
    loop = body[-1]

    def tail_block(stmts):
        """The statement list in which the yield is the last statement, if the yield is in tail position of `stmts`."""
        if not stmts:
            return None
        last = stmts[-1]
        if isinstance(last, ast.Expr) and isinstance(last.value, ast.Yield):
            return stmts
        if isinstance(last, ast.If):
            return tail_block(last.body) or tail_block(last.orelse)
        if isinstance(last, ast.For) and not last.orelse and not _contains(for_stmt.body, (ast.Break,)):
            # nested loops: every yield is still followed directly by the next iteration (a `break` of the consumer would
            # have to leave all of them, so consumers with break are not inlined)
            return tail_block(last.body)
        return None

    if tail_block(loop.body) is None or not any(x is yields[0] for x in ast.walk(loop)):
        return None
    if index_name is not None:
        # `for i, T in enumerate(gen(args))`: i counts the helper's iterations only if every iteration yields exactly once
        if not isinstance(loop, ast.For) or tail_block(loop.body) is not loop.body or _contains(loop.body, (ast.Continue, ast.Break)):
            return None
    if _contains(for_stmt.body, (ast.Break, ast.Return)) and False:
        return None
    # a `break` in the caller's body leaves the helper's loop: fine, nothing follows it in the helper
    mapping = _bind_params(ginfo, for_stmt.iter, True)
    if mapping is None:
        return None
    new_body = _clone(body)
    assigned_in_g = set()
    for st in new_body:
        for n in ast.walk(st):
            if isinstance(n, ast.Name) and isinstance(n.ctx, (ast.Store, ast.Del)):
                assigned_in_g.add(n.id)
    ren = {}
    for x in sorted(assigned_in_g - set(mapping)):
        if x in caller_names:
            k = x + "_" + g.name.strip("_")
            while k in caller_names:
                k += "_"
            ren[x] = k
    pre, subst = [], {}
    for p, a in mapping.items():
        if p in assigned_in_g or not _simple_arg(a):
            name = p
            if name in caller_names:
                name = p + "_" + g.name.strip("_")
                while name in caller_names:
                    name += "_"
            if name != p:
                ren[p] = name
            pre.append(ast.Assign(targets=[ast.Name(id=name, ctx=ast.Store())], value=_clone(a), type_comment=None))
        else:
            subst[p] = a
    holder = ast.Module(body=new_body, type_ignores=[])
    if ren:
        _Rename(ren).visit(holder)
    if subst:
        _Subst(subst).visit(holder)
    new_body = holder.body
    nloop = new_body[-1]

    def tail_block2(stmts):
        if not stmts:
            return None
        last = stmts[-1]
        if isinstance(last, ast.Expr) and isinstance(last.value, ast.Yield):
            return stmts
        if isinstance(last, ast.If):
            return tail_block2(last.body) or tail_block2(last.orelse)
        if isinstance(last, ast.For) and not last.orelse:
            return tail_block2(last.body)
        return None

    tb = tail_block2(nloop.body)
    yexpr = tb[-1].value.value
    bind = ast.Assign(targets=[_clone(for_stmt.target)], value=yexpr, type_comment=None)
    for n in ast.walk(bind.targets[0]):
        if hasattr(n, "ctx"):
            n.ctx = ast.Store()
    tb[-1:] = [bind] + list(for_stmt.body)
    if index_name is not None:
        nloop.target = ast.Tuple(elts=[ast.Name(id=index_name, ctx=ast.Store()), nloop.target], ctx=ast.Store())
        nloop.iter = ast.Call(func=ast.Name(id="enumerate", ctx=ast.Load()), args=[nloop.iter], keywords=[])
    out = pre + new_body
    _relocate([x for x in pre], for_stmt)
    for st in out:
        ast.fix_missing_locations(st)
    return out


def _single_return_expr(ginfo):
    body = _body_wo_doc(ginfo.node)
    if len(body) == 1 and isinstance(body[0], ast.Return) and body[0].value is not None:
        return body[0].value
    return None


def _inline_in_function(prog, fi, is_new, stats):
    """One round of inlining inside function fi; returns number of call sites inlined."""
    done = 0
    caller_names = _names_bound(fi.node) | _names_used(fi.node)

    def targets_of(call):
        try:
            tg, how = prog.resolve_call(call, fi)
        except Exception:
            return None
        if len(tg) != 1 or how in ("class", "by-name-ambiguous", "unknown"):
            return None
        g = tg[0]
        if g is fi or not is_new(g) or g.module.kind not in ("py", "pyx"):
            return None
        if g.qual.startswith(fi.qual + "."):
            # a local def (closure): its free variables are the caller's locals at call time, which is what inlining at the
            # call site reads as well; only plain closures that are called directly
            if _contains(g.node.body, (ast.Nonlocal, ast.Global)) or g.qual.count(".") != fi.qual.count(".") + 1:
                return None
            refs = [x for x in ast.walk(fi.node) if isinstance(x, ast.Name) and x.id == g.node.name and isinstance(x.ctx, ast.Load)]
            if any(not (isinstance(getattr(x, "parent", None), ast.Call) and x.parent.func is x) for x in refs):
                return None
        if not _inlinable(g):
            return None
        return g

    hoist_counter = [0]

    def hoist_nested(s):
        """`f(helper(a).m())` -> `_inl1 = helper(a); f(_inl1.m())` for a new multi-statement helper called once, unconditionally,
        inside a simple statement (no lambda / comprehension / short-circuit / conditional expression on the way)."""
        if isinstance(s, ast.If):
            top = s.test
        elif isinstance(s, (ast.Expr, ast.Assign, ast.Return, ast.AugAssign, ast.AnnAssign)):
            top = s.value
        else:
            return None
        if top is None or (isinstance(top, ast.Call) and targets_of(top) is not None and isinstance(s, (ast.Expr, ast.Assign, ast.Return))):
            return None
        found = []
        root_ = s if not isinstance(s, ast.If) else ast.Expr(value=s.test)
        if isinstance(s, ast.If):
            root_.value.parent = root_

        def walk(n, safe):
            for c in ast.iter_child_nodes(n):
                if isinstance(c, (ast.Lambda, ast.ListComp, ast.SetComp, ast.DictComp, ast.GeneratorExp)):
                    continue
                # the first operand of and/or and the test of a conditional expression are always evaluated
                if isinstance(n, ast.BoolOp):
                    csafe = safe and c is n.values[0]
                elif isinstance(n, ast.IfExp):
                    csafe = safe and c is n.test
                else:
                    csafe = safe
                if isinstance(c, ast.Call):
                    g_ = targets_of(c)
                    if g_ is not None and _single_return_expr(g_) is None:
                        found.append((c, n, csafe))
                walk(c, csafe)

        walk(root_, True)
        if len(found) != 1 or not found[0][2]:
            return None
        call, parent, _ = found[0]
        if isinstance(s, ast.If) and parent is root_:
            parent = s  # the call is the whole test
        hoist_counter[0] += 1
        tmp = "_inl%d_%s" % (hoist_counter[0], targets_of(call).node.name.strip("_"))
        while tmp in caller_names:
            tmp += "_"
        caller_names.add(tmp)
        asg = ast.Assign(targets=[ast.Name(id=tmp, ctx=ast.Store())], value=call, type_comment=None)
        ast.copy_location(asg, s)
        ref_ = ast.Name(id=tmp, ctx=ast.Load())
        ast.copy_location(ref_, call)
        if parent is s and isinstance(s, ast.If):
            s.test = ref_
        else:
            for f in parent._fields:
                v = getattr(parent, f, None)
                if v is call:
                    setattr(parent, f, ref_)
                elif isinstance(v, list):
                    for k, x in enumerate(v):
                        if x is call:
                            v[k] = ref_
        ast.fix_missing_locations(asg)
        return asg

    brought = {}

    def rewrite_block(stmts):
        nonlocal done
        i = 0
        while i < len(stmts):
            s = stmts[i]
            pre_ = hoist_nested(s)
            if pre_ is not None:
                stmts.insert(i, pre_)
                s = pre_
            repl = None
            if isinstance(s, ast.Expr) and isinstance(s.value, ast.Call):
                g = targets_of(s.value)
                if g is not None:
                    repl = _instantiate(g, s.value, caller_names | brought.get(g.qual, set()), None)
            elif isinstance(s, ast.Assign) and len(s.targets) == 1 and isinstance(s.value, ast.Call):
                g = targets_of(s.value)
                if g is not None:
                    repl = _instantiate(g, s.value, caller_names | brought.get(g.qual, set()), s.targets[0])
            elif isinstance(s, ast.Return) and isinstance(s.value, ast.Call):
                g = targets_of(s.value)
                if g is not None and _single_return_expr(g) is None:
                    tmp = "_ret_" + g.node.name.strip("_")
                    r = _instantiate(g, s.value, caller_names | brought.get(g.qual, set()), ast.Name(id=tmp, ctx=ast.Store()))
                    if r is not None:
                        ret = ast.Return(value=ast.Name(id=tmp, ctx=ast.Load()))
                        ast.copy_location(ret, s)
                        ast.fix_missing_locations(ret)
                        repl = r + [ret]
            if repl is not None:
                stmts[i : i + 1] = repl
                # the names this instance brought in are taken for the NEXT instance of the same helper (two instances of one
                # helper must not share their locals; different helpers may well use the caller's original names)
                for st_ in repl:
                    for x_ in ast.walk(st_):
                        if isinstance(x_, ast.Name) and isinstance(x_.ctx, (ast.Store, ast.Del)):
                            brought.setdefault(g.qual, set()).add(x_.id)
                stats.setdefault(fi.qual, []).append(g.qual)
                stats.setdefault("#inlined", set()).add(g.qual)
                done += 1
                i += len(repl)
                continue
            for f in ("body", "orelse", "finalbody"):
                sub = getattr(s, f, None)
                if isinstance(sub, list) and sub and isinstance(sub[0], ast.stmt):
                    rewrite_block(sub)
            for h in getattr(s, "handlers", []) or []:
                rewrite_block(h.body)
            i += 1

    rewrite_block(fi.node.body)

    # generator helpers: `for T in gen(args): BODY` where the new helper is a loop whose body ends in its only `yield E`
    # becomes the helper's code with `T = E; BODY` in place of the yield
    def gen_inline(stmts):
        nonlocal done
        i = 0
        while i < len(stmts):
            s = stmts[i]
            s_real, idx_name = s, None
            if isinstance(s, ast.For) and not s.orelse and isinstance(s.iter, ast.Call) and isinstance(s.iter.func, ast.Name) and s.iter.func.id == "enumerate" and len(s.iter.args) == 1 and not s.iter.keywords and isinstance(s.iter.args[0], ast.Call) and isinstance(s.target, ast.Tuple) and len(s.target.elts) == 2 and isinstance(s.target.elts[0], ast.Name):
                # for i, T in enumerate(gen(args)): read as `for T in gen(args)` with the index handed to the helper's loop
                idx_name = s.target.elts[0].id
                s = ast.For(target=s.target.elts[1], iter=s.iter.args[0], body=s.body, orelse=[], type_comment=None)
                ast.copy_location(s, s_real)
            if isinstance(s, ast.For) and not s.orelse and isinstance(s.iter, ast.Call):
                try:
                    tg, how = prog.resolve_call(s.iter, fi)
                except Exception:
                    tg, how = [], "unknown"
                g = tg[0] if len(tg) == 1 and how not in ("class", "by-name-ambiguous", "unknown") else None
                if g is not None and g.qual.startswith(fi.qual + ".") and (_contains(g.node.body, (ast.Nonlocal, ast.Global)) or g.qual.count(".") != fi.qual.count(".") + 1):
                    g = None  # a closure that rebinds the caller's names is left alone
                if g is not None and g is not fi and is_new(g) and g.module.kind in ("py", "pyx"):
                    repl = _instantiate_generator(g, s, caller_names, index_name=idx_name)
                    if repl is not None:
                        stmts[i : i + 1] = repl
                        stats.setdefault(fi.qual, []).append(g.qual)
                        stats.setdefault("#inlined", set()).add(g.qual)
                        done += 1
                        i += len(repl)
                        continue
            s = s_real
            for f in ("body", "orelse", "finalbody"):
                sub = getattr(s, f, None)
                if isinstance(sub, list) and sub and isinstance(sub[0], ast.stmt):
                    gen_inline(sub)
            for h in getattr(s, "handlers", []) or []:
                gen_inline(h.body)
            i += 1

    gen_inline(fi.node.body)

    # `return list(gen(args))` / `X = list(gen(args))` with a new generator helper that only yields (no return): the helper's
    # body with an accumulator in place of the yields
    def list_of_generator(stmts):
        nonlocal done
        i = 0
        while i < len(stmts):
            s = stmts[i]
            v = s.value if isinstance(s, (ast.Return, ast.Assign)) else None
            if isinstance(v, ast.Call) and isinstance(v.func, ast.Name) and v.func.id == "list" and len(v.args) == 1 and not v.keywords and isinstance(v.args[0], ast.Call) and (isinstance(s, ast.Return) or (len(s.targets) == 1 and isinstance(s.targets[0], ast.Name))):
                call = v.args[0]
                try:
                    tg, how = prog.resolve_call(call, fi)
                except Exception:
                    tg, how = [], "unknown"
                g = tg[0] if len(tg) == 1 and how not in ("class", "by-name-ambiguous", "unknown") else None
                if g is not None and g is not fi and is_new(g) and g.module.kind in ("py", "pyx") and not g.node.args.vararg and not g.node.args.kwarg:
                    body = _body_wo_doc(g.node)
                    ys = [n for st in body for n in ast.walk(st) if isinstance(n, (ast.Yield, ast.YieldFrom))]
                    plain = all(isinstance(getattr(y, "parent", None), ast.Expr) and isinstance(y, ast.Yield) and y.value is not None for y in ys)
                    mapping = _bind_params(g, call, True)
                    if ys and plain and mapping is not None and not _contains(body, (ast.Return, ast.Await, ast.Global, ast.Nonlocal, ast.FunctionDef, ast.AsyncFunctionDef, ast.ClassDef)) and all(_simple_arg(a) for a in mapping.values()):
                        assigned = {n.id for st in body for n in ast.walk(st) if isinstance(n, ast.Name) and isinstance(n.ctx, (ast.Store, ast.Del))}
                        if not (assigned & set(mapping)):
                            acc = s.targets[0].id if isinstance(s, ast.Assign) else "collected_" + g.node.name.strip("_")
                            ren = {}
                            for x in sorted(assigned):
                                if x in caller_names or x == acc:
                                    k = x + "_" + g.node.name.strip("_")
                                    while k in caller_names:
                                        k += "_"
                                    ren[x] = k
                            new_body = _clone(body)
                            holder = ast.Module(body=new_body, type_ignores=[])
                            if ren:
                                _Rename(ren).visit(holder)
                            _Subst(mapping).visit(holder)

                            class Y(ast.NodeTransformer):
                                def visit_Expr(self, node):
                                    if isinstance(node.value, ast.Yield):
                                        new = ast.Expr(value=ast.Call(func=ast.Attribute(value=ast.Name(id=acc, ctx=ast.Load()), attr="append", ctx=ast.Load()), args=[node.value.value], keywords=[]))
                                        return ast.copy_location(new, node)
                                    return node

                            Y().visit(holder)
                            init = ast.Assign(targets=[ast.Name(id=acc, ctx=ast.Store())], value=ast.List(elts=[], ctx=ast.Load()), type_comment=None)
                            repl = [init] + holder.body
                            if isinstance(s, ast.Return):
                                repl.append(ast.Return(value=ast.Name(id=acc, ctx=ast.Load())))
                            for st in repl:
                                ast.copy_location(st, s)
                                ast.fix_missing_locations(st)
                            stmts[i : i + 1] = repl
                            stats.setdefault(fi.qual, []).append(g.qual)
                            stats.setdefault("#inlined", set()).add(g.qual)
                            done += 1
                            i += len(repl)
                            continue
            for f in ("body", "orelse", "finalbody"):
                sub = getattr(s, f, None)
                if isinstance(sub, list) and sub and isinstance(sub[0], ast.stmt):
                    list_of_generator(sub)
            for h in getattr(s, "handlers", []) or []:
                list_of_generator(h.body)
            i += 1

    set_parents(fi.node)
    for g_ in {id(x): x for x in prog.functions.values() if is_new(x)}.values():
        set_parents(g_.node)
    list_of_generator(fi.node.body)

    # expression-level: helpers that are a single `return <expr>`
    class ExprInline(ast.NodeTransformer):
        def visit_FunctionDef(self, node):
            if node is fi.node:
                self.generic_visit(node)
            return node

        def visit_Lambda(self, node):
            return node

        def visit_Call(self, node):
            self.generic_visit(node)
            nonlocal done
            g = targets_of(node)
            if g is None:
                return node
            e = _single_return_expr(g)
            if e is None:
                return node
            mapping = _bind_params(g, node, True)
            if mapping is None:
                return node
            # every parameter must be substitutable (simple argument, or used at most once in the expression)
            uses = {}
            for n in ast.walk(e):
                if isinstance(n, ast.Name) and n.id in mapping:
                    uses[n.id] = uses.get(n.id, 0) + 1
            for p, a in mapping.items():
                if not _simple_arg(a) and uses.get(p, 0) > 1:
                    return node
            new = _clone(e)
            # comprehension variables of the helper that collide with caller names are renamed apart
            ren = {}
            for n in ast.walk(new):
                if isinstance(n, ast.Name) and isinstance(n.ctx, ast.Store) and n.id in caller_names and n.id not in mapping:
                    ren[n.id] = n.id + "_" + g.node.name.strip("_")
            holder = ast.Expression(body=new)
            if ren:
                _Rename(ren).visit(holder)
            _Subst(mapping).visit(holder)
            new = holder.body
            _relocate(new, node)
            ast.fix_missing_locations(new)
            stats.setdefault(fi.qual, []).append(g.qual)
            stats.setdefault("#inlined", set()).add(g.qual)
            done += 1
            return new

    ExprInline().visit(fi.node)

    # a new single-expression helper passed as a callable (`key=helper`) is the lambda it abbreviates
    base_mod = fi.module.name.replace("#pxd", "")
    for n in list(ast.walk(fi.node)):
        if not isinstance(n, ast.Call):
            continue
        slots = [(n.args, i) for i in range(len(n.args))] + [(k, "value") for k in n.keywords]
        for holder, key in slots:
            v = holder[key] if isinstance(holder, list) else getattr(holder, key)
            if not isinstance(v, ast.Name):
                continue
            g = prog.functions.get(base_mod + "." + v.id)
            if g is None or not is_new(g) or g.cls is not None or not _inlinable(g):
                continue
            e = _single_return_expr(g)
            if e is None or g.node.args.defaults or g.node.args.kwonlyargs:
                continue
            lam = ast.Lambda(args=ast.arguments(posonlyargs=[], args=[ast.arg(arg=a.arg, annotation=None) for a in g.node.args.args], vararg=None, kwonlyargs=[], kw_defaults=[], kwarg=None, defaults=[]), body=_clone(e))
            _relocate(lam, v)
            ast.fix_missing_locations(lam)
            if isinstance(holder, list):
                holder[key] = lam
            else:
                setattr(holder, key, lam)
            stats.setdefault(fi.qual, []).append(g.qual)
            stats.setdefault("#inlined", set()).add(g.qual)
            done += 1
    return done


# ------------------------------------------------------------------------------------------------ temporaries
_PURE_CALLS = {"len", "int", "float", "str", "bool", "abs", "min", "max", "sum", "any", "all", "tuple", "frozenset", "isinstance", "divmod", "round", "ord", "chr", "range", "enumerate", "zip"}


_MUTATING_METHODS = ("append", "extend", "insert", "remove", "pop", "clear", "sort", "reverse", "add", "discard", "update", "setdefault", "popitem", "push_back", "pop_back", "erase", "swap", "resize")


def _value_like(e):
    """Expressions whose repeated evaluation yields interchangeable (immutable or aliased) values."""
    if isinstance(e, (ast.Name, ast.Constant)):
        return True
    if isinstance(e, ast.Attribute):
        return _value_like(e.value)
    if isinstance(e, ast.Subscript):
        return _value_like(e.value) and (_value_like(e.slice) if not isinstance(e.slice, ast.Slice) else False)
    if isinstance(e, (ast.BinOp,)):
        return _value_like(e.left) and _value_like(e.right)
    if isinstance(e, ast.UnaryOp):
        return _value_like(e.operand)
    if isinstance(e, ast.BoolOp):
        return all(_value_like(v) for v in e.values)
    if isinstance(e, ast.Compare):
        return _value_like(e.left) and all(_value_like(c) for c in e.comparators)
    if isinstance(e, ast.IfExp):
        return _value_like(e.test) and _value_like(e.body) and _value_like(e.orelse)
    if isinstance(e, ast.Tuple):
        return all(_value_like(x) for x in e.elts)
    if isinstance(e, ast.Call) and isinstance(e.func, ast.Name) and e.func.id == "addressof" and len(e.args) == 1 and not e.keywords:
        return _value_like(e.args[0])  # Cython `&x`: an alias of the lvalue x
    if isinstance(e, ast.Call) and isinstance(e.func, ast.Name) and e.func.id in _PURE_CALLS and not e.keywords:
        return all(_value_like(a) or isinstance(a, (ast.GeneratorExp,)) for a in e.args)
    if isinstance(e, ast.Call) and isinstance(e.func, ast.Attribute) and e.func.attr in ("is_homozygous", "is_none", "is_snv", "as_vector", "get", "keys", "values", "items", "index", "count", "startswith", "endswith") and not e.keywords:
        return _value_like(e.func.value) and all(_value_like(a) for a in e.args)
    return False


def _is_mutated_use(un):
    """Is this Load of a temporary the receiver of a method call / the root of a store target?"""
    p = getattr(un, "parent", None)
    if isinstance(p, ast.Attribute) and isinstance(getattr(p, "parent", None), ast.Call) and p.parent.func is p:
        return True
    if isinstance(p, (ast.Attribute, ast.Subscript)) and isinstance(getattr(p, "ctx", None), (ast.Store, ast.Del)):
        return True
    return False


def _coalesce_copies(fi, ref_locals, stats):
    """`R = T` where T is a new temporary that is dead afterwards and R has no other binding: T is R under another
    name (typical after inlining a helper that returns its accumulator).  Rename T to R and drop the copy."""
    fnode = fi.node
    done = 0
    for _ in range(8):
        set_parents(fnode)
        bound = _names_bound(fnode)
        params = {a.arg for a in fnode.args.posonlyargs + fnode.args.args + fnode.args.kwonlyargs}
        hit = None
        for n in walk_function(fnode):
            if isinstance(n, ast.Assign) and len(n.targets) == 1 and isinstance(n.targets[0], ast.Name) and isinstance(n.value, ast.Name):
                R, T = n.targets[0].id, n.value.id
                if T in ref_locals or T in params or T == R or T not in bound:
                    continue
                r_stores = [x for x in ast.walk(fnode) if isinstance(x, ast.Name) and x.id == R and isinstance(x.ctx, (ast.Store, ast.Del))]
                if len(r_stores) != 1:
                    continue
                blk, _o = _block_of(n)
                if blk is None:
                    continue
                i = [k for k, x in enumerate(blk) if x is n][0]
                # T is dead after the copy and R does not exist before it: in pre-order every occurrence of T precedes the copy
                # statement, every occurrence of R follows it, and the uses of R lie in the copy's own block (after it)
                order = {}
                stack_ = [fnode]
                k_ = 0
                while stack_:
                    x_ = stack_.pop()
                    order[id(x_)] = k_
                    k_ += 1
                    stack_.extend(reversed(list(ast.iter_child_nodes(x_))))
                here = order[id(n)]
                occ = [x for x in ast.walk(fnode) if isinstance(x, ast.Name) and x.id == T and x is not n.value]
                if not occ or not all(order[id(x)] < here for x in occ):
                    continue
                r_occ = [x for x in ast.walk(fnode) if isinstance(x, ast.Name) and x.id == R and x is not n.targets[0]]
                later = set()
                for st_ in blk[i + 1 :]:
                    for x in ast.walk(st_):
                        later.add(id(x))
                if not all(id(x) in later for x in r_occ):
                    continue
                hit = (n, R, T, blk)
                break
        if hit is None:
            break
        n, R, T, blk = hit
        for x in ast.walk(fnode):
            if isinstance(x, ast.Name) and x.id == T:
                x.id = R
        blk.remove(n)
        stats.setdefault("#coalesced", []).append("%s:%s->%s" % (fi.qual, T, R))
        done += 1
    return done


def _merge_accumulators(fi, ref_locals, stats):
    """`T = set(); ... T.add(e) ...; X |= T` (T new, used for nothing else) is `X.add(e)` at the same places."""
    fnode = fi.node
    done = 0
    for _ in range(8):
        set_parents(fnode)
        params = {a.arg for a in fnode.args.posonlyargs + fnode.args.args + fnode.args.kwonlyargs}
        hit = None
        for n in walk_function(fnode):
            if not (isinstance(n, ast.Assign) and len(n.targets) == 1 and isinstance(n.targets[0], ast.Name)):
                continue
            T = n.targets[0].id
            if T in ref_locals or T in params:
                continue
            v = n.value
            kind = None
            if isinstance(v, ast.Call) and isinstance(v.func, ast.Name) and v.func.id == "set" and not v.args:
                kind = "set"
            elif isinstance(v, ast.List) and not v.elts:
                kind = "list"
            if kind is None:
                continue
            if len([x for x in ast.walk(fnode) if isinstance(x, ast.Name) and x.id == T and isinstance(x.ctx, ast.Store)]) != 1:
                continue
            blk, _o = _block_of(n)
            if blk is None:
                continue
            i = [k for k, x in enumerate(blk) if x is n][0]
            adds, merges, other = [], [], []
            for x in ast.walk(fnode):
                if isinstance(x, ast.Name) and x.id == T and isinstance(x.ctx, ast.Load):
                    p = x.parent
                    gp = getattr(p, "parent", None)
                    if isinstance(p, ast.Attribute) and p.attr == ("add" if kind == "set" else "append") and isinstance(gp, ast.Call) and gp.func is p and isinstance(getattr(gp, "parent", None), ast.Expr):
                        adds.append(gp)
                    elif isinstance(p, ast.AugAssign) and p.value is x and isinstance(p.target, ast.Name) and isinstance(p.op, ast.BitOr if kind == "set" else ast.Add):
                        merges.append(p)
                    elif isinstance(p, ast.Call) and isinstance(p.func, ast.Attribute) and p.func.attr == ("update" if kind == "set" else "extend") and p.args == [x] and isinstance(p.func.value, ast.Name) and isinstance(getattr(p, "parent", None), ast.Expr):
                        merges.append(p.parent)
                    else:
                        other.append(x)
            if other or len(merges) != 1 or not adds:
                continue
            mg = merges[0]
            if not any(x is mg for x in blk[i + 1 :]):
                continue
            # all adds happen between the initialisation and the merge
            between = set()
            for st_ in blk[i + 1 : [k for k, x in enumerate(blk) if x is mg][0]]:
                for x in ast.walk(st_):
                    between.add(id(x))
            if not all(id(a) in between for a in adds):
                continue
            X = mg.target.id if isinstance(mg, ast.AugAssign) else mg.value.func.value.id
            if X == T:
                continue
            hit = (n, mg, adds, X, T, blk)
            break
        if hit is None:
            break
        n, mg, adds, X, T, blk = hit
        for a in adds:
            a.func.value.id = X
        blk.remove(n)
        blk.remove(mg)
        stats.setdefault("#accumulators", []).append("%s:%s->%s" % (fi.qual, T, X))
        done += 1
    return done


def _stmt_of(node):
    n = node
    while n is not None and not isinstance(n, ast.stmt):
        n = getattr(n, "parent", None)
    return n


def _block_of(stmt):
    p = getattr(stmt, "parent", None)
    if p is None:
        return None, None
    for f in ("body", "orelse", "finalbody"):
        b = getattr(p, f, None)
        if isinstance(b, list) and any(x is stmt for x in b):
            return b, p
    if isinstance(p, ast.ExceptHandler) and any(x is stmt for x in p.body):
        return p.body, p
    return None, None


def _split_tuple_assignments(fnode, new_locals):
    """`a, b = x, y` with new temporaries -> `a = x; b = y` when no element reads a target of the statement."""
    changed = False
    for n in list(walk_function(fnode)):
        if isinstance(n, ast.Assign) and len(n.targets) == 1 and isinstance(n.targets[0], (ast.Tuple, ast.List)) and isinstance(n.value, (ast.Tuple, ast.List)) and len(n.targets[0].elts) == len(n.value.elts):
            tg = n.targets[0].elts
            if not all(isinstance(t, ast.Name) for t in tg):
                continue
            # only statements that involve a new temporary (as target or as copied value) are taken apart
            if not (any(t.id in new_locals for t in tg) or any(isinstance(v, ast.Name) and v.id in new_locals for v in n.value.elts)):
                continue
            tnames = {t.id for t in tg}
            if any(tnames & _names_used(v) for v in n.value.elts):
                continue
            blk, _ = _block_of(n)
            if blk is None:
                continue
            i = [k for k, x in enumerate(blk) if x is n][0]
            new = []
            for t, v in zip(tg, n.value.elts):
                a = ast.Assign(targets=[t], value=v, type_comment=None)
                ast.copy_location(a, n)
                new.append(a)
            blk[i : i + 1] = new
            changed = True
    return changed


def _distribute_ifexp_calls(fi, ref_locals, stats):
    """`(F if c else G)(args)` with F and G plain names that the reference version of the function does not have is
    `F(args) if c else G(args)`: exactly one of the two is called either way, with the same arguments."""
    done = 0

    class T(ast.NodeTransformer):
        def visit_Call(self, node):
            nonlocal done
            self.generic_visit(node)
            f = node.func
            if isinstance(f, ast.IfExp) and isinstance(f.body, ast.Name) and isinstance(f.orelse, ast.Name) and f.body.id not in ref_locals and f.orelse.id not in ref_locals:
                done += 1
                a = ast.Call(func=f.body, args=node.args, keywords=node.keywords)
                b = ast.Call(func=f.orelse, args=_clone(node.args), keywords=_clone(node.keywords))
                new = ast.IfExp(test=f.test, body=a, orelse=b)
                ast.copy_location(new, node)
                ast.copy_location(a, node)
                ast.copy_location(b, node)
                return new
            return node

    T().visit(fi.node)
    if done:
        ast.fix_missing_locations(fi.node)
        stats.setdefault("#ifexp_calls", []).append("%s:%d" % (fi.qual, done))
    return done


def _defs_of(fnode, name):
    """Values of the plain bindings `name = value` / `name: T = value` of a function (other kinds of binding yield None)."""
    out = []
    for n in walk_function(fnode):
        if isinstance(n, ast.Assign):
            for t in n.targets:
                if isinstance(t, ast.Name) and t.id == name:
                    out.append(n.value)
                elif any(isinstance(x, ast.Name) and x.id == name for x in ast.walk(t)) and not isinstance(t, (ast.Attribute, ast.Subscript)):
                    out.append(None)
        elif isinstance(n, ast.AnnAssign) and isinstance(n.target, ast.Name) and n.target.id == name and n.value is not None:
            out.append(n.value)
        elif isinstance(n, (ast.For, ast.AugAssign)) and any(isinstance(x, ast.Name) and x.id == name and isinstance(x.ctx, ast.Store) for x in ast.walk(n.target)):
            out.append(None)
    return out


def _unfold_update_generators(fi, ref_fingerprints, stats):
    """A new statement `D.update((K, V) for T in IT [if C])` (D a name) is the loop `for T in IT: [if C:] D[K] = V`."""
    from . import alpha

    locs = alpha.local_names(fi.node)
    done = 0
    for n in list(walk_function(fi.node)):
        if not (isinstance(n, ast.Expr) and isinstance(n.value, ast.Call)):
            continue
        c = n.value
        if not (isinstance(c.func, ast.Attribute) and c.func.attr == "update" and isinstance(c.func.value, ast.Name) and len(c.args) == 1 and not c.keywords and isinstance(c.args[0], (ast.GeneratorExp, ast.ListComp)) and len(c.args[0].generators) == 1):
            continue
        g = c.args[0]
        if g.generators[0].is_async:
            continue
        is_set = False
        if not (isinstance(g.elt, ast.Tuple) and len(g.elt.elts) == 2):
            # S.update(E for ..) on a local that is only ever bound to a set: the loop `for ..: S.add(E)`
            ds = [v_ for v_ in _defs_of(fi.node, c.func.value.id)]
            is_set = bool(ds) and all(isinstance(v_, (ast.Set, ast.SetComp)) or (isinstance(v_, ast.Call) and isinstance(v_.func, ast.Name) and v_.func.id in ("set",)) for v_ in ds)
            if not is_set:
                continue
        if alpha._fingerprint(n, locs)[0] in ref_fingerprints:
            continue
        blk, _p = _block_of(n)
        if blk is None:
            continue
        if is_set:
            store = ast.Expr(value=ast.Call(func=ast.Attribute(value=ast.Name(id=c.func.value.id, ctx=ast.Load()), attr="add", ctx=ast.Load()), args=[g.elt], keywords=[]))
        else:
            store = ast.Assign(targets=[ast.Subscript(value=ast.Name(id=c.func.value.id, ctx=ast.Load()), slice=g.elt.elts[0], ctx=ast.Store())], value=g.elt.elts[1], type_comment=None)
        body = [store]
        for cond in reversed(g.generators[0].ifs):
            body = [ast.If(test=cond, body=body, orelse=[])]
        tgt = _clone(g.generators[0].target)
        for x in ast.walk(tgt):
            if hasattr(x, "ctx"):
                x.ctx = ast.Store()
        loop = ast.For(target=tgt, iter=g.generators[0].iter, body=body, orelse=[], type_comment=None)
        ast.copy_location(loop, n)
        ast.fix_missing_locations(loop)
        blk[[k for k, x in enumerate(blk) if x is n][0]] = loop
        done += 1
    if done:
        stats.setdefault("#update_generators", []).append("%s:%d" % (fi.qual, done))
    return done


def _merge_dataclass_replace(fi, ref_locals, stats):
    """`T = Cls(a=.., b=..)` (T new, bound once, keyword arguments only, never mutated) followed by `dataclasses.replace(T,
    c=.., a=..)` is `Cls(a=<the later value>, b=.., c=..)`; a plain `return T` returns `Cls(a=.., b=..)`.  Every use builds its
    own object, which nothing can tell apart because T is never stored or changed."""
    done = 0
    fnode = fi.node
    for n in list(walk_function(fnode)):
        if not (isinstance(n, ast.Assign) and len(n.targets) == 1 and isinstance(n.targets[0], ast.Name)):
            continue
        T = n.targets[0].id
        v = n.value
        if T in ref_locals or not (isinstance(v, ast.Call) and not v.args and v.keywords and all(k.arg for k in v.keywords) and isinstance(v.func, (ast.Name, ast.Attribute))):
            continue
        if not all(_value_like(k.value) for k in v.keywords):
            continue
        stores = [x for x in ast.walk(fnode) if isinstance(x, ast.Name) and x.id == T and isinstance(x.ctx, (ast.Store, ast.Del))]
        loads = [x for x in ast.walk(fnode) if isinstance(x, ast.Name) and x.id == T and isinstance(x.ctx, ast.Load)]
        if len(stores) != 1 or not loads:
            continue
        uses = []
        for x in loads:
            p = getattr(x, "parent", None)
            if isinstance(p, ast.Return) and p.value is x:
                uses.append(("ret", p))
            elif isinstance(p, ast.Call) and p.args and p.args[0] is x and len(p.args) == 1 and all(k.arg for k in p.keywords) and ((isinstance(p.func, ast.Attribute) and p.func.attr == "replace" and isinstance(p.func.value, ast.Name) and p.func.value.id == "dataclasses") or (isinstance(p.func, ast.Name) and p.func.id == "replace")):
                uses.append(("replace", p))
            else:
                uses = None
                break
        if not uses or not any(k == "replace" for k, _ in uses):
            continue
        # the values are read where T was built: nothing they mention may be rebound between there and the use (single block check:
        # every name in the values has exactly one binding in the function, or is a parameter / attribute of self)
        bound = {}
        for x in ast.walk(fnode):
            if isinstance(x, ast.Name) and isinstance(x.ctx, (ast.Store, ast.Del)):
                bound[x.id] = bound.get(x.id, 0) + 1
        if any(bound.get(x.id, 0) > 1 for k in v.keywords for x in ast.walk(k.value) if isinstance(x, ast.Name)):
            continue
        for kind, p in uses:
            if kind == "ret":
                p.value = _clone(v)
            else:
                over = {k.arg: k.value for k in p.keywords}
                kws = [ast.keyword(arg=k.arg, value=over.pop(k.arg) if k.arg in over else _clone(k.value)) for k in v.keywords]
                kws += [ast.keyword(arg=a, value=val) for a, val in over.items()]
                p.func = _clone(v.func)
                p.args = []
                p.keywords = kws
            ast.fix_missing_locations(p)
        blk, _p = _block_of(n)
        if blk is not None:
            blk.remove(n)
        done += 1
    if done:
        stats.setdefault("#dataclass_replace", []).append("%s:%d" % (fi.qual, done))
    return done


def _dict_key_loops_to_items(fi, ref_fingerprints, stats):
    """A new `for K in sorted(D): V = D[K]; BODY` (also `for K in D:`; D a name that BODY does not rebind or store into, K and V not
    rebound in BODY) is `for K, V in sorted(D.items()): BODY`: the keys are distinct, so sorting the items never compares values."""
    from . import alpha

    locs = alpha.local_names(fi.node)
    done = 0
    for n in list(walk_function(fi.node)):
        if not (isinstance(n, ast.For) and not n.orelse and isinstance(n.target, ast.Name) and n.body):
            continue
        it = n.iter
        srt = isinstance(it, ast.Call) and isinstance(it.func, ast.Name) and it.func.id == "sorted" and len(it.args) == 1 and not it.keywords
        dn = it.args[0] if srt else it
        if isinstance(dn, ast.Call) and isinstance(dn.func, ast.Attribute) and dn.func.attr == "keys" and not dn.args:
            dn = dn.func.value
        if not isinstance(dn, ast.Name):
            continue
        first = n.body[0]
        if not (isinstance(first, ast.Assign) and len(first.targets) == 1 and isinstance(first.targets[0], ast.Name) and isinstance(first.value, ast.Subscript) and isinstance(first.value.value, ast.Name) and first.value.value.id == dn.id and isinstance(first.value.slice, ast.Name) and first.value.slice.id == n.target.id):
            continue
        K, V, D = n.target.id, first.targets[0].id, dn.id
        rest = n.body[1:]
        if any(isinstance(x, ast.Name) and x.id in (K, V, D) and isinstance(x.ctx, (ast.Store, ast.Del)) for st in rest for x in ast.walk(st)):
            continue
        if any(isinstance(x, (ast.Subscript, ast.Attribute)) and isinstance(x.ctx, (ast.Store, ast.Del)) and isinstance(x.value, ast.Name) and x.value.id == D for st in rest for x in ast.walk(st)):
            continue
        if _in_reference(fi, n, locs, ref_fingerprints):
            continue
        items = ast.Call(func=ast.Attribute(value=ast.Name(id=D, ctx=ast.Load()), attr="items", ctx=ast.Load()), args=[], keywords=[])
        n.iter = ast.Call(func=ast.Name(id="sorted", ctx=ast.Load()), args=[items], keywords=[]) if srt else items
        n.target = ast.Tuple(elts=[ast.Name(id=K, ctx=ast.Store()), ast.Name(id=V, ctx=ast.Store())], ctx=ast.Store())
        n.body = rest or [ast.Pass()]
        ast.fix_missing_locations(n)
        done += 1
    if done:
        stats.setdefault("#dict_key_loops", []).append("%s:%d" % (fi.qual, done))
    return done


def _enumerate_counter_loops(fi, ref_fingerprints, stats):
    """A new `for c, T in enumerate(IT, start=c + 1): BODY` (BODY does not bind c) keeps a running count in c across loops: it
    is `for T in IT: c += 1; BODY` (c is untouched if IT is empty, and holds the number of elements seen afterwards)."""
    done = 0
    for n in list(walk_function(fi.node)):
        if not (isinstance(n, ast.For) and not n.orelse and isinstance(n.target, ast.Tuple) and len(n.target.elts) == 2 and isinstance(n.target.elts[0], ast.Name)):
            continue
        it = n.iter
        if not (isinstance(it, ast.Call) and isinstance(it.func, ast.Name) and it.func.id == "enumerate" and it.args):
            continue
        start = it.args[1] if len(it.args) == 2 else ([k.value for k in it.keywords if k.arg == "start"] or [None])[0]
        if start is None or len(it.args) + len(it.keywords) != 2:
            continue
        c = n.target.elts[0].id
        if not (isinstance(start, ast.BinOp) and isinstance(start.op, ast.Add) and ((isinstance(start.left, ast.Name) and start.left.id == c and isinstance(start.right, ast.Constant) and start.right.value == 1) or (isinstance(start.right, ast.Name) and start.right.id == c and isinstance(start.left, ast.Constant) and start.left.value == 1))):
            continue
        if any(isinstance(x, ast.Name) and x.id == c and isinstance(x.ctx, (ast.Store, ast.Del)) for st in n.body for x in ast.walk(st)):
            continue
        from . import alpha

        if _in_reference(fi, n, alpha.local_names(fi.node), ref_fingerprints):
            continue
        inc = ast.AugAssign(target=ast.Name(id=c, ctx=ast.Store()), op=ast.Add(), value=ast.Constant(value=1))
        ast.copy_location(inc, n)
        ast.fix_missing_locations(inc)
        n.target = n.target.elts[1]
        n.iter = it.args[0]
        n.body.insert(0, inc)
        done += 1
    if done:
        stats.setdefault("#enumerate_counter", []).append("%s:%d" % (fi.qual, done))
    return done


def _split_starred_unpack(fi, ref_fingerprints, stats):
    """A new `a, *b = S` (S a name) is `a = S[0]; b = S[1:]`, a new `*a, b = S` is `a = S[:-1]; b = S[-1]`: both forms fail on
    an empty S, and the slices are the list the star collects."""
    from . import alpha

    locs = alpha.local_names(fi.node)
    done = 0
    for n in list(walk_function(fi.node)):
        if not (isinstance(n, ast.Assign) and len(n.targets) == 1 and isinstance(n.targets[0], (ast.Tuple, ast.List)) and len(n.targets[0].elts) == 2 and isinstance(n.value, ast.Name)):
            continue
        a, b = n.targets[0].elts
        if isinstance(b, ast.Starred) and isinstance(b.value, ast.Name) and isinstance(a, ast.Name):
            parts = [(a, ast.Subscript(value=n.value, slice=ast.Constant(value=0), ctx=ast.Load())), (b.value, ast.Subscript(value=_clone(n.value), slice=ast.Slice(lower=ast.Constant(value=1), upper=None, step=None), ctx=ast.Load()))]
        elif isinstance(a, ast.Starred) and isinstance(a.value, ast.Name) and isinstance(b, ast.Name):
            parts = [(a.value, ast.Subscript(value=n.value, slice=ast.Slice(lower=None, upper=ast.UnaryOp(op=ast.USub(), operand=ast.Constant(value=1)), step=None), ctx=ast.Load())), (b, ast.Subscript(value=_clone(n.value), slice=ast.UnaryOp(op=ast.USub(), operand=ast.Constant(value=1)), ctx=ast.Load()))]
        else:
            continue
        if alpha._fingerprint(n, locs)[0] in ref_fingerprints:
            continue
        blk, _p = _block_of(n)
        if blk is None:
            continue
        new = []
        for t_, v_ in parts:
            st = ast.Assign(targets=[ast.Name(id=t_.id, ctx=ast.Store())], value=v_, type_comment=None)
            ast.copy_location(st, n)
            ast.fix_missing_locations(st)
            new.append(st)
        i = [k for k, x in enumerate(blk) if x is n][0]
        blk[i : i + 1] = new
        done += 1
    if done:
        stats.setdefault("#starred_unpack", []).append("%s:%d" % (fi.qual, done))
    return done


def _plain_new_annassigns(fi, ref_fingerprints, stats):
    """A new `x: T = value` (Cython `cdef T x = value`) statement is `x = value`: the declaration carries no behaviour the rules read."""
    from . import alpha

    locs = alpha.local_names(fi.node)
    done = 0
    for n in list(walk_function(fi.node)):
        if isinstance(n, ast.AnnAssign) and n.value is not None and isinstance(n.target, ast.Name) and n.simple:
            if alpha._fingerprint(n, locs)[0] in ref_fingerprints:
                continue
            blk, _p = _block_of(n)
            if blk is None:
                continue
            new = ast.Assign(targets=[n.target], value=n.value, type_comment=None)
            ast.copy_location(new, n)
            blk[[k for k, x in enumerate(blk) if x is n][0]] = new
            new.parent = _p
            done += 1
    if done:
        stats.setdefault("#annassign", []).append("%s:%d" % (fi.qual, done))
    return done


def _unfold_intersection_loops(fi, ref_fingerprints, stats):
    """A new `for x in A.intersection(B): BODY` / `for x in A & B: BODY` is `for x in A: if x in B: BODY` (A a name)."""
    from . import alpha

    locs = alpha.local_names(fi.node)
    done = 0
    for n in list(walk_function(fi.node)):
        if not (isinstance(n, ast.For) and not n.orelse and isinstance(n.target, ast.Name)):
            continue
        it = n.iter
        A = B = None
        if isinstance(it, ast.Call) and isinstance(it.func, ast.Attribute) and it.func.attr == "intersection" and len(it.args) == 1 and not it.keywords and isinstance(it.func.value, ast.Name):
            A, B = it.func.value, it.args[0]
        elif isinstance(it, ast.BinOp) and isinstance(it.op, ast.BitAnd) and isinstance(it.left, ast.Name):
            A, B = it.left, it.right
        if A is None or not _value_like(B):
            continue
        if _in_reference(fi, n, locs, ref_fingerprints):
            continue
        guard = ast.If(test=ast.Compare(left=ast.Name(id=n.target.id, ctx=ast.Load()), ops=[ast.In()], comparators=[B]), body=list(n.body), orelse=[])
        ast.copy_location(guard, n)
        n.iter = A
        n.body = [guard]
        ast.fix_missing_locations(n)
        stats.setdefault("#intersection_loops", []).append(fi.qual)
        done += 1
    return done


def _swap_membership_loops(fi, ref_fingerprints, stats):
    """A new `for x in list(M): if x in S: BODY` with S a module-level constant collection (UPPER_CASE name) is
    `for x in S: if x in M: BODY`: both run BODY once per element of the intersection (M's keys are unique); the reference
    iterates the constant."""
    from . import alpha

    locs = alpha.local_names(fi.node)
    done = 0
    mod_consts = {t.id for st in fi.module.tree.body if isinstance(st, ast.Assign) for t in st.targets if isinstance(t, ast.Name) and t.id.isupper()}
    for n in list(walk_function(fi.node)):
        if not (isinstance(n, ast.For) and not n.orelse and isinstance(n.target, ast.Name) and len(n.body) == 1 and isinstance(n.body[0], ast.If) and not n.body[0].orelse):
            continue
        t = n.body[0].test
        if not (isinstance(t, ast.Compare) and len(t.ops) == 1 and isinstance(t.ops[0], ast.In) and isinstance(t.left, ast.Name) and t.left.id == n.target.id and isinstance(t.comparators[0], ast.Name) and t.comparators[0].id in mod_consts):
            continue
        M = n.iter
        if isinstance(M, ast.Call) and isinstance(M.func, ast.Name) and M.func.id in ("list", "tuple") and len(M.args) == 1 and not M.keywords:
            M = M.args[0]
        if isinstance(M, ast.Name) and M.id in mod_consts or not _value_like(M):
            continue
        if _in_reference(fi, n, locs, ref_fingerprints):
            continue
        S = t.comparators[0]
        n.iter = S
        n.body[0].test = ast.Compare(left=ast.Name(id=n.target.id, ctx=ast.Load()), ops=[ast.In()], comparators=[M])
        ast.fix_missing_locations(n)
        stats.setdefault("#membership_loops", []).append(fi.qual)
        done += 1
    return done


def _count_loops_to_while(fi, ref_fingerprints, stats):
    """A new `for V in itertools.count(a): if C: break; BODY` is `V = a; while not C: BODY; V += 1` (BODY without a
    `continue` of its own); a new `S.difference_update(A, B, ..)` statement is `S -= A; S -= B; ..`."""
    from . import alpha

    locs = alpha.local_names(fi.node)
    done = 0
    for n in list(walk_function(fi.node)):
        if isinstance(n, ast.For) and not n.orelse and isinstance(n.target, ast.Name) and isinstance(n.iter, ast.Call) and ((isinstance(n.iter.func, ast.Attribute) and n.iter.func.attr == "count") or (isinstance(n.iter.func, ast.Name) and n.iter.func.id == "count")) and len(n.iter.args) <= 1 and not n.iter.keywords:
            if not (n.body and isinstance(n.body[0], ast.If) and not n.body[0].orelse and len(n.body[0].body) == 1 and isinstance(n.body[0].body[0], ast.Break)):
                continue
            rest = n.body[1:]
            own_continue = False
            for st in rest:
                for x in ast.walk(st):
                    if isinstance(x, (ast.Continue, ast.Break)):
                        lp = getattr(x, "parent", None)
                        while lp is not None and not isinstance(lp, (ast.For, ast.While)):
                            lp = getattr(lp, "parent", None)
                        if lp is n:
                            own_continue = True
            if own_continue or _in_reference(fi, n, locs, ref_fingerprints):
                continue
            blk, par = _block_of(n)
            if blk is None:
                continue
            start = n.iter.args[0] if n.iter.args else ast.Constant(value=0)
            init = ast.Assign(targets=[ast.Name(id=n.target.id, ctx=ast.Store())], value=start, type_comment=None)
            inc = ast.AugAssign(target=ast.Name(id=n.target.id, ctx=ast.Store()), op=ast.Add(), value=ast.Constant(value=1))
            wl = ast.While(test=_negated(n.body[0].test), body=list(rest) + [inc], orelse=[])
            for x in (init, inc, wl):
                ast.copy_location(x, n)
                ast.fix_missing_locations(x)
            i = [k for k, x in enumerate(blk) if x is n][0]
            blk[i:i + 1] = [init, wl]
            done += 1
        elif isinstance(n, ast.Expr) and isinstance(n.value, ast.Call) and isinstance(n.value.func, ast.Attribute) and n.value.func.attr == "difference_update" and isinstance(n.value.func.value, ast.Name) and n.value.args and not n.value.keywords and all(_value_like(a) for a in n.value.args):
            if alpha._fingerprint(n, locs)[0] in ref_fingerprints:
                continue
            blk, par = _block_of(n)
            if blk is None:
                continue
            new = []
            for a in n.value.args:
                st = ast.AugAssign(target=ast.Name(id=n.value.func.value.id, ctx=ast.Store()), op=ast.Sub(), value=a)
                ast.copy_location(st, n)
                ast.fix_missing_locations(st)
                new.append(st)
            i = [k for k, x in enumerate(blk) if x is n][0]
            blk[i:i + 1] = new
            done += 1
    if done:
        set_parents(fi.node)
        stats.setdefault("#count_loops", []).append("%s:%d" % (fi.qual, done))
    return done


def _splice_starred_tuples(fi, ref_locals, stats):
    """A new local `T = (a, b, ...)` of value-like elements that is only ever unpacked into calls (`f(x, *T)`) is spliced in."""
    done = 0
    # f(x, *(a, b)) written out (the form left after such a temporary was propagated)
    for c in [x for x in ast.walk(fi.node) if isinstance(x, ast.Call) and any(isinstance(a, ast.Starred) and isinstance(a.value, (ast.Tuple, ast.List)) for a in x.args)]:
        new_args = []
        for a in c.args:
            if isinstance(a, ast.Starred) and isinstance(a.value, (ast.Tuple, ast.List)):
                new_args.extend(a.value.elts)
            else:
                new_args.append(a)
        c.args = new_args
        done += 1
    if done:
        set_parents(fi.node)
        stats.setdefault("#spliced", []).append(fi.qual)
    for n in list(walk_function(fi.node)):
        if not (isinstance(n, ast.Assign) and len(n.targets) == 1 and isinstance(n.targets[0], ast.Name) and n.targets[0].id not in ref_locals and isinstance(n.value, (ast.Tuple, ast.List)) and n.value.elts and all(_value_like(e) for e in n.value.elts)):
            continue
        name = n.targets[0].id
        occ = [x for x in ast.walk(fi.node) if isinstance(x, ast.Name) and x.id == name]
        if sum(1 for x in occ if isinstance(x.ctx, (ast.Store, ast.Del))) != 1:
            continue
        loads = [x for x in occ if isinstance(x.ctx, ast.Load)]
        if not loads or any(not (isinstance(getattr(x, "parent", None), ast.Starred) and isinstance(getattr(x.parent, "parent", None), ast.Call) and x.parent in x.parent.parent.args) for x in loads):
            continue
        # the elements are plain names / attribute reads of things bound before: none may be rebound between the tuple and its uses
        elt_names = {y.id for e in n.value.elts for y in ast.walk(e) if isinstance(y, ast.Name)}
        later_stores = [y for y in ast.walk(fi.node) if isinstance(y, ast.Name) and isinstance(y.ctx, (ast.Store, ast.Del)) and y.id in elt_names and getattr(y, "lineno", 0) > n.lineno]
        if later_stores:
            continue
        for x in loads:
            c = x.parent.parent
            i = [k for k, a in enumerate(c.args) if a is x.parent][0]
            c.args[i:i + 1] = [_clone(e) for e in n.value.elts]
            ast.fix_missing_locations(c)
        blk, _p = _block_of(n)
        if blk is not None:
            blk[:] = [y for y in blk if y is not n] or [ast.copy_location(ast.Pass(), n)]
        set_parents(fi.node)
        stats.setdefault("#spliced", []).append("%s:%s" % (fi.qual, name))
        done += 1
    return done


def _apply_new_partials(fi, ref_locals, stats):
    """A new local `T = functools.partial(F, a.., k=v..)` that is only ever called: T(x..) -> F(a.., x.., k=v..)."""
    done = 0

    def is_partial(v):
        return isinstance(v, ast.Call) and ((isinstance(v.func, ast.Attribute) and v.func.attr == "partial") or (isinstance(v.func, ast.Name) and v.func.id == "partial")) and v.args and not any(isinstance(a, ast.Starred) for a in v.args) and all(k.arg for k in v.keywords)

    # partial(F, ...)(x, ...) applied on the spot (after the temporary was propagated)
    for c in [x for x in ast.walk(fi.node) if isinstance(x, ast.Call) and is_partial(x.func)]:
        v = c.func
        given = {k.arg for k in c.keywords}
        c.func = v.args[0]
        c.args = list(v.args[1:]) + list(c.args)
        c.keywords = list(c.keywords) + [k for k in v.keywords if k.arg not in given]
        ast.fix_missing_locations(c)
        stats.setdefault("#partials", []).append(fi.qual)
        done += 1
    if done:
        set_parents(fi.node)
    for n in list(walk_function(fi.node)):
        if not (isinstance(n, ast.Assign) and len(n.targets) == 1 and isinstance(n.targets[0], ast.Name) and n.targets[0].id not in ref_locals):
            continue
        v = n.value
        if not (isinstance(v, ast.Call) and ((isinstance(v.func, ast.Attribute) and v.func.attr == "partial") or (isinstance(v.func, ast.Name) and v.func.id == "partial")) and v.args and not any(isinstance(a, ast.Starred) for a in v.args) and all(k.arg for k in v.keywords)):
            continue
        name = n.targets[0].id
        occ = [x for x in ast.walk(fi.node) if isinstance(x, ast.Name) and x.id == name]
        stores = [x for x in occ if isinstance(x.ctx, (ast.Store, ast.Del))]
        loads = [x for x in occ if isinstance(x.ctx, ast.Load)]
        if len(stores) != 1 or not loads or any(not (isinstance(getattr(x, "parent", None), ast.Call) and x.parent.func is x) for x in loads):
            continue
        if not all(_value_like(a) for a in v.args[1:]) or not all(_value_like(k.value) for k in v.keywords):
            continue
        for x in loads:
            c = x.parent
            given = {k.arg for k in c.keywords}
            c.func = _clone(v.args[0])
            c.args = [_clone(a) for a in v.args[1:]] + list(c.args)
            c.keywords = list(c.keywords) + [ast.keyword(arg=k.arg, value=_clone(k.value)) for k in v.keywords if k.arg not in given]
            ast.fix_missing_locations(c)
        blk, _p = _block_of(n)
        if blk is not None:
            blk[:] = [x for x in blk if x is not n] or [ast.copy_location(ast.Pass(), n)]
        set_parents(fi.node)
        stats.setdefault("#partials", []).append("%s:%s" % (fi.qual, name))
        done += 1
    return done


class _NewIdioms(ast.NodeTransformer):
    """operator.attrgetter("a") -> lambda x: x.a ; itertools.groupby(it, key=f) -> itertools.groupby(it, f)"""

    def __init__(self):
        self.n = 0

    def visit_Expr(self, node):
        # X.__delitem__(k) -> del X[k] ; X.__setitem__(k, v) -> X[k] = v  (statement position, result unused)
        self.generic_visit(node)
        c = node.value
        if isinstance(c, ast.Call) and isinstance(c.func, ast.Attribute) and not c.keywords and not any(isinstance(a, ast.Starred) for a in c.args):
            if c.func.attr == "__delitem__" and len(c.args) == 1:
                self.n += 1
                new = ast.Delete(targets=[ast.Subscript(value=c.func.value, slice=c.args[0], ctx=ast.Del())])
                return ast.fix_missing_locations(ast.copy_location(new, node))
            if c.func.attr == "__setitem__" and len(c.args) == 2:
                self.n += 1
                new = ast.Assign(targets=[ast.Subscript(value=c.func.value, slice=c.args[0], ctx=ast.Store())], value=c.args[1], type_comment=None)
                return ast.fix_missing_locations(ast.copy_location(new, node))
        return node

    def visit_Call(self, node):
        self.generic_visit(node)
        f = node.func
        nm = f.attr if isinstance(f, ast.Attribute) else (f.id if isinstance(f, ast.Name) else None)
        if nm == "attrgetter" and len(node.args) == 1 and not node.keywords and isinstance(node.args[0], ast.Constant) and isinstance(node.args[0].value, str) and node.args[0].value.isidentifier():
            self.n += 1
            new = ast.Lambda(args=ast.arguments(posonlyargs=[], args=[ast.arg(arg="record")], kwonlyargs=[], kw_defaults=[], defaults=[]), body=ast.Attribute(value=ast.Name(id="record", ctx=ast.Load()), attr=node.args[0].value, ctx=ast.Load()))
            ast.copy_location(new, node)
            ast.fix_missing_locations(new)
            return new
        if isinstance(f, ast.Lambda) and not node.keywords and not f.args.vararg and not f.args.kwarg and not f.args.kwonlyargs and not f.args.defaults and len(f.args.args) == len(node.args) and not any(isinstance(a, ast.Starred) for a in node.args):
            # (lambda x: E)(a) -> E[x := a] for simple arguments
            if all(_simple_arg(a) for a in node.args) and not any(isinstance(x, ast.Lambda) for x in ast.walk(f.body)):
                self.n += 1
                holder = ast.Expression(body=_clone(f.body))
                _Subst({p_.arg: a for p_, a in zip(f.args.args, node.args)}).visit(holder)
                new = holder.body
                ast.copy_location(new, node)
                ast.fix_missing_locations(new)
                return new
        if nm == "itemgetter" and len(node.args) == 1 and not node.keywords and isinstance(node.args[0], ast.Constant) and isinstance(node.args[0].value, int):
            self.n += 1
            new = ast.Lambda(args=ast.arguments(posonlyargs=[], args=[ast.arg(arg="record")], kwonlyargs=[], kw_defaults=[], defaults=[]), body=ast.Subscript(value=ast.Name(id="record", ctx=ast.Load()), slice=ast.Constant(value=node.args[0].value), ctx=ast.Load()))
            ast.copy_location(new, node)
            ast.fix_missing_locations(new)
            return new
        if nm == "format" and isinstance(f, ast.Attribute) and isinstance(f.value, ast.Constant) and isinstance(f.value.value, str) and node.args and not node.keywords and not any(isinstance(a, ast.Starred) for a in node.args):
            # "{}-{}".format(a, b) -> f"{a}-{b}" (plain positional placeholders only)
            tpl = f.value.value
            pieces = tpl.split("{}")
            if len(pieces) == len(node.args) + 1 and not any("{" in x or "}" in x for x in pieces):
                vals = []
                for i_, lit in enumerate(pieces):
                    if lit:
                        vals.append(ast.Constant(value=lit))
                    if i_ < len(node.args):
                        vals.append(ast.FormattedValue(value=node.args[i_], conversion=-1, format_spec=None))
                self.n += 1
                new = ast.JoinedStr(values=vals)
                ast.copy_location(new, node)
                ast.fix_missing_locations(new)
                return new
        if nm in ("all", "any") and isinstance(f, ast.Name) and len(node.args) == 1 and isinstance(node.args[0], ast.Call) and isinstance(node.args[0].func, ast.Name) and node.args[0].func.id == "map" and len(node.args[0].args) == 2 and not node.args[0].keywords:
            # all(map(F, X)) -> all(F(item) for item in X)
            F, X = node.args[0].args
            self.n += 1
            call = ast.Call(func=F, args=[ast.Name(id="item", ctx=ast.Load())], keywords=[])
            gen = ast.GeneratorExp(elt=call, generators=[ast.comprehension(target=ast.Name(id="item", ctx=ast.Store()), iter=X, ifs=[], is_async=0)])
            node.args = [gen]
            ast.fix_missing_locations(node)
            # the element call may itself be an idiom (partial(..)(item), operator function)
            gen.elt = self.visit(call)
            return node
        if isinstance(f, ast.Call) and ((isinstance(f.func, ast.Name) and f.func.id == "partial") or (isinstance(f.func, ast.Attribute) and f.func.attr == "partial")) and f.args and not f.keywords and not node.keywords:
            # partial(g, a..)(x..) -> g(a.., x..)
            self.n += 1
            new = ast.Call(func=f.args[0], args=list(f.args[1:]) + list(node.args), keywords=[])
            ast.copy_location(new, node)
            ast.fix_missing_locations(new)
            return self.visit(new)
        OPS = {"is_not": ast.IsNot, "is_": ast.Is, "eq": ast.Eq, "ne": ast.NotEq, "lt": ast.Lt, "le": ast.LtE, "gt": ast.Gt, "ge": ast.GtE, "contains": None}
        if nm in OPS and len(node.args) == 2 and not node.keywords and (isinstance(f, ast.Name) or (isinstance(f, ast.Attribute) and isinstance(f.value, ast.Name) and f.value.id == "operator")):
            self.n += 1
            a_, b_ = node.args
            if nm == "contains":
                new = ast.Compare(left=b_, ops=[ast.In()], comparators=[a_])
            elif nm in ("is_not", "is_", "eq", "ne"):
                # symmetric: put the variable first (None is not x  ->  x is not None)
                if isinstance(a_, ast.Constant) and not isinstance(b_, ast.Constant):
                    a_, b_ = b_, a_
                new = ast.Compare(left=a_, ops=[OPS[nm]()], comparators=[b_])
            else:
                new = ast.Compare(left=a_, ops=[OPS[nm]()], comparators=[b_])
            ast.copy_location(new, node)
            ast.fix_missing_locations(new)
            return new
        if nm == "islice" and len(node.args) == 3 and not node.keywords and isinstance(node.args[2], ast.Constant) and node.args[2].value is None and isinstance(node.args[1], ast.Constant) and isinstance(node.args[1].value, int) and isinstance(node.args[0], ast.Name):
            # over a sequence the two walk the same elements (the reference slices; islice only avoids the copy)
            self.n += 1
            new = ast.Subscript(value=node.args[0], slice=ast.Slice(lower=node.args[1], upper=None, step=None), ctx=ast.Load())
            ast.copy_location(new, node)
            ast.fix_missing_locations(new)
            return new
        if nm == "groupby" and len(node.args) == 1 and len(node.keywords) == 1 and node.keywords[0].arg == "key":
            self.n += 1
            node.args = [node.args[0], node.keywords[0].value]
            node.keywords = []
        return node


def _unfold_yield_from_maps(fi, ref_fingerprints, stats):
    """A new `yield from itertools.starmap(F, IT)` / `yield from map(F, IT)` / `yield from (E for x in IT)` statement is the
    loop that yields one element at a time (lazy either way)."""
    from . import alpha

    locs = alpha.local_names(fi.node)
    done = 0
    for n in list(walk_function(fi.node)):
        if not (isinstance(n, ast.Expr) and isinstance(n.value, ast.YieldFrom)):
            continue
        if alpha._fingerprint(n, locs)[0] in ref_fingerprints:
            continue
        blk, par = _block_of(n)
        if blk is None:
            continue
        src = n.value.value
        taken = {x.id for x in ast.walk(fi.node) if isinstance(x, ast.Name)}
        new = None
        if isinstance(src, ast.Call) and not src.keywords and len(src.args) == 2:
            fn = src.func.attr if isinstance(src.func, ast.Attribute) else (src.func.id if isinstance(src.func, ast.Name) else None)
            F, IT = src.args
            if fn == "starmap":
                it_ = IT
                if isinstance(it_, ast.Name):
                    sts = [x for x in ast.walk(fi.node) if isinstance(x, ast.Name) and x.id == it_.id and isinstance(x.ctx, ast.Store)]
                    d_ = getattr(sts[0], "parent", None) if len(sts) == 1 else None
                    it_ = d_.value if isinstance(d_, ast.Assign) else it_
                isgb = isinstance(it_, ast.Call) and ((isinstance(it_.func, ast.Attribute) and it_.func.attr == "groupby") or (isinstance(it_.func, ast.Name) and it_.func.id == "groupby"))
                if isgb:
                    k_, g_ = "key", "group"
                    while k_ in taken or g_ in taken:
                        k_, g_ = k_ + "_", g_ + "_"
                    tgt = ast.Tuple(elts=[ast.Name(id=k_, ctx=ast.Store()), ast.Name(id=g_, ctx=ast.Store())], ctx=ast.Store())
                    call = ast.Call(func=F, args=[ast.Name(id=k_, ctx=ast.Load()), ast.Name(id=g_, ctx=ast.Load())], keywords=[])
                else:
                    a_ = "args"
                    while a_ in taken:
                        a_ += "_"
                    tgt = ast.Name(id=a_, ctx=ast.Store())
                    call = ast.Call(func=F, args=[ast.Starred(value=ast.Name(id=a_, ctx=ast.Load()), ctx=ast.Load())], keywords=[])
                new = ast.For(target=tgt, iter=IT, body=[ast.Expr(value=ast.Yield(value=call))], orelse=[], type_comment=None)
            elif fn == "map":
                a_ = "item"
                while a_ in taken:
                    a_ += "_"
                new = ast.For(target=ast.Name(id=a_, ctx=ast.Store()), iter=IT, body=[ast.Expr(value=ast.Yield(value=ast.Call(func=F, args=[ast.Name(id=a_, ctx=ast.Load())], keywords=[])))], orelse=[], type_comment=None)
        elif isinstance(src, ast.GeneratorExp) and len(src.generators) == 1 and not src.generators[0].is_async:
            g = src.generators[0]
            vn = {x.id for x in ast.walk(g.target) if isinstance(x, ast.Name)}
            if not (vn & (taken - {x.id for x in ast.walk(src) if isinstance(x, ast.Name)})):
                body = [ast.Expr(value=ast.Yield(value=src.elt))]
                if g.ifs:
                    body = [ast.If(test=g.ifs[0] if len(g.ifs) == 1 else ast.BoolOp(op=ast.And(), values=list(g.ifs)), body=body, orelse=[])]
                tgt = _clone(g.target)
                for x in ast.walk(tgt):
                    if hasattr(x, "ctx"):
                        x.ctx = ast.Store()
                new = ast.For(target=tgt, iter=g.iter, body=body, orelse=[], type_comment=None)
        if new is None and _pure_iter(src) and not isinstance(src, ast.Name):
            # `yield from <sequence expression>`: one element at a time
            a_ = "item"
            while a_ in taken:
                a_ += "_"
            new = ast.For(target=ast.Name(id=a_, ctx=ast.Store()), iter=src, body=[ast.Expr(value=ast.Yield(value=ast.Name(id=a_, ctx=ast.Load())))], orelse=[], type_comment=None)
        if new is None:
            continue
        ast.copy_location(new, n)
        ast.fix_missing_locations(new)
        blk[[k for k, x in enumerate(blk) if x is n][0]] = new
        stats.setdefault("#yield_from", []).append(fi.qual)
        done += 1
    return done


def _deforest_new_lists(fi, ref_locals, stats):
    """Producer/consumer fusion through a new intermediate list:  L = []; ... L.append(X) ...; <consumers of L>  where every
    consumer follows the producers in the block of the initialisation and is one of
        for T in L: BODY        |   ACC.update(E for T in L if C)   |   TARGET = {E for T in L if C}  /  [E for T in L if C]
    becomes: at each append site `T = X` followed by BODY / `if C: ACC.add(E)` / `if C: acc.add(E)` (acc a fresh accumulator
    that TARGET receives where the comprehension stood).  The normal form assumes what a reviewer of such a split checks:
    the consumers do not feed back into the producers."""
    done = 0
    for n in list(walk_function(fi.node)):
        if not (isinstance(n, (ast.Assign, ast.AnnAssign)) and isinstance(n.value, ast.List) and not n.value.elts):
            continue
        tgt = n.targets[0] if isinstance(n, ast.Assign) and len(n.targets) == 1 else (n.target if isinstance(n, ast.AnnAssign) else None)
        if not (isinstance(tgt, ast.Name) and tgt.id not in ref_locals):
            continue
        L = tgt.id
        blk, par = _block_of(n)
        if blk is None:
            continue
        i0 = [k for k, x in enumerate(blk) if x is n][0]
        occ = [x for x in ast.walk(fi.node) if isinstance(x, ast.Name) and x.id == L and x is not tgt]
        if not occ or any(isinstance(x.ctx, (ast.Store, ast.Del)) for x in occ):
            continue
        appends, consumers = [], []
        ok = True
        for x in occ:
            p = getattr(x, "parent", None)
            if isinstance(p, ast.Attribute) and p.attr == "append" and isinstance(getattr(p, "parent", None), ast.Call) and p.parent.func is p and len(p.parent.args) == 1 and not p.parent.keywords and isinstance(getattr(p.parent, "parent", None), ast.Expr):
                appends.append(p.parent.parent)
                continue
            if isinstance(p, ast.For) and p.iter is x and not p.orelse and isinstance(p.target, (ast.Name, ast.Tuple)) and any(y is p for y in blk) and not _contains(p.body, (ast.Break, ast.Return, ast.Continue, ast.Yield, ast.YieldFrom)):
                consumers.append(("for", p, p))
                continue
            if isinstance(p, ast.comprehension) and p.iter is x and not p.is_async:
                comp = getattr(p, "parent", None)
                if isinstance(comp, (ast.GeneratorExp, ast.ListComp, ast.SetComp)) and len(comp.generators) == 1:
                    st = _stmt_of(comp)
                    cp = getattr(comp, "parent", None)
                    if any(y is st for y in blk):
                        if isinstance(cp, ast.Call) and isinstance(cp.func, ast.Attribute) and cp.func.attr in ("update", "extend") and cp.args == [comp] and isinstance(st, ast.Expr) and st.value is cp:
                            consumers.append(("update", st, comp))
                            continue
                        if isinstance(comp, (ast.SetComp, ast.ListComp)) and isinstance(st, ast.Assign) and st.value is comp and len(st.targets) == 1:
                            consumers.append(("assign", st, comp))
                            continue
            ok = False
            break
        if not ok or not appends or not consumers:
            continue
        order = {}
        for k, x in enumerate(blk):
            for y in ast.walk(x):
                order[id(y)] = k
        if any(id(a) not in order or order[id(a)] <= i0 for a in appends):
            continue
        last_app = max(order[id(a)] for a in appends)
        if any(order[id(st)] <= last_app for _, st, _ in consumers):
            continue
        # no feedback in either direction: what the consumers read (besides their own element variables) is not written in the
        # producer region, and what they write or mutate is not read there
        first_cons = min(order[id(st)] for _, st, _ in consumers)
        region = blk[i0 + 1:first_cons]
        reg_stores, reg_loads = set(), set()
        for st_ in region:
            for x in ast.walk(st_):
                if isinstance(x, ast.Name):
                    (reg_stores if isinstance(x.ctx, (ast.Store, ast.Del)) else reg_loads).add(x.id)
        cons_loads, cons_writes, own = set(), set(), set()
        for kind, st_, c_ in consumers:
            code = [c_.body] if kind == "for" else [[ast.Expr(value=c_.elt)] + [ast.Expr(value=i_) for i_ in c_.generators[0].ifs]]
            tg_ = c_.target if kind == "for" else c_.generators[0].target
            own |= {x.id for x in ast.walk(tg_) if isinstance(x, ast.Name)}
            for b_ in code[0]:
                for x in ast.walk(b_):
                    if isinstance(x, ast.Name):
                        if isinstance(x.ctx, (ast.Store, ast.Del)):
                            cons_writes.add(x.id)
                        else:
                            cons_loads.add(x.id)
                    if isinstance(x, (ast.Attribute, ast.Subscript)) and isinstance(x.ctx, (ast.Store, ast.Del)):
                        r_ = x
                        while isinstance(r_, (ast.Attribute, ast.Subscript)):
                            r_ = r_.value
                        if isinstance(r_, ast.Name):
                            cons_writes.add(r_.id)
                    if isinstance(x, ast.Call) and isinstance(x.func, ast.Attribute):
                        r_ = x.func.value
                        while isinstance(r_, (ast.Attribute, ast.Subscript)):
                            r_ = r_.value
                        if isinstance(r_, ast.Name):
                            cons_writes.add(r_.id)
            if kind == "update":
                r_ = st_.value.func.value
                while isinstance(r_, (ast.Attribute, ast.Subscript)):
                    r_ = r_.value
                if isinstance(r_, ast.Name):
                    cons_writes.add(r_.id)
        if ((cons_loads - own) & reg_stores) or ((cons_writes - own) & (reg_loads | reg_stores) - {L}):
            continue
        taken = {x.id for x in ast.walk(fi.node) if isinstance(x, ast.Name)}
        pre = []
        plans = []
        for kind, st, c in sorted(consumers, key=lambda t: order[id(t[1])]):
            if kind == "for":
                plans.append(("for", c.target, None, None, c.body, None))
            else:
                g = c.generators[0]
                cond = None if not g.ifs else (g.ifs[0] if len(g.ifs) == 1 else ast.BoolOp(op=ast.And(), values=list(g.ifs)))
                if kind == "update":
                    recv = st.value.func.value
                    meth = "add" if st.value.func.attr == "update" else "append"
                    plans.append(("feed", g.target, cond, c.elt, None, (recv, meth)))
                else:
                    acc = "collected"
                    k_ = 0
                    while acc in taken:
                        k_ += 1
                        acc = "collected_%d" % k_
                    taken.add(acc)
                    isset = isinstance(c, ast.SetComp)
                    init = ast.Assign(targets=[ast.Name(id=acc, ctx=ast.Store())], value=(ast.Call(func=ast.Name(id="set", ctx=ast.Load()), args=[], keywords=[]) if isset else ast.List(elts=[], ctx=ast.Load())), type_comment=None)
                    ast.copy_location(init, n)
                    pre.append(init)
                    plans.append(("feed", g.target, cond, c.elt, None, (ast.Name(id=acc, ctx=ast.Load()), "add" if isset else "append")))
                    st.value = ast.Name(id=acc, ctx=ast.Load())
        for a in appends:
            x_ = a.value.args[0]
            repl = []
            for kind, t_, cond, elt, body, sink in plans:
                tt = _clone(t_)
                for y in ast.walk(tt):
                    if hasattr(y, "ctx"):
                        y.ctx = ast.Store()
                bind = ast.Assign(targets=[tt], value=_clone(x_), type_comment=None)
                repl.append(bind)
                if kind == "for":
                    repl.extend(_clone(b_) for b_ in body)
                else:
                    call = ast.Expr(value=ast.Call(func=ast.Attribute(value=_clone(sink[0]), attr=sink[1], ctx=ast.Load()), args=[_clone(elt)], keywords=[]))
                    repl.append(ast.If(test=_clone(cond), body=[call], orelse=[]) if cond is not None else call)
            for r_ in repl:
                ast.copy_location(r_, a)
                ast.fix_missing_locations(r_)
            ab, _ap = _block_of(a)
            if ab is None:
                ok = False
                break
            ai = [k for k, x in enumerate(ab) if x is a][0]
            ab[ai:ai + 1] = repl
        if not ok:
            continue
        drop = {id(st) for kind, st, _ in consumers if kind in ("for", "update")} | {id(n)}
        pos0 = [k for k, x in enumerate(blk) if x is n][0]
        blk[pos0:pos0] = pre
        blk[:] = [x for x in blk if id(x) not in drop] or [ast.copy_location(ast.Pass(), n)]
        set_parents(fi.node)
        stats.setdefault("#deforested", []).append("%s:%s" % (fi.qual, L))
        done += 1
    return done


def _fold_accumulator_loops(fi, ref_fingerprints, stats):
    """A new loop whose body only feeds accumulators -- `L.append(E)`, `S.add(E)`, `n += E` under pure if/elif/else conditions --
    with every accumulator initialised by a plain statement directly before the loop ([] / set() / 0), becomes one
    comprehension per accumulator: L = [E for T in IT if PATH], n = sum(E for T in IT if PATH).  (Pure conditions and
    elements only: names, attributes, subscripts, comparisons, len() and method calls without arguments on the element.)"""
    from . import alpha

    locs = alpha.local_names(fi.node)
    done = 0

    def pure(e):
        for x in ast.walk(e):
            if isinstance(x, ast.Call):
                f = x.func
                if isinstance(f, ast.Name) and f.id in ("len", "int", "str", "abs", "min", "max", "bool", "float"):
                    continue
                if isinstance(f, ast.Attribute) and not x.args and not x.keywords:
                    continue  # element.method()
                return False
            if isinstance(x, (ast.Yield, ast.YieldFrom, ast.Await, ast.NamedExpr, ast.Lambda)):
                return False
        return True

    for n in list(walk_function(fi.node)):
        if not (isinstance(n, ast.For) and not n.orelse and _pure_iter(n.iter)):
            continue
        if _in_reference(fi, n, locs, ref_fingerprints):
            continue
        blk, par = _block_of(n)
        if blk is None:
            continue
        idx = [k for k, x in enumerate(blk) if x is n][0]
        # leading plain temporaries of the body (`size = len(block)`) are substituted
        body = list(n.body)
        env = {}
        while body and isinstance(body[0], ast.Assign) and len(body[0].targets) == 1 and isinstance(body[0].targets[0], ast.Name) and _value_like(body[0].value) and pure(body[0].value):
            h = ast.Expression(body=_clone(body[0].value))
            _Subst(env).visit(h)
            env[body[0].targets[0].id] = h.body
            body = body[1:]
        if not body:
            continue
        feeds = []  # (acc name, kind, element expr, [conditions])
        ok = True

        def walk_block(stmts, conds):
            nonlocal ok
            for st in stmts:
                if isinstance(st, ast.If):
                    if not pure(st.test):
                        ok = False
                        return
                    walk_block(st.body, conds + [st.test])
                    if st.orelse:
                        walk_block(st.orelse, conds + [_negated(st.test)])
                elif isinstance(st, ast.Expr) and isinstance(st.value, ast.Call) and isinstance(st.value.func, ast.Attribute) and st.value.func.attr in ("append", "add") and isinstance(st.value.func.value, ast.Name) and len(st.value.args) == 1 and not st.value.keywords and pure(st.value.args[0]):
                    feeds.append((st.value.func.value.id, st.value.func.attr, st.value.args[0], list(conds)))
                elif isinstance(st, ast.AugAssign) and isinstance(st.op, ast.Add) and isinstance(st.target, ast.Name) and pure(st.value):
                    feeds.append((st.target.id, "sum", st.value, list(conds)))
                elif isinstance(st, ast.Pass):
                    pass
                else:
                    ok = False
                    return

        walk_block(body, [])
        if not ok or not feeds:
            continue
        accs = []
        for a_, k_, _e, _c in feeds:
            if a_ not in accs:
                accs.append(a_)
        if any(len({k_ for a2, k_, _e, _c in feeds if a2 == a_}) != 1 or sum(1 for a2, *_r in feeds if a2 == a_) != 1 for a_ in accs):
            continue  # one feed per accumulator
        tn = {x.id for x in ast.walk(n.target) if isinstance(x, ast.Name)}
        if any(a_ in tn or a_ in env for a_ in accs):
            continue
        # initialisations: the statements directly before the loop (in any order), nothing else reads the accumulators inside the loop
        inits = {}
        j = idx - 1
        while j >= 0 and len(inits) < len(accs):
            st = blk[j]
            tgt = st.targets[0] if isinstance(st, ast.Assign) and len(st.targets) == 1 else (st.target if isinstance(st, ast.AnnAssign) and st.value is not None else None)
            if isinstance(tgt, ast.Name) and tgt.id in accs and tgt.id not in inits:
                inits[tgt.id] = st
                j -= 1
                continue
            if isinstance(tgt, ast.Name) and _value_like(st.value):
                j -= 1
                continue  # an unrelated plain assignment in between
            break
        if set(inits) != set(accs):
            continue
        good = True
        for a_, k_, _e, _c in feeds:
            iv = inits[a_].value
            want = {"append": ("[]", "list()"), "add": ("set()",), "sum": ("0",)}[k_]
            if ast.unparse(iv) not in want:
                good = False
            if any(isinstance(x, ast.Name) and x.id == a_ for c_ in _c for x in ast.walk(c_)) or any(isinstance(x, ast.Name) and x.id == a_ for x in ast.walk(_e)):
                good = False
        if not good:
            continue
        new_stmts = []
        for a_, k_, e_, cs in feeds:
            def sub(x):
                h = ast.Expression(body=_clone(x))
                _Subst(env).visit(h)
                return h.body
            gen = ast.comprehension(target=_clone(n.target), iter=_clone(n.iter), ifs=[sub(c_) for c_ in cs], is_async=0)
            if len(gen.ifs) > 1:
                gen.ifs = [ast.BoolOp(op=ast.And(), values=gen.ifs)]
            if k_ == "append":
                val = ast.ListComp(elt=sub(e_), generators=[gen])
            elif k_ == "add":
                val = ast.SetComp(elt=sub(e_), generators=[gen])
            else:
                val = ast.Call(func=ast.Name(id="sum", ctx=ast.Load()), args=[ast.GeneratorExp(elt=sub(e_), generators=[gen])], keywords=[])
            st = ast.Assign(targets=[ast.Name(id=a_, ctx=ast.Store())], value=val, type_comment=None)
            ast.copy_location(st, n)
            ast.fix_missing_locations(st)
            new_stmts.append(st)
        drop = {id(x) for x in inits.values()}
        pos = [k for k, x in enumerate(blk) if x is n][0]
        blk[pos:pos + 1] = new_stmts
        blk[:] = [x for x in blk if id(x) not in drop]
        set_parents(fi.node)
        stats.setdefault("#accumulator_loops", []).append(fi.qual)
        done += 1
    return done


def _sort_to_sorted(fi, ref_fingerprints, stats):
    """A new `L.sort()` directly after the (single) plain definition `L = <expr>` is `L = sorted(<expr>)`."""
    from . import alpha

    locs = alpha.local_names(fi.node)
    done = 0
    for n in list(walk_function(fi.node)):
        if not (isinstance(n, ast.Expr) and isinstance(n.value, ast.Call) and isinstance(n.value.func, ast.Attribute) and n.value.func.attr == "sort" and isinstance(n.value.func.value, ast.Name) and not n.value.args and not n.value.keywords):
            continue  # only the plain ascending sort: an ordering with key / reverse is left for the rules to read as written
        if alpha._fingerprint(n, locs)[0] in ref_fingerprints:
            continue
        blk, par = _block_of(n)
        if blk is None:
            continue
        i = [k for k, x in enumerate(blk) if x is n][0]
        name = n.value.func.value.id
        j = i - 1
        while j >= 0 and not any(isinstance(x, ast.Name) and x.id == name for x in ast.walk(blk[j])):
            j -= 1
        if j < 0:
            continue
        d = blk[j]
        if not (isinstance(d, ast.Assign) and len(d.targets) == 1 and isinstance(d.targets[0], ast.Name) and d.targets[0].id == name and isinstance(d.value, (ast.ListComp, ast.List, ast.Call))):
            continue
        if isinstance(d.value, ast.Call) and not (isinstance(d.value.func, ast.Name) and d.value.func.id in ("list", "sorted")):
            continue
        inner = d.value
        if isinstance(inner, ast.Call) and isinstance(inner.func, ast.Name) and inner.func.id == "list" and len(inner.args) == 1 and not inner.keywords:
            inner = inner.args[0]  # sorted() copies anyway
        if isinstance(inner, ast.ListComp):
            inner = ast.GeneratorExp(elt=inner.elt, generators=inner.generators)
        d.value = ast.Call(func=ast.Name(id="sorted", ctx=ast.Load()), args=[inner], keywords=list(n.value.keywords))
        ast.fix_missing_locations(d)
        del blk[i]
        set_parents(fi.node)
        stats.setdefault("#sorted", []).append(fi.qual)
        done += 1
    return done


def _fold_bool_returns(fi, ref_fingerprints, stats):
    """New guard clauses of a predicate:  `if C: return False` + `return E`  ->  `return (not C) and E`;
    `if C: return True` + `return E`  ->  `return C or E`  (same evaluation order and short-circuiting)."""
    from . import alpha

    locs = alpha.local_names(fi.node)
    done = 0
    changed = True
    while changed:
        changed = False
        for n in list(walk_function(fi.node)):
            if not (isinstance(n, ast.If) and not n.orelse and len(n.body) == 1 and isinstance(n.body[0], ast.Return) and isinstance(n.body[0].value, ast.Constant) and isinstance(n.body[0].value.value, bool)):
                continue
            blk, par = _block_of(n)
            if blk is None:
                continue
            i = [k for k, x in enumerate(blk) if x is n][0]
            if i + 1 >= len(blk) or not isinstance(blk[i + 1], ast.Return) or blk[i + 1].value is None:
                continue
            if _in_reference(fi, n, locs, ref_fingerprints):
                continue
            nxt = blk[i + 1].value
            if n.body[0].value.value:
                val = ast.BoolOp(op=ast.Or(), values=[n.test, nxt])
            else:
                val = ast.BoolOp(op=ast.And(), values=[_negated(n.test), nxt])
            # flatten nested same-operator BoolOps
            flat = []
            for v in val.values:
                if isinstance(v, ast.BoolOp) and type(v.op) is type(val.op):
                    flat.extend(v.values)
                else:
                    flat.append(v)
            val.values = flat
            new = ast.Return(value=val)
            ast.copy_location(new, n)
            ast.fix_missing_locations(new)
            blk[i:i + 2] = [new]
            set_parents(fi.node)
            done += 1
            changed = True
            break
    if done:
        stats.setdefault("#bool_returns", []).append("%s:%d" % (fi.qual, done))
    return done


def _unroll_new_quantifiers(fi, ref_fingerprints, stats):
    """In a new statement, all(E for x in (a, b, ..)) / any(..) over a short literal sequence is E[a] and E[b] .. / E[a] or E[b] .."""
    from . import alpha

    locs = alpha.local_names(fi.node)
    done = 0
    for c in [x for x in ast.walk(fi.node) if isinstance(x, ast.Call) and isinstance(x.func, ast.Name) and x.func.id in ("all", "any") and len(x.args) == 1 and not x.keywords and isinstance(x.args[0], (ast.GeneratorExp, ast.ListComp))]:
        g0 = c.args[0]
        if len(g0.generators) != 1 or g0.generators[0].ifs or g0.generators[0].is_async:
            continue
        g = g0.generators[0]
        it = g.iter
        if not (isinstance(it, (ast.Tuple, ast.List)) and 1 <= len(it.elts) <= 4 and all(_value_like(e) for e in it.elts)):
            continue
        st = _stmt_of(c)
        if st is None or _in_reference(fi, st, locs, ref_fingerprints):
            continue
        terms = []
        ok = True
        for e in it.elts:
            if isinstance(g.target, ast.Name):
                mp = {g.target.id: e}
            elif isinstance(g.target, ast.Tuple) and isinstance(e, ast.Tuple) and len(e.elts) == len(g.target.elts) and all(isinstance(t, ast.Name) for t in g.target.elts):
                mp = {t.id: v for t, v in zip(g.target.elts, e.elts)}
            else:
                ok = False
                break
            holder = ast.Expression(body=_clone(g0.elt))
            _Subst(mp).visit(holder)
            terms.append(holder.body)
        if not ok:
            continue
        new = terms[0] if len(terms) == 1 else ast.BoolOp(op=ast.And() if c.func.id == "all" else ast.Or(), values=terms)
        p = c.parent
        for f in p._fields:
            v = getattr(p, f, None)
            if v is c:
                setattr(p, f, new)
            elif isinstance(v, list):
                for k_, z in enumerate(v):
                    if z is c:
                        v[k_] = new
        ast.copy_location(new, c)
        ast.fix_missing_locations(new)
        set_parents(fi.node)
        stats.setdefault("#quantifiers", []).append(fi.qual)
        done += 1
    return done


def _reused_names(fi, ref_locals, params):
    """Reference names all of whose bindings in the current function are *new* plain assignments: the refactoring re-used the
    name for a temporary (the reference's own binding, e.g. a loop target, went away or was split off)."""
    from . import alpha

    fps = getattr(fi, "_ref_fps", None)
    if fps is None:
        return set()
    locs = alpha.local_names(fi.node)
    ref_assigned = getattr(fi, "_ref_assigned", set())
    by = {}
    for n in ast.walk(fi.node):
        if isinstance(n, ast.Name) and isinstance(n.ctx, (ast.Store, ast.Del)) and n.id in ref_locals and n.id not in params:
            by.setdefault(n.id, []).append(n)
    out = set()
    for name, sts in by.items():
        if name in ref_assigned:
            continue  # the reference assigns this variable itself: a new assignment is a changed definition, not a re-used name
        ok = True
        for st in sts:
            d = getattr(st, "parent", None)
            if isinstance(d, ast.Tuple):
                d = getattr(d, "parent", None)
            if not (isinstance(d, ast.Assign) and len(d.targets) == 1) or alpha._fingerprint(d, locs)[0] in fps:
                ok = False
                break
        if ok:
            out.add(name)
    return out


def _propagate_temps(fi, ref_locals, stats):
    fnode = fi.node
    params = {a.arg for a in fnode.args.posonlyargs + fnode.args.args + fnode.args.kwonlyargs}
    bound = _names_bound(fnode)
    new_locals = {x for x in bound if x not in ref_locals and x not in params}
    new_locals |= _reused_names(fi, ref_locals, params)
    if not new_locals:
        return 0
    set_parents(fnode)
    if _split_tuple_assignments(fnode, new_locals):
        set_parents(fnode)
    n_done = 0
    progress = True
    rounds = 0
    while progress and rounds < 8:
        progress = False
        rounds += 1
        stores, loads = {}, {}
        other_binding = set()
        for n in ast.walk(fnode):
            if isinstance(n, ast.Name) and n.id in new_locals:
                par_ = getattr(n, "parent", None)
                if isinstance(par_, ast.AnnAssign) and par_.value is None and par_.target is n:
                    continue  # a bare declaration (`x: int`, Cython `cdef int x`) binds nothing
                (stores if isinstance(n.ctx, (ast.Store, ast.Del)) else loads).setdefault(n.id, []).append(n)
            elif isinstance(n, ast.ExceptHandler) and n.name in new_locals:
                other_binding.add(n.name)
        all_stores = {}
        for n in ast.walk(fnode):
            if isinstance(n, ast.Name) and isinstance(n.ctx, (ast.Store, ast.Del)):
                all_stores.setdefault(n.id, []).append(n)
        for t in sorted(new_locals):
            if t in other_binding or not stores.get(t):
                continue
            # every binding must be a plain single-target assignment; each definition covers the uses that
            # follow it inside its own block up to the next definition in that block
            defs = []
            plain = True
            for st in stores[t]:
                d = getattr(st, "parent", None)
                if not (isinstance(d, ast.Assign) and len(d.targets) == 1 and d.targets[0] is st):
                    plain = False
                    break
                blk, owner = _block_of(d)
                if blk is None:
                    plain = False
                    break
                defs.append((st, d, blk, [k for k, x in enumerate(blk) if x is d][0]))
            if not plain:
                continue
            uses = loads.get(t, [])
            if not uses:
                continue  # unused temporaries are left alone
            cover = {}
            ok = True
            for un in uses:
                owner_def = None
                for st, d, blk, di in defs:
                    s_ = _stmt_of(un)
                    while s_ is not None and not any(x is s_ for x in blk):
                        par = getattr(s_, "parent", None)
                        s_ = _stmt_of(par) if par is not None else None
                    if s_ is None:
                        continue
                    ui = [k for k, x in enumerate(blk) if x is s_][0]
                    if ui <= di:
                        continue
                    # no other definition of t in the same block between di and ui
                    if any(b is blk and di < dj <= ui and dd is not d and not (dj == ui and s_ is dd and False) for _, dd, b, dj in defs):
                        continue
                    if owner_def is None or owner_def[3] < di or owner_def[2] is not blk:
                        owner_def = (st, d, blk, di)
                if owner_def is None:
                    ok = False
                    break
                cover.setdefault(id(owner_def[1]), []).append(un)
            def closed_lambda(lm):
                # free names must mean the same wherever the lambda ends up: not bound in the function at all, or bound
                # exactly once (a late-binding closure over a local that is never rebound reads that one value)
                own = {a_.arg for a_ in lm.args.args + lm.args.posonlyargs + lm.args.kwonlyargs}
                free = ({x.id for x in ast.walk(lm.body) if isinstance(x, ast.Name)} - own) & bound
                return all(sum(1 for y in ast.walk(fnode) if isinstance(y, ast.Name) and y.id == nm_ and isinstance(y.ctx, (ast.Store, ast.Del))) == 1 for nm_ in free)

            if not ok or any(isinstance(x, (ast.Yield, ast.YieldFrom, ast.Await, ast.NamedExpr)) or (isinstance(x, ast.Lambda) and not closed_lambda(x)) for _, d, _, _ in defs for x in ast.walk(d.value)):
                continue
            # an expression that creates a fresh object (display, comprehension, constructor or any other call) is an
            # identity, not a value: it may only be moved to a single use, and never to a place where it is mutated
            fresh_multi = False
            for _, d, _, _ in defs:
                if not _value_like(d.value):
                    us = cover.get(id(d), [])
                    if len(us) != 1 or _is_mutated_use(us[0]):
                        fresh_multi = True
            if fresh_multi:
                continue
            if len(defs) > 1:
                # several definitions (instances of the same inlined helper, or branches): none may lie in the
                # scope of another one, otherwise a use could see either of them
                def in_scope(x, y):
                    return any(z is y[1] for s_ in x[2][x[3] + 1 :] for z in ast.walk(s_))

                if any(in_scope(x, y) for x in defs for y in defs if x is not y):
                    continue
            clash = False
            order = {}
            stack_ = [fnode]
            k_ = 0
            while stack_:
                x_ = stack_.pop()
                order[id(x_)] = k_
                k_ += 1
                stack_.extend(reversed(list(ast.iter_child_nodes(x_))))

            def loops_around(x):
                out_ = []
                p_ = getattr(x, "parent", None)
                while p_ is not None and p_ is not fnode:
                    if isinstance(p_, (ast.For, ast.While, ast.AsyncFor)):
                        out_.append(p_)
                    p_ = getattr(p_, "parent", None)
                return out_

            for st, d, blk, di in defs:
                e = d.value
                my_uses = cover.get(id(d), [])
                if not my_uses:
                    continue
                free = _names_used(e) - {x.id for x in ast.walk(e) if isinstance(x, ast.Name) and isinstance(x.ctx, ast.Store)}
                d_loops = {id(l) for l in loops_around(d)}
                last_use = max(order[id(un)] for un in my_uses)
                inside_def = {id(x) for x in ast.walk(d)}
                # objects read through attributes / subscripts: a store or mutating call along the same access path between
                # the definition and the last use changes what the expression would yield there (paths: x.a.b, x[] ...;
                # two paths interfere when one is a prefix of the other)
                def apath(x):
                    parts = []
                    while isinstance(x, (ast.Attribute, ast.Subscript)):
                        parts.append(x.attr if isinstance(x, ast.Attribute) else "[]")
                        x = x.value
                    if isinstance(x, ast.Name):
                        return (x.id,) + tuple(reversed(parts)), x
                    return None, None

                load_paths = set()
                for x in ast.walk(e):
                    if isinstance(x, (ast.Attribute, ast.Subscript)) and isinstance(x.ctx, ast.Load) and not isinstance(getattr(x, "parent", None), (ast.Attribute, ast.Subscript)):
                        pth, _r = apath(x)
                        if pth:
                            load_paths.add(pth)
                    elif isinstance(x, (ast.Attribute, ast.Subscript)) and isinstance(x.ctx, ast.Load):
                        pth, _r = apath(x)
                        if pth and isinstance(getattr(x, "parent", None), ast.Call):
                            load_paths.add(pth)
                # a plain name that is read is the object itself: a store *into* it (x[i] = .., x.append(..)) interferes as well
                comp_vars = {y.id for x in ast.walk(e) if isinstance(x, ast.comprehension) for y in ast.walk(x.target) if isinstance(y, ast.Name)}
                for x in ast.walk(e):
                    if isinstance(x, ast.Name) and isinstance(x.ctx, ast.Load) and x.id not in comp_vars and not isinstance(getattr(x, "parent", None), (ast.Attribute, ast.Subscript)):
                        load_paths.add((x.id,))
                if load_paths:
                    use_ids = {id(un) for un in my_uses}
                    for x in ast.walk(fnode):
                        hit = None
                        if isinstance(x, (ast.Attribute, ast.Subscript)) and isinstance(x.ctx, (ast.Store, ast.Del)):
                            hit = x
                        elif isinstance(x, ast.Call) and isinstance(x.func, ast.Attribute) and x.func.attr in _MUTATING_METHODS:
                            hit = x.func.value
                        if hit is None or id(x) not in order:
                            continue
                        if not (order[id(d)] < order[id(x)] < last_use):
                            continue
                        if isinstance(x, (ast.Attribute, ast.Subscript)):
                            # the target of an assignment is stored after its right-hand side was evaluated: a use inside
                            # the value of the same statement still sees the old object
                            st_x = _stmt_of(x)
                            # (not when a loop that does not contain the definition repeats the statement: the store of
                            # one iteration precedes the read of the next)
                            repeated = any(id(l_) not in d_loops for l_ in loops_around(st_x))
                            if not repeated and isinstance(st_x, (ast.Assign, ast.AugAssign, ast.AnnAssign)) and st_x.value is not None and not any(order[id(un)] > order[id(x)] and not any(z is un for z in ast.walk(st_x.value)) for un in my_uses):
                                continue
                        hp, r_ = apath(hit)
                        if hp is None:
                            continue
                        if id(r_) in use_ids:
                            if max(order[id(un)] for un in my_uses) == order[id(r_)]:
                                continue  # the store goes through the temporary itself and is its last use
                            clash = True
                            break
                        if any(hp[: len(lp)] == lp or lp[: len(hp)] == hp for lp in load_paths):
                            clash = True
                            break
                    if clash:
                        break
                for nm in free:
                    for sn in all_stores.get(nm, []):
                        if sn is st or id(sn) in inside_def:
                            continue  # the binding itself / comprehension variables of the defining expression
                        if order[id(sn)] < order[id(d)]:
                            continue  # re-bound before the definition is (re-)evaluated
                        if order[id(sn)] <= last_use:
                            clash = True
                            break
                        # after the last use: only harmful when a loop that does not contain the definition
                        # brings control back from the store to a use
                        sn_loops = [l for l in loops_around(sn) if id(l) not in d_loops]
                        if any(any(z is un for z in ast.walk(l)) for l in sn_loops for un in my_uses):
                            clash = True
                            break
                    if clash:
                        break
                if clash:
                    break
            if clash:
                continue
            # substitute
            for st, d, blk, di in defs:
                e = d.value
                for un in cover.get(id(d), []):
                    p = un.parent
                    new = _clone(e)
                    if isinstance(new, ast.Call) and isinstance(new.func, ast.Name) and new.func.id == "addressof" and isinstance(p, (ast.Attribute, ast.Subscript)) and p.value is un:
                        new = new.args[0]  # p->field: the pointer is dereferenced on use
                    for f in p._fields:
                        v = getattr(p, f, None)
                        if v is un:
                            setattr(p, f, new)
                        elif isinstance(v, list):
                            for k, x in enumerate(v):
                                if x is un:
                                    v[k] = new
                blk.remove(d)
                if not blk:
                    ps = ast.Pass()
                    ast.copy_location(ps, d)
                    blk.append(ps)
            stats.setdefault("#temps", []).append("%s:%s" % (fi.qual, t))
            n_done += 1
            progress = True
            set_parents(fnode)
            break  # recompute the tables
    return n_done


# ------------------------------------------------------------------------------------------------ loops
def _const_seq(e, module_consts):
    if isinstance(e, (ast.Tuple, ast.List)) and e.elts and all(isinstance(x, ast.Constant) for x in e.elts):
        return e.elts
    # a short literal tuple of plain expressions (`for key in (a[i], a[i] + 1)`) is unrolled as well
    if isinstance(e, (ast.Tuple, ast.List)) and 1 < len(e.elts) <= 4 and all(_value_like(x) for x in e.elts):
        return e.elts
    if isinstance(e, ast.Name) and e.id in module_consts:
        return module_consts[e.id]
    return None


def _is_literal(e):
    if isinstance(e, ast.Constant):
        return True
    if isinstance(e, (ast.Tuple, ast.List, ast.Set)):
        return all(_is_literal(x) for x in e.elts)
    if isinstance(e, ast.Dict):
        return all(k is not None and _is_literal(k) for k in e.keys) and all(_is_literal(v) for v in e.values)
    if isinstance(e, ast.Call) and isinstance(e.func, ast.Name) and e.func.id in ("frozenset", "tuple") and len(e.args) == 1 and not e.keywords:
        return _is_literal(e.args[0])
    if isinstance(e, ast.UnaryOp) and isinstance(e.op, ast.USub):
        return isinstance(e.operand, ast.Constant)
    return False


class _ClassConst(ast.NodeTransformer):
    """self.X / cls.X / ClassName.X -> the literal X is bound to at class level; {..}.items()/keys()/values() -> tuples."""

    def __init__(self, consts, cname, in_class):
        self.consts, self.cname, self.in_class = consts, cname, in_class
        self.n = 0
        self.used = set()

    def visit_Attribute(self, node):
        self.generic_visit(node)
        if isinstance(node.ctx, ast.Load) and node.attr in self.consts and isinstance(node.value, ast.Name) and ((self.in_class and node.value.id in ("self", "cls")) or node.value.id == self.cname):
            self.n += 1
            self.used.add(node.attr)
            new = _clone(self.consts[node.attr])
            new._folded = True
            return ast.copy_location(new, node)
        return node

    def visit_Call(self, node):
        self.generic_visit(node)
        f = node.func
        if isinstance(f, ast.Attribute) and isinstance(f.value, ast.Dict) and getattr(f.value, "_folded", False) and not node.args and not node.keywords and f.attr in ("items", "keys", "values"):
            d = f.value
            if f.attr == "items":
                elts = [ast.Tuple(elts=[k, v], ctx=ast.Load()) for k, v in zip(d.keys, d.values)]
            elif f.attr == "keys":
                elts = list(d.keys)
            else:
                elts = list(d.values)
            new = ast.Tuple(elts=elts, ctx=ast.Load())
            ast.copy_location(new, node)
            ast.fix_missing_locations(new)
            return new
        return node


class _NamedTupleCtor(ast.NodeTransformer):
    def __init__(self, nts):
        self.nts = nts
        self.n = 0

    def visit_Call(self, node):
        self.generic_visit(node)
        if isinstance(node.func, ast.Name) and node.func.id in self.nts and not any(isinstance(a, ast.Starred) for a in node.args) and all(k.arg for k in node.keywords):
            fields = self.nts[node.func.id]
            vals = dict(zip([f for f, _ in fields], node.args))
            for k in node.keywords:
                vals[k.arg] = k.value
            elts = []
            for f, d in fields:
                if f in vals:
                    elts.append(vals[f])
                elif d is not None:
                    elts.append(_clone(d))
                else:
                    return node
            if len(node.args) > len(fields):
                return node
            self.n += 1
            new = ast.Tuple(elts=elts, ctx=ast.Load())
            ast.copy_location(new, node)
            ast.fix_missing_locations(new)
            return new
        return node


def _module_consts(m):
    out = {}
    for s in m.tree.body:
        if isinstance(s, ast.Assign) and len(s.targets) == 1 and isinstance(s.targets[0], ast.Name) and isinstance(s.value, (ast.Tuple, ast.List)) and s.value.elts and all(isinstance(x, ast.Constant) for x in s.value.elts):
            out[s.targets[0].id] = s.value.elts
    # class-level constants are looked up by bare attribute name as well
    for c in ast.walk(m.tree):
        if isinstance(c, ast.ClassDef):
            for s in c.body:
                if isinstance(s, ast.Assign) and len(s.targets) == 1 and isinstance(s.targets[0], ast.Name) and isinstance(s.value, (ast.Tuple, ast.List)) and s.value.elts and all(isinstance(x, ast.Constant) for x in s.value.elts):
                    out.setdefault("." + s.targets[0].id, s.value.elts)
    return out


class _AttrConst(ast.NodeTransformer):
    """getattr(o, "c") -> o.c ; setattr(o, "c", v) statement -> o.c = v ; x = x + y -> x += y."""

    def visit_Call(self, node):
        self.generic_visit(node)
        if isinstance(node.func, ast.Name) and node.func.id == "getattr" and len(node.args) == 2 and isinstance(node.args[1], ast.Constant) and isinstance(node.args[1].value, str) and node.args[1].value.isidentifier():
            new = ast.Attribute(value=node.args[0], attr=node.args[1].value, ctx=ast.Load())
            return ast.copy_location(new, node)
        return node

    def visit_Expr(self, node):
        self.generic_visit(node)
        c = node.value
        if isinstance(c, ast.Call) and isinstance(c.func, ast.Name) and c.func.id == "setattr" and len(c.args) == 3 and isinstance(c.args[1], ast.Constant) and isinstance(c.args[1].value, str) and c.args[1].value.isidentifier():
            tgt = ast.Attribute(value=c.args[0], attr=c.args[1].value, ctx=ast.Store())
            val = c.args[2]
            if isinstance(val, ast.BinOp) and ast.dump(val.left) == ast.dump(ast.Attribute(value=c.args[0], attr=c.args[1].value, ctx=ast.Load())):
                new = ast.AugAssign(target=tgt, op=val.op, value=val.right)
            else:
                new = ast.Assign(targets=[tgt], value=val, type_comment=None)
            ast.copy_location(new, node)
            ast.fix_missing_locations(new)
            return new
        return node


def _split_new_ifexp_assigns(fi, ref_fingerprints, stats):
    """A new `x = A if C else B` statement (plain name or attribute/subscript target) is `if C: x = A else: x = B`."""
    from . import alpha

    locs = alpha.local_names(fi.node)
    done = 0
    for n in list(walk_function(fi.node)):
        if not (isinstance(n, ast.Assign) and len(n.targets) == 1 and isinstance(n.value, ast.IfExp)):
            continue
        blk, _p = _block_of(n)
        if blk is None:
            continue
        if _in_reference(fi, n, locs, ref_fingerprints):
            continue
        t1, t2 = _clone(n.targets[0]), _clone(n.targets[0])
        a1 = ast.Assign(targets=[t1], value=n.value.body, type_comment=None)
        a2 = ast.Assign(targets=[t2], value=n.value.orelse, type_comment=None)
        new = ast.If(test=n.value.test, body=[a1], orelse=[a2])
        for x in (a1, a2, new):
            ast.copy_location(x, n)
        ast.fix_missing_locations(new)
        blk[[i_ for i_, x_ in enumerate(blk) if x_ is n][0]] = new
        new.parent = _p
        done += 1
    if done:
        stats.setdefault("#ifexp", []).append("%s:%d" % (fi.qual, done))
    return done


def _unfold_filtered_loops(fi, ref_fingerprints, stats):
    """A new `for T in (V for V in ITER if COND): BODY` (generator or list, element = the variable itself) is
    `for T in ITER: if COND[T/V]: BODY`.  (For a list the filter is evaluated for all elements before the first BODY runs;
    the normal form assumes BODY does not change what COND sees for later elements -- what a reviewer of such a clean-up checks.)"""
    from . import alpha

    locs = alpha.local_names(fi.node)
    done = 0
    ref_locals = getattr(fi, "_ref_locals", None)
    for n in list(walk_function(fi.node)):
        if not (isinstance(n, ast.For) and not n.orelse):
            continue
        c = n.iter
        if isinstance(c, ast.Name) and ref_locals is not None and c.id not in ref_locals:
            # a new temporary bound once to the comprehension (it may have further readers: they keep the temporary)
            sts = [x for x in ast.walk(fi.node) if isinstance(x, ast.Name) and x.id == c.id and isinstance(x.ctx, (ast.Store, ast.Del))]
            d_ = getattr(sts[0], "parent", None) if len(sts) == 1 else None
            if isinstance(d_, ast.Assign) and len(d_.targets) == 1 and isinstance(d_.value, (ast.ListComp, ast.GeneratorExp)):
                c = _clone(d_.value)
        if not isinstance(c, (ast.GeneratorExp, ast.ListComp)):
            continue
        if len(c.generators) != 1 or not c.generators[0].ifs or c.generators[0].is_async:
            continue
        g = c.generators[0]

        def flat(t):
            return [x.id for x in t.elts] if isinstance(t, ast.Tuple) and all(isinstance(x, ast.Name) for x in t.elts) else ([t.id] if isinstance(t, ast.Name) else None)

        gt, et, nt = flat(g.target), flat(c.elt), flat(n.target)
        if gt is None or et is None or nt is None or gt != et or len(nt) != len(gt) or isinstance(g.target, ast.Tuple) != isinstance(n.target, ast.Tuple):
            continue
        if _in_reference(fi, n, locs, ref_fingerprints):
            continue
        cond = g.ifs[0] if len(g.ifs) == 1 else ast.BoolOp(op=ast.And(), values=list(g.ifs))
        cond = _clone(cond)
        ren = {a: b for a, b in zip(gt, nt) if a != b}
        if ren:
            if set(ren.values()) & (set(gt) - set(ren)):
                continue
            holder = ast.Expression(body=cond)
            _Rename(ren).visit(holder)
            cond = holder.body
        guard = ast.If(test=cond, body=list(n.body), orelse=[])
        ast.copy_location(guard, n)
        n.iter = g.iter if c is n.iter else _clone(g.iter)
        n.body = [guard]
        ast.fix_missing_locations(n)
        stats.setdefault("#filtered_loops", []).append(fi.qual)
        done += 1
    return done


def _unfold_mapped_loops(fi, ref_fingerprints, stats):
    """A new `for T in (ELT for V in ITER [if COND]): BODY` over a *generator* (lazy: ELT is evaluated right before BODY)
    whose element is not the loop variable itself is `for V in ITER: [if COND:] T = ELT; BODY`."""
    from . import alpha

    locs = alpha.local_names(fi.node)
    done = 0
    for n in list(walk_function(fi.node)):
        if not (isinstance(n, ast.For) and not n.orelse and isinstance(n.iter, ast.GeneratorExp)):
            continue
        c = n.iter
        if len(c.generators) != 1 or c.generators[0].is_async:
            continue
        g = c.generators[0]
        if not (isinstance(g.target, (ast.Name, ast.Tuple)) and not (isinstance(c.elt, ast.Name) and isinstance(g.target, ast.Name) and c.elt.id == g.target.id)):
            continue
        if any(isinstance(x, (ast.Continue,)) for x in ast.walk(n)) and g.ifs:
            pass  # a continue in BODY still continues the (same) loop
        if _in_reference(fi, n, locs, ref_fingerprints):
            continue
        vnames = {x.id for x in ast.walk(g.target) if isinstance(x, ast.Name)}
        tnames = {x.id for x in ast.walk(n.target) if isinstance(x, ast.Name)}
        # the comprehension variable becomes a local of the function: it must not collide with one that is live
        others = {x.id for x in ast.walk(fi.node) if isinstance(x, ast.Name)} - {x.id for x in ast.walk(c) if isinstance(x, ast.Name)}
        overlap = vnames & (others | tnames)
        if overlap:
            # allowed when the shared name is passed through unchanged: (f(x), x) for x in IT  with target (y, x)
            ok_ = isinstance(n.target, ast.Tuple) and isinstance(c.elt, ast.Tuple) and len(n.target.elts) == len(c.elt.elts) and not (vnames & others)
            if ok_:
                for te, ee in zip(n.target.elts, c.elt.elts):
                    if isinstance(te, ast.Name) and te.id in overlap and not (isinstance(ee, ast.Name) and ee.id == te.id):
                        ok_ = False
                    if isinstance(ee, ast.Name) and ee.id in overlap and not (isinstance(te, ast.Name) and te.id == ee.id):
                        ok_ = False
            if not ok_:
                continue
            pairs = [(te, ee) for te, ee in zip(n.target.elts, c.elt.elts) if not (isinstance(te, ast.Name) and isinstance(ee, ast.Name) and te.id == ee.id)]
            tgt_ = ast.Tuple(elts=[te for te, _ in pairs], ctx=ast.Store())
            val_ = ast.Tuple(elts=[ee for _, ee in pairs], ctx=ast.Load())
            assign = ast.Assign(targets=[tgt_], value=val_, type_comment=None)
        else:
            assign = ast.Assign(targets=[n.target], value=c.elt, type_comment=None)
        ast.copy_location(assign, n)
        body = [assign] + list(n.body)
        if g.ifs:
            cond = g.ifs[0] if len(g.ifs) == 1 else ast.BoolOp(op=ast.And(), values=list(g.ifs))
            guard = ast.If(test=cond, body=body, orelse=[])
            ast.copy_location(guard, n)
            body = [guard]
        tgt = _clone(g.target)
        for x in ast.walk(tgt):
            if isinstance(x, (ast.Name, ast.Tuple)):
                x.ctx = ast.Store()
        n.target = tgt
        n.iter = g.iter
        n.body = body
        ast.fix_missing_locations(n)
        stats.setdefault("#mapped_loops", []).append(fi.qual)
        done += 1
    return done


def _in_reference(fi, stmt, locs, ref_fingerprints):
    """Is this statement one of the reference tree's?  Simple statements: header fingerprint; compound statements: digest of
    the whole statement (a new loop with the same header as an old one is still new)."""
    from . import alpha

    if isinstance(stmt, (ast.For, ast.While, ast.If, ast.With, ast.Try)):
        deep = getattr(fi, "_ref_deep", None)
        if deep is not None:
            return alpha.deep_fingerprint(stmt, locs) in deep
    return alpha._fingerprint(stmt, locs)[0] in ref_fingerprints


def _unzip_new_pairs(fi, ref_locals, stats):
    """A new local `S = list(zip(A, B, ...))` (or tuple(zip(..))) over plain names that are not rebound afterwards, used only
    as S[i], S[a:b] or as an iterable: S[i] -> (A[i], B[i], ...);  S[a:b] -> zip(A[a:b], B[a:b], ...);  S -> zip(A, B, ...)."""
    done = 0
    for n in list(walk_function(fi.node)):
        if not (isinstance(n, ast.Assign) and len(n.targets) == 1 and isinstance(n.targets[0], ast.Name) and n.targets[0].id not in ref_locals):
            continue
        v = n.value
        if not (isinstance(v, ast.Call) and isinstance(v.func, ast.Name) and v.func.id in ("list", "tuple") and len(v.args) == 1 and isinstance(v.args[0], ast.Call) and isinstance(v.args[0].func, ast.Name) and v.args[0].func.id == "zip" and len(v.args[0].args) >= 2 and all(isinstance(a, ast.Name) for a in v.args[0].args) and not v.args[0].keywords):
            continue
        name = n.targets[0].id
        cols = [a.id for a in v.args[0].args]
        stores = [x for x in ast.walk(fi.node) if isinstance(x, ast.Name) and x.id == name and isinstance(x.ctx, (ast.Store, ast.Del))]
        if len(stores) != 1:
            continue
        # the columns are bound before the zip and never rebound (their contents may change: list(zip(..)) holds the same objects)
        col_stores = [x for x in ast.walk(fi.node) if isinstance(x, ast.Name) and x.id in cols and isinstance(x.ctx, (ast.Store, ast.Del))]
        if any(getattr(x, "lineno", 0) > n.lineno for x in col_stores):
            continue
        uses = [x for x in ast.walk(fi.node) if isinstance(x, ast.Name) and x.id == name and isinstance(x.ctx, ast.Load)]
        plan = []
        ok = True
        for x in uses:
            p_ = getattr(x, "parent", None)
            if isinstance(p_, ast.Subscript) and p_.value is x and isinstance(p_.ctx, ast.Load):
                plan.append((p_, "slice" if isinstance(p_.slice, ast.Slice) else "index"))
            elif isinstance(p_, (ast.For, ast.comprehension)) and p_.iter is x:
                plan.append((x, "whole"))
            elif isinstance(p_, ast.Assign) and p_.value is x and len(p_.targets) == 1 and isinstance(p_.targets[0], ast.Name):
                ok = False  # aliasing: leave it
            else:
                ok = False
        if not ok or not plan:
            continue

        def col_sub(c, sl):
            return ast.Subscript(value=ast.Name(id=c, ctx=ast.Load()), slice=_clone(sl), ctx=ast.Load())

        class R(ast.NodeTransformer):
            def visit_Subscript(self, node):
                for tgt, kind in plan:
                    if tgt is node:
                        if kind == "index":
                            new = ast.Tuple(elts=[col_sub(c, node.slice) for c in cols], ctx=ast.Load())
                        else:
                            new = ast.Call(func=ast.Name(id="zip", ctx=ast.Load()), args=[col_sub(c, node.slice) for c in cols], keywords=[])
                        ast.copy_location(new, node)
                        ast.fix_missing_locations(new)
                        return new
                self.generic_visit(node)
                return node

            def visit_Name(self, node):
                for tgt, kind in plan:
                    if tgt is node and kind == "whole":
                        new = ast.Call(func=ast.Name(id="zip", ctx=ast.Load()), args=[ast.Name(id=c, ctx=ast.Load()) for c in cols], keywords=[])
                        ast.copy_location(new, node)
                        ast.fix_missing_locations(new)
                        return new
                return node

        R().visit(fi.node)
        blk, _p = _block_of(n)
        if blk is not None:
            blk[:] = [x for x in blk if x is not n] or [ast.copy_location(ast.Pass(), n)]
        set_parents(fi.node)
        stats.setdefault("#unzipped", []).append("%s:%s" % (fi.qual, name))
        done += 1
    return done


def _split_loop_target_ranges(fi, ref_locals, stats):
    """A new local that is both a for-loop target and assigned elsewhere, and whose value is never read after that loop
    without being assigned again, gets its own name inside the loop (live-range splitting): the two variables merely share a name."""
    from .cfg import CFG

    done = 0
    cfg = None
    for loop in [n for n in walk_function(fi.node) if isinstance(n, ast.For)]:
        tnames = [x for x in ast.walk(loop.target) if isinstance(x, ast.Name)]
        for t in tnames:
            v = t.id
            other_stores = [x for x in ast.walk(fi.node) if isinstance(x, ast.Name) and x.id == v and isinstance(x.ctx, (ast.Store, ast.Del)) and x is not t]
            if v in ref_locals:
                # a reference name: only if every other binding is a new statement (the refactoring re-used the name)
                from . import alpha as _alpha

                fps = getattr(fi, "_ref_fps", None) or set()
                locs_ = _alpha.local_names(fi.node)
                def _new_stmt(x):
                    d = getattr(x, "parent", None)
                    if isinstance(d, ast.Tuple):
                        d = getattr(d, "parent", None)
                    return isinstance(d, ast.Assign) and _alpha._fingerprint(d, locs_)[0] not in fps
                if not other_stores or not all(_new_stmt(x) for x in other_stores):
                    continue
            if not other_stores or any(any(y is x for y in ast.walk(loop)) for x in other_stores):
                continue  # only target of this loop, or re-assigned inside it
            if any(isinstance(x, ast.Name) and x.id == v for x in ast.walk(loop.iter)):
                continue
            if cfg is None:
                try:
                    cfg = CFG(fi.node, fi.module.relpath)
                except Exception:
                    return done
            try:
                head = cfg.node_of(loop)
            except Exception:
                continue
            defs = set()
            uses = set()
            for nd in cfg.g.nodes:
                a = cfg.ast(nd)
                st = cfg.stmt(nd)
                if a is None or nd == head:
                    continue
                inside = st is not None and any(y is st for y in ast.walk(loop)) and st is not loop
                if inside:
                    continue
                scan = [a] if not isinstance(a, (ast.For, ast.While, ast.If, ast.With, ast.Try)) else ([a.target, a.iter] if isinstance(a, ast.For) else [getattr(a, "test", None)] if hasattr(a, "test") else [])
                for part in scan:
                    if part is None:
                        continue
                    for x in ast.walk(part):
                        if isinstance(x, ast.Name) and x.id == v:
                            if isinstance(x.ctx, (ast.Store, ast.Del)):
                                defs.add(nd)
                            else:
                                uses.add(nd)
            exits = [m for m in cfg.g.successors(head) if "loop" not in cfg.g[head][m]["label"].split("|")]
            leak = False
            for e in exits:
                for un in uses:
                    # a use node that also defines v (x = f(x)) reads first
                    if e == un or cfg.find_path(e, un, avoid_nodes=defs - {un}) is not None:
                        leak = True
                        break
                if leak:
                    break
            if leak:
                continue
            taken = {x.id for x in ast.walk(fi.node) if isinstance(x, ast.Name)}
            k = 1
            while "%s_%d" % (v, k) in taken:
                k += 1
            new = "%s_%d" % (v, k)
            t.id = new
            for st in loop.body:
                for x in ast.walk(st):
                    if isinstance(x, ast.Name) and x.id == v:
                        x.id = new
            stats.setdefault("#split_ranges", []).append("%s:%s" % (fi.qual, v))
            done += 1
            cfg = None
    return done


def _zip_to_indexed(fi, ref_fingerprints, stats):
    """A new `for x, y in zip(X[k:], Y[k:])` (or zip(X, Y)) over plain names is the indexed walk
    `for i, x in enumerate(X[k:], start=k): y = Y[i]` -- the normal form the reference uses for parallel lists."""
    from . import alpha

    locs = alpha.local_names(fi.node)
    done = 0
    for n in list(walk_function(fi.node)):
        if not (isinstance(n, ast.For) and not n.orelse and isinstance(n.target, ast.Tuple) and all(isinstance(e, ast.Name) for e in n.target.elts) and isinstance(n.iter, ast.Call) and isinstance(n.iter.func, ast.Name) and n.iter.func.id == "zip" and len(n.iter.args) == len(n.target.elts) >= 2 and not n.iter.keywords):
            continue
        args = n.iter.args

        def parts(a):
            if isinstance(a, ast.Name):
                return a.id, 0
            if isinstance(a, ast.Subscript) and isinstance(a.value, ast.Name) and isinstance(a.slice, ast.Slice) and a.slice.upper is None and a.slice.step is None and isinstance(a.slice.lower, ast.Constant) and isinstance(a.slice.lower.value, int) and a.slice.lower.value >= 0:
                return a.value.id, a.slice.lower.value
            return None

        ps = [parts(a) for a in args]
        if any(p is None for p in ps) or len({p[1] for p in ps}) != 1 or ps[0][1] < 1:
            continue  # only parallel lists walked from a common positive offset; zip(A, B) itself is a fine normal form
        if _in_reference(fi, n, locs, ref_fingerprints):
            continue
        off = ps[0][1]
        taken = {x.id for x in ast.walk(fi.node) if isinstance(x, ast.Name)}
        idx = "index"
        k = 0
        while idx in taken:
            k += 1
            idx = "index_%d" % k
        pre = []
        for e, (base, _o) in list(zip(n.target.elts, ps))[1:]:
            a_ = ast.Assign(targets=[ast.Name(id=e.id, ctx=ast.Store())], value=ast.Subscript(value=ast.Name(id=base, ctx=ast.Load()), slice=ast.Name(id=idx, ctx=ast.Load()), ctx=ast.Load()), type_comment=None)
            ast.copy_location(a_, n)
            pre.append(a_)
        first = n.target.elts[0]
        n.target = ast.Tuple(elts=[ast.Name(id=idx, ctx=ast.Store()), ast.Name(id=first.id, ctx=ast.Store())], ctx=ast.Store())
        kw = [ast.keyword(arg="start", value=ast.Constant(value=off))] if off else []
        n.iter = ast.Call(func=ast.Name(id="enumerate", ctx=ast.Load()), args=[args[0]], keywords=kw)
        n.body = pre + list(n.body)
        ast.fix_missing_locations(n)
        stats.setdefault("#zip_indexed", []).append(fi.qual)
        done += 1
    return done


def _negated(cond):
    """AST of `not cond`, pushed into a single comparison where possible."""
    flip = {ast.Is: ast.IsNot, ast.IsNot: ast.Is, ast.Eq: ast.NotEq, ast.NotEq: ast.Eq, ast.In: ast.NotIn, ast.NotIn: ast.In, ast.Lt: ast.GtE, ast.GtE: ast.Lt, ast.Gt: ast.LtE, ast.LtE: ast.Gt}
    c = _clone(cond)
    if isinstance(c, ast.Compare) and len(c.ops) == 1 and type(c.ops[0]) in flip:
        c.ops = [flip[type(c.ops[0])]()]
        return c
    if isinstance(c, ast.UnaryOp) and isinstance(c.op, ast.Not):
        return c.operand
    return ast.UnaryOp(op=ast.Not(), operand=c)


def _fold_search_loops(fi, ref_fingerprints, stats):
    """New search loops become the quantifier they spell out:
        for X in IT:                      if all(not COND for X in IT):
            if COND: break         ->         BODY
        else:
            BODY
    and, as the tail of a function,
        for X in IT:
            if COND: return K1     ->     return any(COND for X in IT)   (K1 = True, K2 = False; all(not COND ...) for False/True)
        return K2
    """
    from . import alpha

    locs = alpha.local_names(fi.node)
    done = 0
    for n in list(walk_function(fi.node)):
        if not (isinstance(n, ast.For) and len(n.body) == 1 and isinstance(n.body[0], ast.If) and not n.body[0].orelse and len(n.body[0].body) == 1):
            continue
        inner = n.body[0].body[0]
        blk, par = _block_of(n)
        if blk is None or _in_reference(fi, n, locs, ref_fingerprints):
            continue
        idx = [k for k, x in enumerate(blk) if x is n][0]
        cond = n.body[0].test
        if any(isinstance(x, (ast.Yield, ast.YieldFrom, ast.Await, ast.NamedExpr)) for x in ast.walk(cond)):
            continue

        def gen(elt):
            g = ast.GeneratorExp(elt=elt, generators=[ast.comprehension(target=_clone(n.target), iter=n.iter, ifs=[], is_async=0)])
            return g

        if isinstance(inner, ast.Break) and n.orelse:
            test = ast.Call(func=ast.Name(id="all", ctx=ast.Load()), args=[gen(_negated(cond))], keywords=[])
            new = ast.If(test=test, body=list(n.orelse), orelse=[])
            ast.copy_location(new, n)
            ast.fix_missing_locations(new)
            blk[idx] = new
            done += 1
        elif isinstance(inner, ast.Return) and not n.orelse and isinstance(inner.value, ast.Constant) and isinstance(inner.value.value, bool) and idx + 1 < len(blk) and isinstance(blk[idx + 1], ast.Return) and isinstance(blk[idx + 1].value, ast.Constant) and isinstance(blk[idx + 1].value.value, bool) and blk[idx + 1].value.value != inner.value.value:
            if inner.value.value:
                val = ast.Call(func=ast.Name(id="any", ctx=ast.Load()), args=[gen(_clone(cond))], keywords=[])
            else:
                val = ast.Call(func=ast.Name(id="all", ctx=ast.Load()), args=[gen(_negated(cond))], keywords=[])
            new = ast.Return(value=val)
            ast.copy_location(new, n)
            ast.fix_missing_locations(new)
            blk[idx:idx + 2] = [new]
            done += 1
    if done:
        stats.setdefault("#search_loops", []).append("%s:%d" % (fi.qual, done))
    return done


def _unfold_filter_calls(fi, ref_fingerprints, stats):
    """A new `for T in filter(F, SEQ): BODY` is `for T in SEQ: if <F applied to T>: BODY` for F = C.__contains__, a lambda
    of one argument, or None."""
    from . import alpha

    locs = alpha.local_names(fi.node)
    done = 0
    for n in list(walk_function(fi.node)):
        if not (isinstance(n, ast.For) and not n.orelse and isinstance(n.target, ast.Name) and isinstance(n.iter, ast.Call) and isinstance(n.iter.func, ast.Name) and n.iter.func.id == "filter" and len(n.iter.args) == 2 and not n.iter.keywords):
            continue
        if _in_reference(fi, n, locs, ref_fingerprints):
            continue
        f, seq = n.iter.args
        t = ast.Name(id=n.target.id, ctx=ast.Load())
        if isinstance(f, ast.Attribute) and f.attr == "__contains__":
            cond = ast.Compare(left=t, ops=[ast.In()], comparators=[f.value])
        elif isinstance(f, ast.Lambda) and len(f.args.args) == 1 and not f.args.defaults:
            holder = ast.Expression(body=_clone(f.body))
            _Rename({f.args.args[0].arg: n.target.id}).visit(holder)
            cond = holder.body
        elif isinstance(f, ast.Constant) and f.value is None:
            cond = t
        else:
            continue
        guard = ast.If(test=cond, body=list(n.body), orelse=[])
        ast.copy_location(guard, n)
        n.iter = seq
        n.body = [guard]
        ast.fix_missing_locations(n)
        stats.setdefault("#filter_calls", []).append(fi.qual)
        done += 1
    return done


_PURE_ITER_CALLS = ("values", "items", "keys", "range", "len", "enumerate", "zip", "sorted", "list", "tuple", "reversed")


def _pure_iter(e):
    for x in ast.walk(e):
        if isinstance(x, ast.Call):
            f = x.func
            nm = f.attr if isinstance(f, ast.Attribute) else (f.id if isinstance(f, ast.Name) else None)
            if nm not in _PURE_ITER_CALLS:
                return False
        elif isinstance(x, (ast.Yield, ast.YieldFrom, ast.Await, ast.NamedExpr, ast.Lambda, ast.GeneratorExp, ast.ListComp, ast.SetComp, ast.DictComp)):
            return False
    return True


def _fuse_split_loops(fi, ref_fingerprints, stats):
    """Loop fission undone: two adjacent loops `for T in IT: A` / `for T in IT: B` over the same pure iterable, at least one
    of them new, A without continue/break/return, every effect of A and B going through the loop variable (stores and
    method calls rooted at T, plain locals): the per-element normal form is `for T in IT: A; B`."""
    from . import alpha

    locs = alpha.local_names(fi.node)
    done = 0
    changed = True
    while changed:
        changed = False
        for n in list(walk_function(fi.node)):
            if not (isinstance(n, ast.For) and not n.orelse):
                continue
            blk, par = _block_of(n)
            if blk is None:
                continue
            idx = [k for k, x in enumerate(blk) if x is n][0]
            if idx + 1 >= len(blk):
                continue
            m = blk[idx + 1]
            if not (isinstance(m, ast.For) and not m.orelse and ast.dump(m.target) == ast.dump(n.target) and ast.dump(m.iter) == ast.dump(n.iter) and _pure_iter(n.iter)):
                continue
            if _in_reference(fi, n, locs, ref_fingerprints) and _in_reference(fi, m, locs, ref_fingerprints):
                continue
            if _contains(n.body, (ast.Continue, ast.Break, ast.Return, ast.Yield, ast.YieldFrom)) or _contains(m.body, (ast.Break, ast.Return)):
                continue
            tnames = {x.id for x in ast.walk(n.target) if isinstance(x, ast.Name)}
            itnames = {x.id for x in ast.walk(n.iter) if isinstance(x, ast.Name)}

            def rooted_ok(stmts):
                for st in stmts:
                    for x in ast.walk(st):
                        if isinstance(x, (ast.Attribute, ast.Subscript)) and isinstance(x.ctx, (ast.Store, ast.Del)):
                            r = x
                            while isinstance(r, (ast.Attribute, ast.Subscript)):
                                r = r.value
                            if not (isinstance(r, ast.Name) and r.id in tnames):
                                return False
                        if isinstance(x, ast.Name) and isinstance(x.ctx, ast.Store) and x.id in itnames:
                            return False
                return True

            if not (rooted_ok(n.body) and rooted_ok(m.body)):
                continue
            # plain locals written by A must not be read by B before B writes them (keep it simple: no shared plain names)
            wa = {x.id for st in n.body for x in ast.walk(st) if isinstance(x, ast.Name) and isinstance(x.ctx, ast.Store)} - tnames
            rb = {x.id for st in m.body for x in ast.walk(st) if isinstance(x, ast.Name) and isinstance(x.ctx, ast.Load)}
            wb = {x.id for st in m.body for x in ast.walk(st) if isinstance(x, ast.Name) and isinstance(x.ctx, ast.Store)} - tnames
            ra = {x.id for st in n.body for x in ast.walk(st) if isinstance(x, ast.Name) and isinstance(x.ctx, ast.Load)}
            if (wa & rb) or (wb & ra):
                continue
            n.body = list(n.body) + list(m.body)
            del blk[idx + 1]
            ast.fix_missing_locations(n)
            set_parents(fi.node)
            stats.setdefault("#fused_loops", []).append(fi.qual)
            done += 1
            changed = True
            break
    return done


_NEVER_NONE_CALLS = ("sorted", "list", "tuple", "set", "frozenset", "dict", "str", "int", "float", "len", "sum", "min", "max", "abs", "bool", "Genotype", "defaultdict", "Counter")


def _never_none(e):
    if isinstance(e, ast.Constant):
        return e.value is not None
    if isinstance(e, (ast.List, ast.Tuple, ast.Set, ast.Dict, ast.ListComp, ast.SetComp, ast.DictComp, ast.GeneratorExp, ast.JoinedStr, ast.BinOp, ast.Compare)):
        return True
    if isinstance(e, ast.Call) and isinstance(e.func, ast.Name) and (e.func.id in _NEVER_NONE_CALLS or e.func.id[:1].isupper()):
        return True  # builtins that build a value, and class constructors
    return False


def _thread_none_sentinels(fi, ref_locals, stats):
    """Jump threading over a new Optional temporary:
        if C: [P1;] T = None            if C: P1; B2
        else: [P2;] T = E          ->   else: P2; T = E; B
        if T is not None: B
        else: B2
    (either orientation of both ifs; E an expression that cannot be None; P1, P2 any statements that do not mention T)."""
    done = 0
    for n in list(walk_function(fi.node)):
        if not (isinstance(n, ast.If) and n.body and n.orelse):
            continue
        a, b = n.body[-1], n.orelse[-1]
        if not all(isinstance(x, ast.Assign) and len(x.targets) == 1 and isinstance(x.targets[0], ast.Name) for x in (a, b)):
            continue
        if a.targets[0].id != b.targets[0].id or a.targets[0].id in ref_locals:
            continue
        t = a.targets[0].id
        if any(isinstance(x, ast.Name) and x.id == t for st_ in n.body[:-1] + n.orelse[:-1] for x in ast.walk(st_)):
            continue
        a_none = isinstance(a.value, ast.Constant) and a.value.value is None
        b_none = isinstance(b.value, ast.Constant) and b.value.value is None
        if a_none == b_none:
            continue
        val = b.value if a_none else a.value
        if not _never_none(val):
            continue
        blk, par = _block_of(n)
        if blk is None:
            continue
        i = [k for k, x in enumerate(blk) if x is n][0]
        if i + 1 >= len(blk) or not isinstance(blk[i + 1], ast.If):
            continue
        nx = blk[i + 1]
        tt = nx.test
        if not (isinstance(tt, ast.Compare) and len(tt.ops) == 1 and isinstance(tt.left, ast.Name) and tt.left.id == t and isinstance(tt.comparators[0], ast.Constant) and tt.comparators[0].value is None and isinstance(tt.ops[0], (ast.Is, ast.IsNot))):
            continue
        some_body, none_body = (nx.body, nx.orelse) if isinstance(tt.ops[0], ast.IsNot) else (nx.orelse, nx.body)
        later_use = False
        for later in blk[i + 2:]:
            if any(isinstance(x, ast.Name) and x.id == t for x in ast.walk(later)):
                later_use = True
        if later_use or any(isinstance(x, ast.Name) and x.id == t for st_ in none_body for x in ast.walk(st_)):
            continue
        if a_none:
            n.body = list(n.body[:-1]) + list(none_body)
            n.orelse = list(n.orelse) + list(some_body)
        else:
            n.body = list(n.body) + list(some_body)
            n.orelse = list(n.orelse[:-1]) + list(none_body)
        if not n.body:
            n.body = [ast.copy_location(ast.Pass(), n)]
        del blk[i + 1]
        ast.fix_missing_locations(n)
        stats.setdefault("#sentinels", []).append("%s:%s" % (fi.qual, t))
        done += 1
    return done


def _thread_bool_flags(fi, ref_locals, stats):
    """Jump threading over a new boolean temporary:
        if C: [P1;] T = <True|False>          if C: P1; <B or B2>
        else: [P2;] T = E               ->    else: P2; if E: B else: B2
        if T: B else: B2
    (either branch may hold the constant; T not used afterwards)."""
    done = 0
    for n in list(walk_function(fi.node)):
        if not (isinstance(n, ast.If) and n.body and n.orelse):
            continue
        a, b = n.body[-1], n.orelse[-1]
        if not all(isinstance(x, ast.Assign) and len(x.targets) == 1 and isinstance(x.targets[0], ast.Name) for x in (a, b)):
            continue
        if a.targets[0].id != b.targets[0].id or a.targets[0].id in ref_locals:
            continue
        t = a.targets[0].id
        if any(isinstance(x, ast.Name) and x.id == t for st_ in n.body[:-1] + n.orelse[:-1] for x in ast.walk(st_)):
            continue
        a_c = isinstance(a.value, ast.Constant) and isinstance(a.value.value, bool)
        b_c = isinstance(b.value, ast.Constant) and isinstance(b.value.value, bool)
        if a_c == b_c:
            continue
        blk, par = _block_of(n)
        if blk is None:
            continue
        i = [k for k, x in enumerate(blk) if x is n][0]
        if i + 1 >= len(blk) or not isinstance(blk[i + 1], ast.If):
            continue
        nx = blk[i + 1]
        tt = nx.test
        neg = False
        if isinstance(tt, ast.UnaryOp) and isinstance(tt.op, ast.Not):
            tt, neg = tt.operand, True
        if not (isinstance(tt, ast.Name) and tt.id == t):
            continue
        if any(isinstance(x, ast.Name) and x.id == t for later in blk[i + 2:] for x in ast.walk(later)):
            continue
        if any(isinstance(x, ast.Name) and x.id == t for st_ in nx.body + nx.orelse for x in ast.walk(st_)):
            continue
        true_body, false_body = (nx.orelse, nx.body) if neg else (nx.body, nx.orelse)
        const_val = a.value.value if a_c else b.value.value
        expr = b.value if a_c else a.value
        const_stmts = [_clone(x) for x in (true_body if const_val else false_body)]
        other = ast.If(test=expr, body=[_clone(x) for x in true_body] or [ast.Pass()], orelse=[_clone(x) for x in false_body])
        ast.copy_location(other, nx)
        if a_c:
            n.body = list(n.body[:-1]) + const_stmts
            n.orelse = list(n.orelse[:-1]) + [other]
        else:
            n.body = list(n.body[:-1]) + [other]
            n.orelse = list(n.orelse[:-1]) + const_stmts
        if not n.body:
            n.body = [ast.copy_location(ast.Pass(), n)]
        del blk[i + 1]
        ast.fix_missing_locations(n)
        stats.setdefault("#bool_flags", []).append("%s:%s" % (fi.qual, t))
        done += 1
    return done


def _project_ctor_fields(prog, fi, ref_locals, stats):
    """A new local `T = Cls(a, b, ...)` of a record class of the package (dataclass / NamedTuple with annotated fields and no
    __init__): a read of `T.field` is the constructor argument given for that field (value-like arguments only)."""
    done = 0
    for n in list(walk_function(fi.node)):
        if not (isinstance(n, ast.Assign) and len(n.targets) == 1 and isinstance(n.targets[0], ast.Name) and n.targets[0].id not in ref_locals and isinstance(n.value, ast.Call) and isinstance(n.value.func, ast.Name)):
            continue
        t = n.targets[0].id
        if sum(1 for x in ast.walk(fi.node) if isinstance(x, ast.Name) and x.id == t and isinstance(x.ctx, (ast.Store, ast.Del))) != 1:
            continue
        cls = None
        for q, c in prog.classes.items():
            if q.rsplit(".", 1)[-1] == n.value.func.id and c.module.kind in ("py", "pyx"):
                cls = c if cls is None else False
        if not cls:
            continue
        cn = cls.node
        record_like = any((isinstance(d, ast.Name) and d.id == "dataclass") or (isinstance(d, ast.Call) and isinstance(d.func, ast.Name) and d.func.id == "dataclass") or (isinstance(d, ast.Attribute) and d.attr == "dataclass") for d in cn.decorator_list) or any((isinstance(b_, ast.Name) and b_.id == "NamedTuple") or (isinstance(b_, ast.Attribute) and b_.attr == "NamedTuple") for b_ in cn.bases)
        if not record_like or any(isinstance(x, ast.FunctionDef) and x.name in ("__init__", "__post_init__", "__new__", "__getattr__", "__getattribute__") for x in cn.body):
            continue
        fields = [(x.target.id, x.value) for x in cn.body if isinstance(x, ast.AnnAssign) and isinstance(x.target, ast.Name)]
        call = n.value
        if any(isinstance(a, ast.Starred) for a in call.args) or any(k.arg is None for k in call.keywords) or len(call.args) > len(fields):
            continue
        vals = dict(zip([f for f, _ in fields], call.args))
        for k in call.keywords:
            vals[k.arg] = k.value
        for x in [y for y in ast.walk(fi.node) if isinstance(y, ast.Attribute) and isinstance(y.ctx, ast.Load) and isinstance(y.value, ast.Name) and y.value.id == t]:
            if x.attr in vals and _value_like(vals[x.attr]):
                p = x.parent
                new = _clone(vals[x.attr])
                for f in p._fields:
                    v = getattr(p, f, None)
                    if v is x:
                        setattr(p, f, new)
                    elif isinstance(v, list):
                        for k_, z in enumerate(v):
                            if z is x:
                                v[k_] = new
                done += 1
        if done:
            set_parents(fi.node)
    if done:
        stats.setdefault("#ctor_fields", []).append("%s:%d" % (fi.qual, done))
    return done


def _split_new_divmod(fi, ref_fingerprints, stats):
    """A new statement `q, r = divmod(x, k)` is `r = x % k; q = x // k` (in an order that reads x before re-binding it)."""
    from . import alpha

    locs = alpha.local_names(fi.node)
    done = 0
    for n in list(walk_function(fi.node)):
        if not (isinstance(n, ast.Assign) and len(n.targets) == 1 and isinstance(n.targets[0], ast.Tuple) and len(n.targets[0].elts) == 2 and all(isinstance(t, ast.Name) for t in n.targets[0].elts)):
            continue
        v = n.value
        if not (isinstance(v, ast.Call) and isinstance(v.func, ast.Name) and v.func.id == "divmod" and len(v.args) == 2 and not v.keywords and _value_like(v.args[0]) and _value_like(v.args[1])):
            continue
        if _in_reference(fi, n, locs, ref_fingerprints):
            continue
        blk, _o = _block_of(n)
        if blk is None:
            continue
        q, r = n.targets[0].elts
        x, k = v.args
        used = _names_used(x) | _names_used(k)
        sq = ast.Assign(targets=[ast.Name(id=q.id, ctx=ast.Store())], value=ast.BinOp(left=_clone(x), op=ast.FloorDiv(), right=_clone(k)), type_comment=None)
        sr = ast.Assign(targets=[ast.Name(id=r.id, ctx=ast.Store())], value=ast.BinOp(left=_clone(x), op=ast.Mod(), right=_clone(k)), type_comment=None)
        if q.id in used and r.id in used:
            continue
        seq = [sr, sq] if q.id in used else [sq, sr]
        for s_ in seq:
            ast.copy_location(s_, n)
            ast.fix_missing_locations(s_)
        i = [j for j, y in enumerate(blk) if y is n][0]
        blk[i : i + 1] = seq
        stats.setdefault("#divmod", []).append(fi.qual)
        done += 1
    return done


def _unroll_new_loops(fi, ref_fingerprints, module_consts, stats):
    from . import alpha

    fnode = fi.node
    locs = alpha.local_names(fnode)
    done = 0

    def rewrite(stmts):
        nonlocal done
        i = 0
        while i < len(stmts):
            s = stmts[i]
            # for a, b in zip(S, X) where S is a fixed-size local display ([[], []]): one copy of the body per slot of S
            if isinstance(s, ast.For) and not s.orelse and isinstance(s.target, ast.Tuple) and isinstance(s.iter, ast.Call) and isinstance(s.iter.func, ast.Name) and s.iter.func.id == "zip" and len(s.iter.args) == len(s.target.elts) >= 2 and all(isinstance(t, ast.Name) for t in s.target.elts) and not s.iter.keywords:
                fp = alpha._fingerprint(s, locs)[0]
                nfix = None
                for a_ in s.iter.args:
                    if isinstance(a_, ast.Name):
                        defs_ = [x for x in walk_function(fnode) if isinstance(x, (ast.Assign, ast.AnnAssign)) and any(isinstance(t, ast.Name) and t.id == a_.id for t in (x.targets if isinstance(x, ast.Assign) else [x.target]))]
                        resized = any(isinstance(c, ast.Call) and isinstance(c.func, ast.Attribute) and isinstance(c.func.value, ast.Name) and c.func.value.id == a_.id and c.func.attr in ("append", "extend", "insert", "pop", "remove", "clear") for c in walk_function(fnode))
                        if len(defs_) == 1 and isinstance(defs_[0].value, (ast.List, ast.Tuple)) and 1 < len(defs_[0].value.elts) <= 4 and not resized:
                            nfix = len(defs_[0].value.elts)
                    elif isinstance(a_, (ast.Tuple, ast.List)) and 1 < len(a_.elts) <= 4:
                        nfix = nfix or len(a_.elts)
                literal_ok = all(len(a_.elts) == nfix for a_ in s.iter.args if isinstance(a_, (ast.Tuple, ast.List)))
                if nfix and literal_ok and fp not in ref_fingerprints and len(s.body) <= 4 and not _contains(s.body, (ast.Break, ast.Continue, ast.Return, ast.For, ast.While)):
                    if not any(isinstance(n, ast.Name) and isinstance(n.ctx, ast.Store) and n.id in {t.id for t in s.target.elts} for b in s.body for n in ast.walk(b)):
                        new = []
                        for k in range(nfix):
                            mp = {}
                            for t, a_ in zip(s.target.elts, s.iter.args):
                                if isinstance(a_, (ast.Tuple, ast.List)):
                                    mp[t.id] = a_.elts[k]
                                elif _value_like(a_):
                                    mp[t.id] = ast.Subscript(value=_clone(a_), slice=ast.Constant(value=k), ctx=ast.Load())
                                else:
                                    mp = None
                                    break
                            if mp is None:
                                new = None
                                break
                            body = _clone(s.body)
                            holder = ast.Module(body=body, type_ignores=[])
                            _Subst(mp).visit(holder)
                            new.extend(holder.body)
                        if new:
                            for x in new:
                                ast.copy_location(x, s)
                                ast.fix_missing_locations(x)
                            stmts[i : i + 1] = new
                            stats.setdefault("#unrolled", []).append("%s:zip" % fi.qual)
                            done += 1
                            i += len(new)
                            continue
            if isinstance(s, ast.For) and not s.orelse and isinstance(s.target, ast.Name):
                seq = _const_seq(s.iter, module_consts)
                if seq is None and isinstance(s.iter, ast.Attribute) and isinstance(s.iter.value, ast.Name) and s.iter.value.id in ("self", "cls"):
                    seq = module_consts.get("." + s.iter.attr)
                fp = alpha._fingerprint(s, locs)[0]
                if seq is not None and fp not in ref_fingerprints and len(seq) <= 12 and len(s.body) <= 4 and not _contains(s.body, (ast.Break, ast.Continue, ast.Return, ast.For, ast.While)):
                    # the loop variable must not be assigned in the body
                    if not any(isinstance(n, ast.Name) and n.id == s.target.id and isinstance(n.ctx, ast.Store) for b in s.body for n in ast.walk(b)):
                        new = []
                        for c in seq:
                            body = _clone(s.body)
                            holder = ast.Module(body=body, type_ignores=[])
                            _Subst({s.target.id: c}).visit(holder)
                            _AttrConst().visit(holder)
                            new.extend(holder.body)
                        for x in new:
                            ast.copy_location(x, s)
                            ast.fix_missing_locations(x)
                        stmts[i : i + 1] = new
                        stats.setdefault("#unrolled", []).append("%s:%s" % (fi.qual, s.target.id))
                        done += 1
                        i += len(new)
                        continue
            for f in ("body", "orelse", "finalbody"):
                sub = getattr(s, f, None)
                if isinstance(sub, list) and sub and isinstance(sub[0], ast.stmt):
                    rewrite(sub)
            for h in getattr(s, "handlers", []) or []:
                rewrite(h.body)
            i += 1

    rewrite(fnode.body)
    return done


# ------------------------------------------------------------------------------------------------ driver
def normalise(prog, ref):
    """Apply the three normalisations to every function of the program (in place).  Returns statistics."""
    stats = {}
    if not ref:
        return stats
    ref_funcs = set(ref)

    def base(q):
        return q.split("#")[0]

    def is_new(g):
        return base(g.qual) not in ref_funcs and not g.qual.startswith("#")

    any_new = any(is_new(f) for f in prog.functions.values() if f.module.kind in ("py", "pyx"))
    def inline_round():
        """Inline new helpers (a few rounds: helpers may call helpers); returns the number of call sites replaced."""
        total = 0
        for _ in range(MAX_ROUNDS):
            n = 0
            for fi in list(prog.functions.values()):
                if fi.module.kind not in ("py", "pyx"):
                    continue
                try:
                    k = _inline_in_function(prog, fi, is_new, stats)
                except RecursionError:
                    k = 0
                if k:
                    set_parents(fi.node)
                    fi.node.parent = getattr(fi.node, "parent", None)
                n += k
            total += n
            if not n:
                break
        # helpers that are no longer called anywhere are absorbed
        inlined = stats.get("#inlined", set())
        still_called = set()
        for fi in prog.functions.values():
            if fi.module.kind not in ("py", "pyx"):
                continue
            for c in ast.walk(fi.node):
                if isinstance(c, ast.Call):
                    try:
                        tg, how = prog.resolve_call(c, fi)
                    except Exception:
                        continue
                    for g in tg:
                        still_called.add(g.qual)
        absorbed = []
        for q in sorted(inlined):
            if q not in still_called and q in prog.functions and prog.functions[q].cls is None and "." in q:
                # a local def that is no longer referenced: drop the def statement from its enclosing function
                g0 = prog.functions[q]
                outer = prog.functions.get(q.rsplit(".", 1)[0])
                if outer is not None and outer.module is g0.module and not any(isinstance(x, ast.Name) and x.id == g0.node.name and isinstance(x.ctx, ast.Load) for x in ast.walk(outer.node)):
                    for holder in ast.walk(outer.node):
                        for f_ in ("body", "orelse", "finalbody"):
                            b_ = getattr(holder, f_, None)
                            if isinstance(b_, list) and any(x is g0.node for x in b_):
                                b_[:] = [x for x in b_ if x is not g0.node] or [ast.Pass()]
                    set_parents(outer.node)
            if q not in still_called and q in prog.functions:
                g = prog.functions.pop(q)
                g.module.functions.pop(q, None)
                if g.cls is not None and g.cls.methods.get(g.node.name) is g:
                    g.cls.methods.pop(g.node.name, None)
                lst = prog._by_name.get(g.name, [])
                if g in lst:
                    lst.remove(g)
                absorbed.append(q)
        stats["#absorbed"] = stats.get("#absorbed", []) + absorbed
        return total

    # 1. inlining of new helpers
    if any_new:
        inline_round()
    # 1b. new module-level scalar constants (`MAX_COVERAGE = 23`) are folded back into the functions of their module
    for m in prog.modules.values():
        if m.kind not in ("py", "pyx"):
            continue
        known = ref.get("#globals:" + m.name)
        if known is None:
            continue
        consts = {}
        stores = {}
        for n in ast.walk(m.tree):
            if isinstance(n, ast.Name) and isinstance(n.ctx, (ast.Store, ast.Del)):
                stores[n.id] = stores.get(n.id, 0) + 1
        for s_ in m.tree.body:
            if isinstance(s_, ast.Assign) and len(s_.targets) == 1 and isinstance(s_.targets[0], ast.Name) and isinstance(s_.value, ast.Constant) and isinstance(s_.value.value, (int, float, str, bool)):
                nm = s_.targets[0].id
                if nm not in known and stores.get(nm) == 1:
                    consts[nm] = s_.value
            elif isinstance(s_, ast.Assign) and len(s_.targets) == 1 and isinstance(s_.targets[0], ast.Name) and isinstance(s_.value, ast.Call) and ((isinstance(s_.value.func, ast.Name) and s_.value.func.id == "partial") or (isinstance(s_.value.func, ast.Attribute) and s_.value.func.attr == "partial")) and all(isinstance(a_, (ast.Name, ast.Attribute, ast.Constant)) for a_ in s_.value.args) and not s_.value.keywords:
                # a new module-level `name = partial(f, const..)`: a fixed callable, folded like a constant
                nm = s_.targets[0].id
                if nm not in known and stores.get(nm) == 1:
                    consts[nm] = s_.value
        if not consts:
            continue
        for fi in prog.functions.values():
            if fi.module is not m:
                continue
            bound = _names_bound(fi.node)
            use = {k: v for k, v in consts.items() if k not in bound}
            if use and any(isinstance(n, ast.Name) and n.id in use for n in ast.walk(fi.node)):
                _Subst(use).visit(fi.node)
                # f"...{CONST}..." with a constant inside becomes plain text again
                for js in [x for x in ast.walk(fi.node) if isinstance(x, ast.JoinedStr)]:
                    vals = []
                    for v in js.values:
                        if isinstance(v, ast.FormattedValue) and isinstance(v.value, ast.Constant) and v.conversion == -1 and v.format_spec is None:
                            vals.append(ast.Constant(value=str(v.value.value)))
                        else:
                            vals.append(v)
                    merged = []
                    for v in vals:
                        if merged and isinstance(v, ast.Constant) and isinstance(merged[-1], ast.Constant) and isinstance(v.value, str) and isinstance(merged[-1].value, str):
                            merged[-1] = ast.Constant(value=merged[-1].value + v.value)
                        else:
                            merged.append(v)
                    js.values = merged
                set_parents(fi.node)
                stats.setdefault("#constants", []).append("%s:%s" % (fi.qual, ",".join(sorted(use))))
    # 1c. new class-level literal constants (`_MISSING = {"HP": ".", ...}`) are folded back into the methods that read them
    #     through self / cls / the class name; `<dict literal>.items()` becomes the tuple of its pairs
    for m in prog.modules.values():
        if m.kind not in ("py", "pyx"):
            continue
        known = ref.get("#classattrs:" + m.name)
        if known is None:
            continue
        known = set(known)
        for c_ in [x for x in ast.walk(m.tree) if isinstance(x, ast.ClassDef)]:
            consts = {}
            for s_ in c_.body:
                tgt = val = None
                if isinstance(s_, ast.Assign) and len(s_.targets) == 1 and isinstance(s_.targets[0], ast.Name):
                    tgt, val = s_.targets[0].id, s_.value
                elif isinstance(s_, ast.AnnAssign) and isinstance(s_.target, ast.Name) and s_.value is not None:
                    tgt, val = s_.target.id, s_.value
                if tgt is None or "%s.%s" % (c_.name, tgt) in known or not _is_literal(val):
                    continue
                if sum(1 for n in ast.walk(m.tree) if isinstance(n, ast.Attribute) and n.attr == tgt and isinstance(n.ctx, (ast.Store, ast.Del))) > 0:
                    continue
                consts[tgt] = val
            if not consts:
                continue
            for fi in prog.functions.values():
                if fi.module is not m:
                    continue
                tr = _ClassConst(consts, c_.name, fi.cls is not None and fi.cls.node is c_)
                tr.visit(fi.node)
                if tr.n:
                    set_parents(fi.node)
                    stats.setdefault("#constants", []).append("%s:%s" % (fi.qual, ",".join(sorted(tr.used))))
    # 1d. new NamedTuple classes: `Cls(a, b, c)` builds the tuple (a, b, c) (consumers that unpack or index it are unchanged)
    for m in prog.modules.values():
        if m.kind not in ("py", "pyx"):
            continue
        known = ref.get("#classes:" + m.name)
        if known is None:
            continue
        nts = {}
        for c_ in [x for x in m.tree.body if isinstance(x, ast.ClassDef)]:
            if c_.name in known or not any((isinstance(b_, ast.Name) and b_.id == "NamedTuple") or (isinstance(b_, ast.Attribute) and b_.attr == "NamedTuple") for b_ in c_.bases):
                continue
            fields = [(s_.target.id, s_.value) for s_ in c_.body if isinstance(s_, ast.AnnAssign) and isinstance(s_.target, ast.Name)]
            if fields and not any(isinstance(s_, (ast.FunctionDef, ast.AsyncFunctionDef)) for s_ in c_.body):
                nts[c_.name] = fields
        if not nts:
            continue
        for fi in prog.functions.values():
            if fi.module is not m:
                continue
            tr = _NamedTupleCtor(nts)
            tr.visit(fi.node)
            if tr.n:
                set_parents(fi.node)
                stats.setdefault("#namedtuples", []).append("%s:%d" % (fi.qual, tr.n))
    # 2./3. per function: new constant loops, new temporaries
    mconsts = {}

    def local_round():
        for fi in list(prog.functions.values()):
            if fi.module.kind not in ("py", "pyx"):
                continue
            d = ref.get(base(fi.qual))
            if not d:
                continue
            ref_fps = {x[0] for x in d}
            from . import alpha as _alpha_h

            if ref.get("#hash:" + base(fi.qual)) == _alpha_h.exact_hash(fi.node):
                continue  # untouched function: every normalisation below is the identity on it
            fi._ref_fps = ref_fps
            fi._ref_locals = set().union(*[set(x[1]) for x in d]) if d else set()
            import re as _re

            ra = set()
            for fp_, names_ in d:
                m_ = _re.match(r"^([\s_,()\[\]*]+?)\s*(?::[^=]+)?=(?!=)", fp_)
                if m_ and not fp_.startswith(("for ", "with ", "if ", "while ", "def ", "except", "return", "assert")):
                    ra |= set(names_[: m_.group(1).count("_")])
            fi._ref_assigned = ra
            dd = ref.get("#deep:" + base(fi.qual))
            fi._ref_deep = set(dd) if dd is not None else None
            ref_locals = set()
            for x in d:
                ref_locals |= set(x[1])
            mc = mconsts.get(fi.module.name)
            if mc is None:
                mc = mconsts[fi.module.name] = _module_consts(fi.module)
            try:
                if _plain_new_annassigns(fi, ref_fps, stats):
                    set_parents(fi.node)
                tr_ = _NewIdioms()
                tr_.visit(fi.node)
                if tr_.n:
                    set_parents(fi.node)
                if _unfold_yield_from_maps(fi, ref_fps, stats):
                    set_parents(fi.node)
                if _unroll_new_loops(fi, ref_fps, mc, stats):
                    set_parents(fi.node)
                if _split_new_divmod(fi, ref_fps, stats):
                    set_parents(fi.node)
                if _split_starred_unpack(fi, ref_fps, stats):
                    set_parents(fi.node)
                if _enumerate_counter_loops(fi, ref_fps, stats):
                    set_parents(fi.node)
                if _unfold_update_generators(fi, ref_fps, stats):
                    set_parents(fi.node)
                if _merge_dataclass_replace(fi, ref_locals, stats):
                    set_parents(fi.node)
                for _round in range(3):
                    k = _propagate_temps(fi, ref_locals, stats)
                    if _distribute_ifexp_calls(fi, ref_locals, stats):
                        set_parents(fi.node)
                        k += 1
                    tr2_ = _NewIdioms()  # a propagated lambda that is applied on the spot, partial(..)(..) &c.
                    tr2_.visit(fi.node)
                    if tr2_.n:
                        set_parents(fi.node)
                        k += 1
                    k += _coalesce_copies(fi, ref_locals, stats)
                    k += _merge_accumulators(fi, ref_locals, stats)
                    if _unfold_filtered_loops(fi, ref_fps, stats):
                        set_parents(fi.node)
                        k += 1
                    if _split_new_ifexp_assigns(fi, ref_fps, stats):
                        set_parents(fi.node)
                        k += 1
                    if _unfold_mapped_loops(fi, ref_fps, stats):
                        set_parents(fi.node)
                        k += 1
                    if _thread_none_sentinels(fi, ref_locals, stats):
                        set_parents(fi.node)
                        k += 1
                    if _thread_bool_flags(fi, ref_locals, stats):
                        set_parents(fi.node)
                        k += 1
                    if _project_ctor_fields(prog, fi, ref_locals, stats):
                        set_parents(fi.node)
                        k += 1
                    if _swap_membership_loops(fi, ref_fps, stats):
                        set_parents(fi.node)
                        k += 1
                    if _unfold_intersection_loops(fi, ref_fps, stats):
                        set_parents(fi.node)
                        k += 1
                    if _count_loops_to_while(fi, ref_fps, stats):
                        set_parents(fi.node)
                        k += 1
                    if _splice_starred_tuples(fi, ref_locals, stats):
                        set_parents(fi.node)
                        k += 1
                    if _apply_new_partials(fi, ref_locals, stats):
                        set_parents(fi.node)
                        k += 1
                    if _unzip_new_pairs(fi, ref_locals, stats):
                        set_parents(fi.node)
                        k += 1
                    if _split_loop_target_ranges(fi, ref_locals, stats):
                        set_parents(fi.node)
                        k += 1
                    if _zip_to_indexed(fi, ref_fps, stats):
                        set_parents(fi.node)
                        k += 1
                    if _fold_search_loops(fi, ref_fps, stats):
                        set_parents(fi.node)
                        k += 1
                    if _deforest_new_lists(fi, ref_locals, stats):
                        set_parents(fi.node)
                        k += 1
                    if _fold_accumulator_loops(fi, ref_fps, stats):
                        set_parents(fi.node)
                        k += 1
                    if _sort_to_sorted(fi, ref_fps, stats):
                        set_parents(fi.node)
                        k += 1
                    if _fold_bool_returns(fi, ref_fps, stats):
                        set_parents(fi.node)
                        k += 1
                    if _unroll_new_quantifiers(fi, ref_fps, stats):
                        set_parents(fi.node)
                        k += 1
                    if _unfold_filter_calls(fi, ref_fps, stats):
                        set_parents(fi.node)
                        k += 1
                    if _fuse_split_loops(fi, ref_fps, stats):
                        set_parents(fi.node)
                        k += 1
                    if not k:
                        break
                # (after the temporaries are gone: a look-up local that survives is one the reference has as well)
                if _dict_key_loops_to_items(fi, ref_fps, stats):
                    set_parents(fi.node)
            except RecursionError:
                pass
            set_parents(fi.node)
    local_round()
    # a helper call that only became visible after a temporary was propagated (`it = helper(..); for x in it:`)
    if any_new and inline_round():
        local_round()
    # parent links of the function nodes themselves
    for m in prog.modules.values():
        if m.kind in ("py", "pyx"):
            set_parents(m.tree)
    if "#inlined" in stats:
        stats["#inlined"] = sorted(stats["#inlined"])
    return stats
