"""Thorough tier: sensitivity audit of a property's rule set.

The rule set is run against variants of /repo built by small source edits:

* **seeded** variants break one clause (delete a guard, flip a comparison, drop a sorted(),
  swap two arguments, move an open() into the loop, ...): the rules must report at least one
  *additional* violation, in the expected rule, compared with the unmodified current tree;
* **benign** variants keep behaviour (rename a local, invert an if/else, reorder independent
  statements, wrap in a helper expression, re-layout): the rules must report exactly the
  violations of the unmodified current tree.

Only the edited file is materialised, in a scratch overlay directory outside /repo and /verif
(tempfile; removed as soon as the variant has been judged).  Variants whose anchor text is not
present exactly once in the current source are *skipped* and counted -- the tree under analysis
may legitimately differ from the one the variant was written for.

An audit failure means the checker is broken (exit 2, ANALYSIS-ERROR), never a VIOLATION:
the audit checks the checker, not whatshap.
"""
import importlib
import os
import shutil
import sys
import tempfile
import time
from multiprocessing import Pool

from .model import AnalysisError


def _load_variants(pid):
    try:
        mod = importlib.import_module("rules.variants")
    except ModuleNotFoundError:
        return []
    return list(getattr(mod, "VARIANTS", {}).get(pid, []))


def _run_rules(pid, root, overlay, tier):
    """Returns (set of violation keys, list of analysis errors)."""
    from . import framework as fw
    from . import cfg as cfgmod

    cfgmod._cfg_cache.clear()
    propmod = importlib.import_module("rules.%s" % pid.lower())
    old = os.environ.get("VERIF_OVERLAY")
    if overlay:
        os.environ["VERIF_OVERLAY"] = overlay
    else:
        os.environ.pop("VERIF_OVERLAY", None)
    try:
        ctx, missed = fw.run_property(propmod, root, tier)
    finally:
        if old is None:
            os.environ.pop("VERIF_OVERLAY", None)
        else:
            os.environ["VERIF_OVERLAY"] = old
    keys = {}
    for o in ctx.obs:
        if not o.ok:
            keys[o.key] = o.rule
    return keys, list(ctx.analysis_errors) + (["floor: " + "; ".join(missed)] if missed else [])


def _judge(args):
    pid, root, variant, base_keys, parent_overlay = args
    vid, rel, old, new, expect = variant
    src_path = os.path.join(parent_overlay, rel) if parent_overlay and os.path.exists(os.path.join(parent_overlay, rel)) else os.path.join(root, rel)
    try:
        src = open(src_path, encoding="utf-8").read()
    except OSError:
        return (vid, "skipped", "file %s missing" % rel)
    if src.count(old) != 1:
        return (vid, "skipped", "anchor text occurs %d times" % src.count(old))
    tmp = tempfile.mkdtemp(prefix="verif_audit_")
    try:
        if parent_overlay:
            shutil.copytree(parent_overlay, tmp, dirs_exist_ok=True)
        dst = os.path.join(tmp, rel)
        os.makedirs(os.path.dirname(dst), exist_ok=True)
        with open(dst, "w", encoding="utf-8") as f:
            f.write(src.replace(old, new))
        try:
            keys, errs = _run_rules(pid, root, tmp, "thorough")
        except AnalysisError as e:
            keys, errs = {}, [str(e)]
        except Exception as e:  # a crash of the checker on a variant is an audit failure
            return (vid, "crash", "%s: %s" % (type(e).__name__, e))
    finally:
        shutil.rmtree(tmp, ignore_errors=True)
    new_keys = {k: r for k, r in keys.items() if k not in base_keys}
    gone = [k for k in base_keys if k not in keys]
    if expect == "silent":
        if new_keys:
            return (vid, "false-alarm", "benign variant raised %s" % sorted(new_keys)[:3])
        if errs:
            return (vid, "false-alarm", "benign variant broke the analysis: %s" % errs[:2])
        return (vid, "silent", "")
    hit = [k for k, r in new_keys.items() if r.startswith(expect)]
    if hit:
        return (vid, "detected", hit[0])
    if new_keys:
        return (vid, "detected-other-rule", "%s (expected %s)" % (sorted(new_keys)[0], expect))
    if errs:
        return (vid, "analysis-error", errs[0])
    return (vid, "missed", "no additional violation")


VERIF_DIR = os.path.dirname(os.path.dirname(os.path.abspath(__file__)))


def _load_seeds(pid):
    """Committed, independently written and confirmed behaviour-breaking patches for this property."""
    import json
    import re

    sdir = os.path.join(VERIF_DIR, "seeded")
    out = []
    exempt = {}
    ep = os.path.join(sdir, "NOT_DECIDED.json")
    if os.path.exists(ep):
        exempt = json.load(open(ep))
    if not os.path.isdir(sdir):
        return out
    for d in sorted(os.listdir(sdir)):
        pf = os.path.join(sdir, d, "patch.diff")
        if d.startswith(pid + "-") and os.path.exists(pf):
            patch = open(pf, encoding="utf-8").read()
            files = re.findall(r"^\+\+\+ b/(\S+)", patch, re.M)
            out.append((d, patch, files, exempt.get(d)))
    return out


def _judge_seed(args):
    import subprocess

    pid, root, seed, base_keys, parent_overlay = args
    sid, patch, files, exempt = seed
    tmp = tempfile.mkdtemp(prefix="verif_seed_")
    try:
        if parent_overlay:
            shutil.copytree(parent_overlay, tmp, dirs_exist_ok=True)
        for f in files:
            dst = os.path.join(tmp, f)
            if not os.path.exists(dst):
                src = os.path.join(root, f)
                if not os.path.exists(src):
                    return (sid, "skipped", "file %s missing" % f)
                os.makedirs(os.path.dirname(dst), exist_ok=True)
                shutil.copyfile(src, dst)
        r = subprocess.run(["patch", "-p1", "-s", "-f", "-d", tmp], input=patch.encode(), stdout=subprocess.PIPE, stderr=subprocess.STDOUT)
        if r.returncode != 0:
            return (sid, "skipped", "patch does not apply to the tree under analysis")
        for dp, dn, fn in os.walk(tmp):
            for x in fn:
                if x.endswith((".orig", ".rej")):
                    os.unlink(os.path.join(dp, x))
        try:
            keys, errs = _run_rules(pid, root, tmp, "thorough")
        except AnalysisError as e:
            keys, errs = {}, [str(e)]
        except Exception as e:
            return (sid, "crash", "%s: %s" % (type(e).__name__, e))
    finally:
        shutil.rmtree(tmp, ignore_errors=True)
    new_keys = {k: r for k, r in keys.items() if k not in base_keys}
    if new_keys:
        return (sid, "detected", sorted(new_keys)[0])
    if errs:
        return (sid, "analysis-error", errs[0])
    if exempt:
        return (sid, "not-decided", exempt)
    return (sid, "missed", "no additional violation")


def _load_benign(pid):
    """Committed, independently written and confirmed behaviour-PRESERVING patches for this property."""
    import re

    bdir = os.path.join(VERIF_DIR, "benign")
    out = []
    if not os.path.isdir(bdir):
        return out
    for d in sorted(os.listdir(bdir)):
        pf = os.path.join(bdir, d, "patch.diff")
        if d.startswith(pid + "-") and os.path.exists(pf):
            patch = open(pf, encoding="utf-8").read()
            files = re.findall(r"^\+\+\+ b/(\S+)", patch, re.M)
            out.append((d, patch, files, None))
    return out


def _judge_benign(args):
    """A behaviour-preserving refactoring must leave the verdict unchanged: no additional violation, no analysis error
    (except the refactorings listed in benign/UNDECIDED.json, which may end undecided -- exit 2 -- but never with a violation)."""
    import json

    sid, verdict, info = _judge_seed(args)
    if verdict == "detected":
        return (sid, "false-alarm", info)
    if verdict == "analysis-error":
        up = os.path.join(VERIF_DIR, "benign", "UNDECIDED.json")
        listed = json.load(open(up)) if os.path.exists(up) else {}
        if sid in listed:
            return (sid, "undecided-as-listed", info)
        return (sid, "undecided", info)
    if verdict == "missed":
        return (sid, "silent", "")
    return (sid, verdict, info)


def thorough_extras(pid, propmod, root, ctx):
    variants = _load_variants(pid)
    seeds = _load_seeds(pid)
    benign = _load_benign(pid)
    if not variants and not seeds and not benign:
        return {"audit": {"variants": 0, "note": "no variants registered for %s" % pid}}
    t0 = time.time()
    parent_overlay = os.environ.get("VERIF_OVERLAY") or None
    base_keys = {o.key: o.rule for o in ctx.obs if not o.ok}
    jobs = [(pid, root, v, base_keys, parent_overlay) for v in variants]
    sjobs = [(pid, root, sd, base_keys, parent_overlay) for sd in seeds]
    bjobs = [(pid, root, bd, base_keys, parent_overlay) for bd in benign]
    workers = min(16, max(1, len(jobs) + len(sjobs) + len(bjobs)))
    if os.environ.get("VERIF_AUDIT_SERIAL"):
        results = [_judge(j) for j in jobs]
        sresults = [_judge_seed(j) for j in sjobs]
        bresults = [_judge_benign(j) for j in bjobs]
    else:
        with Pool(workers) as pool:
            ar = pool.map_async(_judge, jobs, chunksize=1)
            sr = pool.map_async(_judge_seed, sjobs, chunksize=1)
            br = pool.map_async(_judge_benign, bjobs, chunksize=1)
            results = ar.get()
            sresults = sr.get()
            bresults = br.get()
    summary = {"detected": 0, "detected-other-rule": 0, "silent": 0, "skipped": 0, "missed": 0, "false-alarm": 0, "crash": 0, "analysis-error": 0}
    failures = []
    detail = []
    for (vid, verdict, info), v in zip(results, variants):
        summary[verdict] = summary.get(verdict, 0) + 1
        detail.append({"variant": vid, "file": v[1], "expect": v[4], "verdict": verdict, "info": info})
        # analysis-error on a seeded variant is acceptable (the run would exit 2, still not a silent pass)
        if verdict in ("missed", "false-alarm", "crash"):
            failures.append("%s: %s (%s)" % (vid, verdict, info))
    ssummary = {}
    sdetail = []
    for sid, verdict, info in sresults:
        ssummary[verdict] = ssummary.get(verdict, 0) + 1
        sdetail.append({"seed": sid, "verdict": verdict, "info": info})
        # a confirmed behaviour-breaking patch must be REPORTED (exit 1); ending undecided (exit 2) is not enough
        if verdict in ("missed", "crash", "analysis-error"):
            failures.append("seeded/%s: %s (%s)" % (sid, verdict, info))
    bsummary = {}
    bdetail = []
    for sid, verdict, info in bresults:
        bsummary[verdict] = bsummary.get(verdict, 0) + 1
        bdetail.append({"refactoring": sid, "verdict": verdict, "info": info})
        if verdict in ("false-alarm", "crash", "undecided"):
            failures.append("benign/%s: %s (%s)" % (sid, verdict, info))
    out = {
        "benign_replay": {"refactorings": len(benign), "summary": bsummary, "detail": bdetail, "note": "committed patches of /verif/benign (behaviour-preserving refactorings of the anchored functions, written independently against the property text, each confirmed by the full test suite and an equivalence script) applied to a scratch overlay; every one must leave the verdict unchanged"},
        "seed_replay": {"seeds": len(seeds), "summary": ssummary, "detail": sdetail, "note": "committed patches of /verif/seeded (written independently against the property text, each confirmed to break behaviour while the test suite passes) applied to a scratch overlay; every one must raise a violation"},
        "audit": {
            "variants": len(variants),
            "seeded": sum(1 for v in variants if v[4] != "silent"),
            "benign": sum(1 for v in variants if v[4] == "silent"),
            "summary": summary,
            "wall_s": round(time.time() - t0, 2),
            "detail": detail,
        }
    }
    if failures:
        raise AnalysisError("sensitivity audit failed (the checker, not whatshap, is broken): " + "; ".join(failures))
    return out
