"""Thorough tier: sensitivity audit of the rule set (seeded / benign variants of /repo).

Filled in by rules/<id>.VARIANTS; see DESIGN.md section 2.4.  (stub until the corpus is built)
"""


def thorough_extras(pid, propmod, root, ctx):
    return {}
