"""C14 -- split routes every read to the output its list entry selects (structural clauses)."""
import ast
import re

from sa.model import walk_function, AnalysisError
from sa.norm import u, atoms, guard_atoms, linear
from sa import util

PROPERTY = "C14"
NEEDS_PYX = False
MOD = "whatshap.cli.split"

EXPLANATION = (
    "Decides, on whatshap/cli/split.py: R1 single pass with enumerated exits -- inside the input loop the record is never mutated, the only paths that skip the "
    "dispatch are the two documented `continue`s under their guards (--discard-unknown-reads and name not in the list; output of that haplotype not requested) and no "
    "break/return leaves the loop before the input is exhausted; R2 routing tables -- the written index is readname_to_haplotype[read_name] (a defaultdict(int): 0 = untagged), "
    "the writer list is [untagged, H1, H2, ...] in both construction branches, H<i> maps to i and 'none' to 0, --add-untagged copies untagged reads to every haplotype output; "
    "R3 histogram pairing -- every write of a record to output j is paired on the same path with histogram_data[j][read_length] += 1; "
    "R4 -- the histogram's row keys are deduplicated, so each length is reported once."
)
EXPLANATION += (
    " " + 'R2 also: with --discard-unknown-reads the set of known reads is completed from the map of ALL tagged reads (before --only-largest-block cuts it down), or every listed name is registered when its line is read. R3 also: a histogram count belongs to a write of the same iteration (a read skipped because its output was not requested is not counted).'
)
NOT_DECIDED = "pysam / xopen writing the bytes; parsing of the list file's lines."
ASSUMPTIONS = ["input_iterator yields (name, length, record) for every record of the input (checked for both iterators by R1)"]


def input_loop(ctx, run):
    # the loop over what initialize_io_files hands back as second value: the iterator function applied to the reader, or the
    # iterator it already made from the reader
    def _from_io(name):
        ds = util.assignments_to(run.node, name)
        return len(ds) == 1 and isinstance(ds[0][1], tuple) and ds[0][1][0] == "unpack" and isinstance(ds[0][1][1], ast.Call) and u(ds[0][1][1].func) == "initialize_io_files" and ds[0][1][2] == 1

    loops = []
    for n in walk_function(run.node):
        if not (isinstance(n, ast.For) and isinstance(n.target, ast.Tuple) and len(n.target.elts) == 3):
            continue
        if isinstance(n.iter, ast.Call) and isinstance(n.iter.func, ast.Name) and _from_io(n.iter.func.id):
            loops.append(n)
        elif isinstance(n.iter, ast.Name) and _from_io(n.iter.id):
            io = ctx.func("whatshap.cli.split.initialize_io_files")
            rets = [r for r in walk_function(io.node) if isinstance(r, ast.Return) and isinstance(r.value, ast.Tuple) and len(r.value.elts) == 3]
            made = len(rets) == 1 and isinstance(rets[0].value.elts[1], ast.Name) and all(isinstance(v_, ast.Call) and u(v_.func) in ("_bam_iterator", "_fastq_string_iterator") and [u(a_) for a_ in v_.args] == [u(rets[0].value.elts[0])] for s_, v_ in util.assignments_to(io.node, rets[0].value.elts[1].id))
            if made:
                loops.append(n)
    ctx.require(len(loops) == 1, "input loop `for name, length, record in input_iterator(...)` not found in run_split")
    return loops[0]


def _writes(node, rec):
    return [c for c in ast.walk(node) if isinstance(c, ast.Call) and isinstance(c.func, ast.Attribute) and c.func.attr == "write" and c.args and u(c.args[0]) == rec]


def _nearest_for(n):
    p = getattr(n, "parent", None)
    while p is not None and not isinstance(p, (ast.For, ast.While)):
        p = getattr(p, "parent", None)
    return p


def _dispatch_writes(loop, rec):
    """writer_list[<haplotype of the read>].write(record): an indexed write directly in the input loop."""
    return [c for c in _writes(loop, rec) if isinstance(c.func.value, ast.Subscript) and _nearest_for(c) is loop]


def _fanout_writes(loop, rec):
    """writes of the record inside an inner loop over the writers (the --add-untagged copies)."""
    return [c for c in _writes(loop, rec) if _nearest_for(c) is not loop]


def _fanout_index(w, wl=None):
    """(index expression text paired with the written writer, writer-list text, first index) for a fan-out write, or None.
    Forms: for j, x in enumerate(W[1:], start=1): x.write(r)  |  for x in W[1:]: x.write(r)  |  for j in range(1, len(W)): W[j].write(r)"""
    par = _nearest_for(w)
    if not isinstance(par, ast.For):
        return None
    it = par.iter
    if isinstance(it, ast.Name):
        # a local that holds the slice (taken once; the list it is taken from is not rebuilt afterwards)
        fn = par
        while fn is not None and not isinstance(fn, (ast.FunctionDef, ast.AsyncFunctionDef)):
            fn = getattr(fn, "parent", None)
        d_ = util.single_def(fn, it.id) if fn is not None else None
        if isinstance(d_, ast.Subscript) and isinstance(d_.slice, ast.Slice) and isinstance(d_.value, ast.Name) and len(util.assignments_to(fn, d_.value.id)) == 1:
            it = d_
    recv = w.func.value
    if isinstance(it, ast.Call) and u(it.func) == "enumerate" and isinstance(par.target, ast.Tuple) and len(par.target.elts) == 2 and u(par.target.elts[1]) == u(recv):
        start = it.args[1] if len(it.args) > 1 else None
        for k in it.keywords:
            if k.arg == "start":
                start = k.value
        src = it.args[0]
        off = src.slice.lower.value if isinstance(src, ast.Subscript) and isinstance(src.slice, ast.Slice) and isinstance(src.slice.lower, ast.Constant) and src.slice.upper is None else 0
        base = u(src.value) if isinstance(src, ast.Subscript) and isinstance(src.slice, ast.Slice) else u(src)
        if (start.value if isinstance(start, ast.Constant) else 0) == off:
            return u(par.target.elts[0]), base, off
        return None
    if isinstance(it, ast.Subscript) and isinstance(it.slice, ast.Slice) and isinstance(it.slice.lower, ast.Constant) and it.slice.upper is None and u(par.target) == u(recv):
        return None, u(it.value), it.slice.lower.value
    if isinstance(it, ast.Call) and u(it.func) == "range" and len(it.args) == 2 and isinstance(it.args[0], ast.Constant) and isinstance(recv, ast.Subscript) and u(recv.slice) == u(par.target) and u(it.args[1]) == "len(%s)" % u(recv.value):
        return u(par.target), u(recv.value), it.args[0].value
    # the writer is picked by the loop variable itself (whatever the indices run over): W[j].write(r) for j in <indices>
    if isinstance(recv, ast.Subscript) and isinstance(par.target, ast.Name) and u(recv.slice) == par.target.id:
        return par.target.id, u(recv.value), None
    return None


def r1(ctx):
    run = ctx.func(MOD + ".run_split")
    cfg = ctx.cfg(run)
    loop = input_loop(ctx, run)
    name, length, rec = [u(e) for e in loop.target.elts]
    head = cfg.node_of(loop)
    # dispatch write: indexed writer
    disp = _dispatch_writes(loop, rec)
    ctx.require(len(disp) == 1, "dispatch write writer_list[haplotype].write(record) not found")
    dnode = cfg.node_containing(disp[0])
    # early exits
    exits = util.lexical_loop_exits(loop)
    reach = cfg.reachable(cfg.entry)
    live = [e for e in exits if any(n in reach for n in cfg.nodes_of(e))]
    ctx.ob(run.qual, "no-early-exit", not live, run.loc(live[0]) if live else run.loc(loop), "the input loop is left only when the input is exhausted" if not live else "`%s` leaves the input loop before the input is exhausted: the remaining reads are never written" % u(live[0]), cfg.describe_path(cfg.find_path(head, cfg.nodes_of(live[0])[0])) if live else None)
    # record never mutated
    muts = [s for s in util.store_sites(loop) if s.root == rec]
    rebinds = [s for s, v in util.assignments_to(loop, rec) if s is not loop]
    ctx.ob(run.qual, "record-not-mutated", not muts and not rebinds, run.loc(muts[0].stmt) if muts else (run.loc(rebinds[0]) if rebinds else run.loc(loop)), "no store, delete, mutator call or rebinding of the record inside the loop" if not muts and not rebinds else "record is modified before it is written: %s" % (muts[0].text() if muts else u(rebinds[0])))
    # skipping paths = the two documented reasons only, whatever the control-flow style (continue, nested if/else):
    # every path of one iteration that does not perform the dispatch write must have established one of them
    from sa import pathfx

    try:
        its = pathfx.iteration_summaries(cfg, loop)
    except OverflowError:
        its = None
    if not its:
        ctx.ob(run.qual, "every-other-path-writes", None, run.loc(loop), "cannot enumerate the paths of one iteration of the input loop")
    else:
        bad = None
        undecided = None
        kinds = set()
        for ps in its:
            wrote = any(e_[0] == "call" and isinstance(e_[1].func, ast.Attribute) and e_[1].func.attr == "write" and e_[3] is util.stmt_of(disp[0]) for e_ in ps.effects)
            if wrote:
                continue
            K = "known_reads if discard_unknown_reads else None"
            disc = (ps.has("discard_unknown_reads", True) and ps.has("%s in known_reads" % name, False)) or ps.has("(discard_unknown_reads and not %s in known_reads)" % name, True) or ps.has("discard_unknown_reads and not %s in known_reads" % name, True) or (ps.has("None is %s" % K, False) and ps.has("%s in %s" % (name, K), False))
            # haplotype outputs that were not requested: a false entry of the flag list, or absence from a set of requested outputs
            unreq = any(t.startswith("process_haplotype[") and not p_ for t, p_ in ps.atoms)
            if not unreq:
                for t, p_ in ps.atoms:
                    m_ = re.fullmatch(r"(.+) in (\w+)", t)
                    if m_ and not p_ and m_.group(2) not in ("known_reads",):
                        d_ = util.single_def(run.node, m_.group(2))
                        if d_ is not None and isinstance(d_, (ast.SetComp, ast.Call)) and "outputs" in u(d_) and "readname_to_haplotype" in m_.group(1):
                            unreq = True
            if disc:
                kinds.add("unknown read discarded on request")
            elif unreq:
                kinds.add("output for this haplotype not requested")
            else:
                vocab = ("discard_unknown_reads", "known_reads", "process_haplotype", name, "readname_to_haplotype", "<iter>", "add_untagged", "read_haplotype", "haplotype")
                foreign = [t for t, p_ in ps.atoms if not any(v_ in t for v_ in vocab)]
                if foreign and undecided is None:
                    undecided = ps
                    continue
                bad = ps
                break
        for k_ in sorted(kinds):
            ctx.ob(run.qual, "skip:%s" % k_, True, run.loc(loop), "a read is passed over without being written when: %s" % k_)
        ctx.ob(run.qual, "every-other-path-writes", (bad is None) if (bad is not None or undecided is None) else None, run.loc(loop), "every path of an iteration (%d) that is not one of the documented skips reaches the dispatch write" % len(its) if bad is None else "a path through the loop body reaches neither the dispatch write nor a documented skip (conditions on it: %s)" % sorted("%s%s" % ("" if p_ else "not ", t) for t, p_ in bad.atoms if not t.startswith("<"))[:6], cfg.describe_path(bad.path) if bad else None)
    # both iterators yield every record
    for itname in ("_bam_iterator", "_fastq_string_iterator"):
        fi = ctx.func(MOD + "." + itname)
        c2 = ctx.cfg(fi)
        loops = [n for n in walk_function(fi.node) if isinstance(n, ast.For)]
        ctx.require(len(loops) == 1, "%s has no single record loop" % itname)
        probs = util.check_loop_conservation(c2, loops[0], lambda n: c2.kind(n) == "stmt" and any(isinstance(x, ast.Yield) for x in ast.walk(c2.ast(n))))
        ctx.ob(fi.qual, "yields-every-record", not probs, fi.loc(loops[0]), "every record of the file is yielded" if not probs else "a record can be dropped by the iterator", c2.describe_path(probs[0][1]) if probs else None)
        recv = u(loops[0].target)
        ys = [n for n in walk_function(fi.node) if isinstance(n, ast.Expr) and isinstance(n.value, ast.Yield) and isinstance(n.value.value, ast.Tuple) and len(n.value.value.elts) == 3]
        good = (recv, "str(%s) + '\\n'" % recv)
        okr = bool(ys) and all(u(y.value.value.elts[2]) in good for y in ys)
        okn = bool(ys) and all(u(y.value.value.elts[0]) in ("%s.query_name" % recv, "%s.name" % recv) for y in ys)
        ctx.ob(fi.qual, "record-handed-on-as-read", okr and okn, fi.loc(ys[0]) if ys else fi.loc(), "the iterator yields (the record's own name, length, the record itself / its complete text)" if okr and okn else "the iterator re-builds the record (%s) instead of handing on what was read: parts of the input (e.g. FASTQ header comments) are lost" % ([u(y.value.value.elts[2]) for y in ys]))


def _inside(node, anc):
    n = node
    while n is not None:
        if n is anc:
            return True
        n = getattr(n, "parent", None)
    return False


def r2(ctx):
    run = ctx.func(MOD + ".run_split")
    cfg = ctx.cfg(run)
    loop = input_loop(ctx, run)
    name, length, rec = [u(e) for e in loop.target.elts]
    disp = _dispatch_writes(loop, rec)[0]
    idx = disp.func.value.slice
    wl = u(disp.func.value.value)
    d = util.single_def(run.node, idx.id) if isinstance(idx, ast.Name) else None
    ok = d is not None and isinstance(d, ast.Subscript) and u(d.slice) == name
    ctx.ob(run.qual, "index-from-list-entry", ok, run.loc(disp), "the output index is %s" % u(d) if ok else "the output index %s is not <map>[%s]" % (u(idx), name))
    mapname = u(d.value) if ok else None
    # the map and the writer list come from the helpers
    mdef = [v for _, v in util.assignments_to(run.node, mapname)] if mapname else []
    okm = (None if not mdef else (len(mdef) == 1 and isinstance(mdef[0], tuple) and mdef[0][0] == "unpack" and isinstance(mdef[0][1], ast.Call) and u(mdef[0][1].func) == "process_haplotag_list_file" and mdef[0][2] == 0))
    ctx.ob(run.qual, "map-from-list-file", okm, run.loc(), "%s is the first result of process_haplotag_list_file" % mapname if okm else "the name->haplotype map is not the first result of process_haplotag_list_file")
    wdef = [v for _, v in util.assignments_to(run.node, wl)]
    okw = (None if not wdef else (len(wdef) == 1 and isinstance(wdef[0], tuple) and wdef[0][0] == "unpack" and isinstance(wdef[0][1], ast.Call) and u(wdef[0][1].func) == "initialize_io_files" and len(wdef[0][1].args) >= 2 and u(wdef[0][1].args[1]) == "outputs"))
    ctx.ob(run.qual, "writers-from-outputs", okw, run.loc(), "%s is built by initialize_io_files from `outputs`" % wl if okw else "the writer list is not built by initialize_io_files(reads, outputs, ...)")
    # outputs = [untagged, H1, H2...] in both branches
    outs = [(s, v) for s, v in util.assignments_to(run.node, "outputs") if isinstance(v, ast.AST)]
    params_run = util.params_of(run.node)

    def shapes(e, depth=0, exclude=None):
        """Alternative element sequences of a list-valued expression: [("one", text) | ("all", text)], following locals."""
        if depth > 5:
            return None
        if isinstance(e, ast.List):
            alts = [[]]
            for x in e.elts:
                if isinstance(x, ast.Starred):
                    sub = shapes(x.value, depth + 1)
                    if sub is None:
                        return None
                    alts = [a + b for a in alts for b in sub]
                else:
                    alts = [a + [("one", u(x))] for a in alts]
            return alts
        if isinstance(e, ast.BinOp) and isinstance(e.op, ast.Add):
            l_, r_ = shapes(e.left, depth + 1, exclude), shapes(e.right, depth + 1, exclude)
            if l_ is None or r_ is None:
                return None
            return [a + b for a in l_ for b in r_]
        if isinstance(e, ast.Call) and u(e.func) == "list" and len(e.args) == 1:
            return shapes(e.args[0], depth + 1, exclude)
        if isinstance(e, ast.Name):
            defs = [(s_, v_) for s_, v_ in util.assignments_to(run.node, e.id) if isinstance(v_, ast.AST) and s_ is not exclude]
            if e.id in params_run and (not defs or e.id == "outputs"):
                return [[("all", e.id)]]
            if not defs:
                return None
            out = []
            for s_, v_ in defs:
                sub = shapes(v_, depth + 1, s_)
                if sub is None:
                    return None
                out += sub
            return out
        return None

    want = {(("one", "output_untagged"), ("one", "output_h1"), ("one", "output_h2")): "h1/h2 form", (("one", "output_untagged"), ("all", "outputs")): "list form"}
    seen = set()
    for s, v in outs:
        alts = shapes(v, 0, s)
        if alts is None:
            ctx.ob(run.qual, "outputs-order:%s" % u(v), None, run.loc(s), "cannot read the element order of outputs = %s" % u(v))
            continue
        for a in alts:
            ok = tuple(a) in want
            seen.add(tuple(a))
            txt = "[" + ", ".join(("*" if k == "all" else "") + t for k, t in a) + "]"
            ctx.ob(run.qual, "outputs-order:%s" % txt, ok, run.loc(s), "outputs = %s puts the untagged output at index 0 and haplotype i at index i" % txt if ok else "outputs = %s does not keep [untagged, H1, H2, ...] order" % txt)
    ctx.require(set(want) <= seen or not outs, "expected two constructions of `outputs` (h1/h2 form and list form)")
    # writers are created in the order of outputs, one per entry
    io = ctx.func(MOD + ".initialize_io_files")
    comps = [n for n in walk_function(io.node) if isinstance(n, ast.Assign) and u(n.targets[0]) == "output_writers"]
    outs_p = util.params_of(io.node)[1]

    def one_per_output(c):
        """output_writers = [f(p) for p in outputs]   or   output_writers = []; for p in outputs: ...; output_writers.append(...)"""
        v = c.value
        if isinstance(v, ast.ListComp) and len(v.generators) == 1 and u(v.generators[0].iter) == outs_p and not v.generators[0].ifs:
            return True
        if isinstance(v, ast.List) and not v.elts:
            blk = getattr(c.parent, "body", []) if c in getattr(c.parent, "body", []) else getattr(c.parent, "orelse", [])
            rest = blk[blk.index(c) + 1 :] if c in blk else []
            loops_ = [x for x in rest if isinstance(x, ast.For) and u(x.iter) == outs_p and not x.orelse]
            if len(loops_) != 1 or util.lexical_loop_exits(loops_[0]) or any(isinstance(x, ast.Continue) for x in ast.walk(loops_[0])):
                return False
            apps = [x for x in loops_[0].body if isinstance(x, ast.Expr) and isinstance(x.value, ast.Call) and u(x.value.func) == "output_writers.append"]
            others = [x for x in ast.walk(loops_[0]) if isinstance(x, ast.Call) and isinstance(x.func, ast.Attribute) and u(x.func.value) == "output_writers"]
            return len(apps) == 1 and len(others) == 1
        return False

    ok = (None if not comps else (len(comps) >= 2 and all(one_per_output(c) for c in comps)))
    ctx.ob(io.qual, "one-writer-per-output-in-order", ok, io.loc(), "output_writers has one writer per entry of outputs, in order, for BAM and FASTQ" if ok else "output_writers is not a plain comprehension over outputs in both formats")
    # list parsing: H<i> -> i, none -> 0, defaultdict(int)
    pl = ctx.func(MOD + ".process_haplotag_list_file")
    h2i = [v for _, v in util.assignments_to(pl.node, "haplotype_to_int") if isinstance(v, ast.AST)]
    def is_h_comp(d_):
        return isinstance(d_, ast.DictComp) and isinstance(d_.key, ast.JoinedStr) and u(d_.key) == "f'H{%s}'" % u(d_.value) and u(d_.generators[0].iter).replace(" ", "") == "range(1,ploidy+1)"

    h_none_in_display = False
    ok = None
    if len(h2i) == 1 and isinstance(h2i[0], ast.Dict):
        # {"none": 0, **{f"H{i}": i for i in range(1, ploidy + 1)}}
        spreads = [v_ for k_, v_ in zip(h2i[0].keys, h2i[0].values) if k_ is None]
        plain = {u(k_): u(v_) for k_, v_ in zip(h2i[0].keys, h2i[0].values) if k_ is not None}
        ok = len(spreads) == 1 and is_h_comp(spreads[0]) and set(plain) <= {"'none'"}
        h_none_in_display = plain.get("'none'") == "0"
    elif h2i:
        ok = len(h2i) == 1 and is_h_comp(h2i[0])
    ctx.ob(pl.qual, "H<i>-maps-to-i", ok, pl.loc(), "haplotype_to_int maps 'H<i>' to i for i in 1..ploidy" if ok else "haplotype_to_int is not {f'H{i}': i for i in range(1, ploidy + 1)}")
    none0 = [s for s in util.store_sites(pl.node) if s.kind == "subscript" and u(s.target.value) == "haplotype_to_int" and util.const_key(s.target) == "none"]
    ok = (None if not none0 else (len(none0) == 1 and isinstance(none0[0].value, ast.Constant) and none0[0].value.value == 0))
    if not none0 and h_none_in_display:
        ok = True
    ctx.ob(pl.qual, "none-maps-to-0", ok, pl.loc(), "'none' maps to output 0 (untagged)" if ok else "'none' does not map to 0")
    rdefs = [v for _, v in util.assignments_to(pl.node, "readname_to_haplotype") if isinstance(v, ast.AST)]
    def is_dd_int(v, depth=0):
        if isinstance(v, ast.Call) and u(v.func) in ("defaultdict", "collections.defaultdict") and v.args and u(v.args[0]) == "int":
            return True
        if isinstance(v, ast.Name) and depth < 3:
            ds = [x for _, x in util.assignments_to(pl.node, v.id)]
            return bool(ds) and all(isinstance(x, ast.AST) and is_dd_int(x, depth + 1) for x in ds)
        return False

    ok = (None if not rdefs else (len(rdefs) >= 1 and all(is_dd_int(v) for v in rdefs)))
    ctx.ob(pl.qual, "unlisted-reads-default-to-0", ok, pl.loc(), "every construction of readname_to_haplotype is defaultdict(int): unlisted reads go to output 0" if ok else "readname_to_haplotype is not always a defaultdict(int)")
    st = [s for s in util.store_sites(pl.node) if s.kind == "subscript" and u(s.target.value) == "readname_to_haplotype"]
    ok = (None if not st else (len(st) == 1 and u(st[0].target.slice) == "readname" and u(st[0].value) == "haplo_num" and isinstance(util.single_def(pl.node, "haplo_num"), ast.Subscript) and u(util.single_def(pl.node, "haplo_num")) == "haplotype_to_int[haplo_name]"))
    ctx.ob(pl.qual, "entry-stored-under-its-name", ok, pl.loc(st[0].stmt) if st else pl.loc(), "readname_to_haplotype[readname] = haplotype_to_int[haplo_name]" if ok else "list entries are not stored as readname -> haplotype_to_int[haplo_name]")
    # --only-largest-block: a block is identified by (chromosome, phase set) in every table that speaks about it
    sizes = [n for n in walk_function(pl.node) if isinstance(n, ast.AugAssign) and u(n.target).startswith("block_sizes[")]
    names = [c for c in ctx.prog.calls_in(pl.node) if isinstance(c.func, ast.Attribute) and c.func.attr == "add" and u(c.func.value).startswith("blocks_to_readnames[")]
    sel = ctx.func(MOD + ".select_reads_in_largest_phased_blocks")
    sparams = util.params_of(sel.node)
    look = [x for x in walk_function(sel.node) if isinstance(x, ast.Subscript) and u(x.value) == sparams[1]]
    ok = (None if not sizes else (len(sizes) == 1 and u(sizes[0].target) == "block_sizes[chromosome][phaseset]" and len(names) == 1 and u(names[0].func.value) == "blocks_to_readnames[chromosome, phaseset]" and u(names[0].args[0]) == "readname"))
    ok = ok and len(look) == 1 and u(look[0].slice) in ("(chromosome, block_name)",)
    loops = [n for n in walk_function(sel.node) if isinstance(n, ast.For) and u(n.iter) == "%s.items()" % sparams[0]]
    ok = ok and len(loops) == 1 and [u(t) for t in loops[0].target.elts] == ["chromosome", "block_counts"] and any(isinstance(n, ast.Assign) and u(n.value) == "block_counts.most_common(1)[0]" and u(n.targets[0].elts[0]) == "block_name" for n in ast.walk(loops[0]))
    ctx.ob(pl.qual, "block-identity-includes-chromosome", ok, pl.loc(names[0]) if names else pl.loc(), "block sizes and block read names are both keyed by (chromosome, phase set); the largest block per chromosome is looked up under the same key" if ok else "the tables describing phase blocks do not all identify a block by (chromosome, phase set): blocks with the same id on different chromosomes are conflated")
    # only haplotagged entries take part in the largest-block bookkeeping: a 'none' entry belongs to no phase set
    pcfg = ctx.cfg(pl)
    for bk in sizes + [util.stmt_of(c_) for c_ in names]:
        gb = guard_atoms(pcfg, pcfg.node_of(bk))
        okb = ("0 == haplo_num", False) in gb or ("0 < haplo_num", True) in gb
        ctx.ob(pl.qual, "block-bookkeeping-only-for-tagged-entries:%s" % u(bk)[:40], okb, pl.loc(bk), "phase-set sizes and members are recorded only for entries with a haplotype (haplo_num != 0)" if okb else "`%s` also runs for 'none' entries: the untagged entries of a chromosome form a pseudo block that can win --only-largest-block, and every haplotagged read of that chromosome goes to the untagged output" % u(bk)[:60])
    # ... and the reads of every chromosome's largest block are collected: the lookup happens once per chromosome
    if len(look) == 1 and len(loops) == 1:
        inside_loop = any(x is look[0] for x in ast.walk(loops[0]))
        srets = [n for n in walk_function(sel.node) if isinstance(n, ast.Return) and n.value is not None]
        acc = u(srets[0].value) if len(srets) == 1 and isinstance(srets[0].value, ast.Name) else None
        st_ = util.stmt_of(look[0])
        feeds = acc is not None and ((isinstance(st_, ast.Assign) and u(st_.targets[0]) == acc and acc in u(st_.value)) or (isinstance(st_, ast.AugAssign) and u(st_.target) == acc and isinstance(st_.op, ast.BitOr)) or (isinstance(st_, ast.Expr) and isinstance(st_.value, ast.Call) and u(st_.value.func) in ("%s.update" % acc,)))
        if not feeds and acc is not None and isinstance(st_, ast.Expr) and isinstance(st_.value, ast.Call) and isinstance(st_.value.func, ast.Attribute) and st_.value.func.attr in ("append", "extend", "add", "update") and isinstance(st_.value.func.value, ast.Name):
            # collected first, united afterwards: L.append(<lookup>) ... acc = set().union(*L) / set(chain.from_iterable(L))
            coll = st_.value.func.value.id
            adef = util.single_def(sel.node, acc)
            cdefs = [v_ for _, v_ in util.assignments_to(sel.node, coll)]
            fresh = len(cdefs) == 1 and isinstance(cdefs[0], (ast.List, ast.Set, ast.Call)) and u(cdefs[0]) in ("[]", "set()", "list()")
            feeds = fresh and adef is not None and any(isinstance(x, ast.Name) and x.id == coll for x in ast.walk(adef)) and isinstance(adef, ast.Call) and (u(adef.func) in ("set().union", "set", "frozenset") or u(adef.func).endswith(".union"))
        okl = True if (inside_loop and feeds) else (False if not inside_loop else None)
        ctx.ob(sel.qual, "largest-block-of-every-chromosome-collected", okl, sel.loc(look[0]), "the reads of the largest block are added to the selection inside the chromosome loop" if okl else ("the block's reads are looked up after the chromosome loop: only the last chromosome's largest block is selected, reads of all other chromosomes are treated as untagged" if not inside_loop else "cannot see how the looked-up reads reach the returned selection"))
    rets = [n for n in walk_function(pl.node) if isinstance(n, ast.Return)]
    def is_the_map(e):
        if u(e) == "readname_to_haplotype":
            return True
        if isinstance(e, ast.Name):
            ds = [x for _, x in util.assignments_to(pl.node, e.id)]
            # the largest-block restriction: defaultdict(int, {k: readname_to_haplotype[k] for k in selected})
            return bool(ds) and all(isinstance(x, ast.Call) and u(x.func) in ("defaultdict", "collections.defaultdict") and len(x.args) == 2 and u(x.args[0]) == "int" and isinstance(x.args[1], ast.DictComp) and u(x.args[1].value) == "readname_to_haplotype[%s]" % u(x.args[1].key) for x in ds)
        return False

    ok = (None if not rets else all(isinstance(r_.value, ast.Tuple) and r_.value.elts and is_the_map(r_.value.elts[0]) for r_ in rets))
    # every listed read is a known read: the set of known reads is completed from the map of ALL tagged reads, before the
    # map is cut down to the largest blocks (a tagged read outside the largest block is untagged, not unknown)
    plcfg = ctx.cfg(pl)
    ups = [c for c in ctx.prog.calls_in(pl.node) if isinstance(c.func, ast.Attribute) and c.func.attr in ("update", "__ior__") and u(c.func.value) == "known_reads" and len(c.args) == 1] + [n_ for n_ in walk_function(pl.node) if isinstance(n_, ast.AugAssign) and isinstance(n_.op, ast.BitOr) and u(n_.target) == "known_reads"]
    src_ok = [x for x in ups if u(x.args[0] if isinstance(x, ast.Call) else x.value) in ("readname_to_haplotype", "readname_to_haplotype.keys()", "set(readname_to_haplotype)")]
    redefs = [s_ for s_, v_ in util.assignments_to(pl.node, "readname_to_haplotype") if isinstance(v_, ast.AST) and any(isinstance(x, (ast.DictComp, ast.Subscript, ast.GeneratorExp)) for x in ast.walk(v_))]
    if len(ups) == 1 and len(src_ok) == 1:
        un = plcfg.node_containing(ups[0]) if isinstance(ups[0], ast.Call) else plcfg.node_of(ups[0])
        late = [s_ for s_ in redefs if plcfg.find_path(plcfg.node_of(s_), un) is not None]
        gk = ("discard_unknown_reads", True) in guard_atoms(plcfg, un)
        okk = not late and gk
        ctx.ob(pl.qual, "known-reads-completed-from-the-full-map", okk, pl.loc(ups[0]), "with --discard-unknown-reads every tagged read of the list is known, whatever --only-largest-block keeps" if okk else ("known_reads is completed after the map was cut down to the largest blocks: with both options tagged reads outside the largest block are discarded as unknown instead of going to the untagged output" if late else "known_reads is not completed under discard_unknown_reads"))
    elif not ups and [c for c in ctx.prog.calls_in(pl.node) if u(c.func) == "known_reads.add" and len(c.args) == 1]:
        # every line of the list registers its read name, whatever its haplotype: nothing is left to complete
        adds_ = [c for c in ctx.prog.calls_in(pl.node) if u(c.func) == "known_reads.add" and len(c.args) == 1]
        okk = None
        for c in adds_:
            ga_ = guard_atoms(plcfg, plcfg.node_containing(c))
            lp_ = c
            while lp_ is not None and not isinstance(lp_, ast.For):
                lp_ = getattr(lp_, "parent", None)
            if lp_ is None:
                continue
            extra = [(t_, p_) for t_, p_ in ga_ - guard_atoms(plcfg, plcfg.node_of(lp_)) if not t_.startswith("<") and t_ != "discard_unknown_reads"]
            if not extra:
                okk = True
        ctx.ob(pl.qual, "known-reads-completed-from-the-full-map", okk, pl.loc(adds_[0]), "every listed read name is registered as known when its line is read" if okk else "cannot read how known_reads is completed with the tagged reads")
    else:
        ctx.ob(pl.qual, "known-reads-completed-from-the-full-map", None, pl.loc(), "cannot read how known_reads is completed with the tagged reads")
    ctx.ob(pl.qual, "returns-map-first", ok, pl.loc(rets[0]) if rets else pl.loc(), "the map is the first returned value" if ok else "process_haplotag_list_file does not return the map first")
    # untagged processing flag and add-untagged fan-out
    ph = [s for s in util.store_sites(run.node) if s.kind == "subscript" and u(s.target) == "process_haplotype[0]"]
    ok = (None if not ph else (len(ph) == 1 and isinstance(ph[0].value, ast.BoolOp) and isinstance(ph[0].value.op, ast.Or) and {u(v) for v in ph[0].value.values} == {"process_haplotype[0]", "add_untagged"}))
    if not ph:
        # set form: W = {i for i, o in enumerate(outputs) if o is not None}; if add_untagged: W.add(0)
        for nm_ in {x.id for x in ast.walk(run.node) if isinstance(x, ast.Name)}:
            d_ = util.single_def(run.node, nm_)
            if isinstance(d_, ast.SetComp) and len(d_.generators) == 1 and u(d_.generators[0].iter) == "enumerate(outputs)" and isinstance(d_.generators[0].target, ast.Tuple) and u(d_.elt) == u(d_.generators[0].target.elts[0]) and len(d_.generators[0].ifs) == 1 and atoms(d_.generators[0].ifs[0], True) == {("None is %s" % u(d_.generators[0].target.elts[1]), False)}:
                adds0 = [c for c in ctx.prog.calls_in(run.node) if u(c.func) == "%s.add" % nm_ and len(c.args) == 1 and u(c.args[0]) == "0"]
                ok = len(adds0) == 1 and ("add_untagged", True) in guard_atoms(cfg, cfg.node_containing(adds0[0]))
    ctx.ob(run.qual, "add-untagged-enables-output-0", ok, run.loc(ph[0].stmt) if ph else run.loc(), "untagged reads are processed when --output-untagged or --add-untagged is given" if ok else "process_haplotype[0] is not `process_haplotype[0] or add_untagged`")
    fan = _fanout_writes(loop, rec)
    ok = False
    if len(fan) == 1:
        fx = _fanout_index(fan[0])
        ga = guard_atoms(cfg, cfg.node_containing(fan[0]))
        ok = fx is not None and fx[1] == wl and fx[2] == 1 and ("0 == %s" % u(idx), True) in ga and ("add_untagged", True) in ga
        if not ok and (fx is None or fx[2] is None) and ("0 == %s" % u(idx), True) in ga:
            ok = None  # the copies run over indices / writers this rule cannot enumerate (e.g. a range chosen before the loop)
    ctx.ob(run.qual, "add-untagged-fan-out", ok, run.loc(fan[0]) if fan else run.loc(loop), "untagged reads are copied to every writer of %s[1:] exactly under `haplotype == 0 and add_untagged`" % wl if ok else "the --add-untagged copy is not `for w in %s[1:]: w.write(record)` under `haplotype == 0 and add_untagged`" % wl)


def r3(ctx):
    run = ctx.func(MOD + ".run_split")
    cfg = ctx.cfg(run)
    loop = input_loop(ctx, run)
    name, length, rec = [u(e) for e in loop.target.elts]
    head = cfg.node_of(loop)
    for w in _writes(loop, rec):
        wn = cfg.node_containing(w)
        if _nearest_for(w) is loop and isinstance(w.func.value, ast.Subscript):
            j = u(w.func.value.slice)
            scope_head = head
        else:
            par = _nearest_for(w)
            scope_head = cfg.node_of(par)
            fx = _fanout_index(w)
            j = fx[0] if fx is not None else None
        want = "histogram_data[%s][%s]" % (j, length) if j is not None else None
        incs = {n for n in cfg.g.nodes if cfg.kind(n) == "stmt" and isinstance(cfg.ast(n), ast.AugAssign) and isinstance(cfg.ast(n).op, ast.Add) and u(cfg.ast(n).target) == want and isinstance(cfg.ast(n).value, ast.Constant) and cfg.ast(n).value.value == 1}
        ok = False
        if incs:
            # on every iteration of the scope that reaches the write, exactly one increment is passed
            before = all(cfg.find_path(s, wn, avoid_nodes=incs | {scope_head}) is None for s in cfg.succ(scope_head, "loop"))
            after = cfg.find_path(wn, scope_head, avoid_nodes=incs) is None
            ok = before or after
        if not ok and j is None and _nearest_for(w) is not loop:
            # the copies and their counts in two loops over the same positions of the two parallel lists:
            #   for x in W[k:]: x.write(r)        for h in histogram_data[k:]: h[length] += 1
            fx = _fanout_index(w)
            par = _nearest_for(w)
            blk = getattr(par, "parent", None)
            sibs = [x for f_ in ("body", "orelse") for x in (getattr(blk, f_, None) or []) if isinstance(x, ast.For) and x is not par] if blk is not None and any(par in (getattr(blk, f_, None) or []) for f_ in ("body", "orelse")) else []

            def _slice_of(it_):
                if isinstance(it_, ast.Name):
                    d_ = util.single_def(run.node, it_.id)
                    if isinstance(d_, ast.Subscript) and isinstance(d_.value, ast.Name) and len(util.assignments_to(run.node, d_.value.id)) == 1:
                        it_ = d_
                if isinstance(it_, ast.Subscript) and isinstance(it_.slice, ast.Slice) and isinstance(it_.slice.lower, ast.Constant) and it_.slice.upper is None and it_.slice.step is None:
                    return u(it_.value), it_.slice.lower.value
                return None

            for sb in sibs:
                so = _slice_of(sb.iter)
                body_ok = len(sb.body) == 1 and isinstance(sb.body[0], ast.AugAssign) and isinstance(sb.body[0].op, ast.Add) and isinstance(sb.body[0].value, ast.Constant) and sb.body[0].value.value == 1 and isinstance(sb.target, ast.Name) and u(sb.body[0].target) == "%s[%s]" % (sb.target.id, length) and not sb.orelse
                wbody_ok = len(par.body) == 1 and not par.orelse
                if fx is not None and fx[0] is None and so == ("histogram_data", fx[2]) and body_ok and wbody_ok:
                    ok = True
                    want = "histogram_data[k][%s] for the same k >= %d (a second loop over histogram_data[%d:])" % (length, fx[2], fx[2])
        if ok and incs and j is not None:
            # ... and the other way round: a count without the write it stands for (a read that is skipped because its output
            # was not requested must not be counted)
            lone = None
            for n_ in incs:
                if n_ == wn:
                    continue
                pre = any(s_ != wn and (s_ == n_ or cfg.find_path(s_, n_, avoid_nodes={wn, scope_head}) is not None) for s_ in cfg.succ(scope_head, "loop"))
                post = cfg.find_path(n_, scope_head, avoid_nodes={wn})
                if pre and post is not None:
                    lone = [n_] + post[1:]
            if lone is not None:
                ctx.ob(run.qual, "histogram-counts-only-written-reads:%s" % want, False, run.loc(cfg.ast(lone[0])), "%s += 1 can happen in an iteration that does not write the read to that output (e.g. the output was not requested): the histogram counts reads that are in no file" % want, cfg.describe_path(lone))
            else:
                ctx.ob(run.qual, "histogram-counts-only-written-reads:%s" % want, True, run.loc(w), "every %s += 1 belongs to a write of the same iteration" % want)
        ctx.ob(run.qual, "histogram-pairs:%s" % u(w), ok, run.loc(w), "every %s is paired with %s += 1 in the same iteration" % (u(w), want) if ok else "%s is not paired with an increment of the histogram of the output it writes to (%s)" % (u(w), want or "no index paired with the writer"))
    # histogram_data has one counter per output
    hd = util.single_def(run.node, "histogram_data")
    ok = hd is not None and isinstance(hd, ast.ListComp) and u(hd.generators[0].iter) == "outputs" and u(hd.elt) == "Counter()"
    ctx.ob(run.qual, "one-counter-per-output", ok, run.loc(), "histogram_data has one Counter per entry of outputs" if ok else "histogram_data is not [Counter() for _ in outputs]")


def r4(ctx):
    fi = ctx.func(MOD + ".write_read_length_histogram")
    loops = [n for n in walk_function(fi.node) if isinstance(n, ast.For)]
    ctx.require(len(loops) == 1, "row loop of write_read_length_histogram not found")
    it = loops[0].iter
    src = util.single_def(fi.node, it.id) if isinstance(it, ast.Name) else it
    ctx.require(src is not None, "definition of the row key sequence not found")

    def dedup(e):
        if isinstance(e, ast.Call) and isinstance(e.func, ast.Name) and e.func.id in ("sorted", "list", "tuple") and e.args:
            return dedup(e.args[0])
        if isinstance(e, ast.Call) and isinstance(e.func, ast.Name) and e.func.id in ("set", "frozenset"):
            return True
        if isinstance(e, (ast.Set, ast.SetComp)):
            return True
        if isinstance(e, ast.Call) and isinstance(e.func, ast.Attribute) and e.func.attr in ("union", "keys") and not (isinstance(e.func.value, ast.Name) and e.func.value.id == "itertools"):
            return e.func.attr == "union" or True
        if isinstance(e, ast.Name):
            d = util.single_def(fi.node, e.id)
            return d is not None and dedup(d)
        return False

    ok = dedup(src)
    ctx.ob(fi.qual, "row-keys-distinct", ok, fi.loc(loops[0]), "row keys %s are deduplicated: each read length is one row" % u(src) if ok else "row keys %s concatenate the per-output length sets without deduplication: a length present in several outputs is printed several times" % u(src))
    ordered = isinstance(src, ast.Call) and u(src.func) == "sorted"
    ctx.ob(fi.qual, "row-keys-sorted", ordered, fi.loc(loops[0]), "rows are in ascending length order" if ordered else "rows are not sorted")
    # columns: one count per output, in order
    pr = [c for c in ast.walk(loops[0]) if isinstance(c, ast.Call) and u(c.func) == "print"]
    okc = None
    if len(pr) == 1:
        shp = util.printed_shape(fi.node, pr[0])
        if shp is not None:
            rowkey = u(loops[0].target)
            okc = (None if not shp else (len(shp) == 2 and shp[0][0] == "one" and u(shp[0][1]) == rowkey and shp[1][0] == "each" and shp[1][3] == util.params_of(fi.node)[0] and u(shp[1][1]) == "%s[%s]" % (shp[1][2], rowkey)))
    ctx.ob(fi.qual, "one-count-per-output", okc, fi.loc(loops[0]), "each row prints lc[length] for every output's counter in order" if okc else "row counts are not (lc[length] for lc in length_counts)")


def r5(ctx):
    """Reading the first line of the haplotype list to inspect it must not swallow a data line: every readline() on the list
    is followed by seek(0) on all paths to the function's exits, unless the line read is a header (starts with '#')."""
    n_sites = 0
    for q in (MOD + ".check_haplotag_list_information", MOD + ".process_haplotag_list_file"):
        fi = ctx.func(q)
        cfg = ctx.cfg(fi)
        for c in ctx.prog.calls_in(fi.node):
            if not (isinstance(c.func, ast.Attribute) and c.func.attr in ("readline", "__next__") or (u(c.func) == "next" and c.args)):
                continue
            recv = u(c.func.value) if isinstance(c.func, ast.Attribute) else u(c.args[0])
            n_sites += 1
            rn = cfg.node_containing(c)
            seeks = set()
            for n in cfg.g.nodes:
                a = cfg.ast(n)
                if a is not None and cfg.kind(n) in ("stmt",) and any(isinstance(x, ast.Call) and u(x.func) == "%s.seek" % recv and len(x.args) == 1 and u(x.args[0]) == "0" for x in ast.walk(a)):
                    seeks.add(n)
            # names holding the line just read
            st_ = util.stmt_of(c)
            held = {u(c)}
            if isinstance(st_, ast.Assign) and len(st_.targets) == 1 and isinstance(st_.targets[0], ast.Name) and any(x is c for x in ast.walk(st_.value)):
                held.add(st_.targets[0].id)
            avoid_edges = set()
            for n in cfg.g.nodes:
                if cfg.kind(n) != "test":
                    continue
                t = cfg.ast(n)
                if t is None:
                    continue
                for (txt, pol) in atoms(t, True):
                    if any(txt in ("%s.startswith('#')" % h, "%s.lstrip().startswith('#')" % h) for h in held):
                        # pol True: the true edge means "header"; the header line may be consumed
                        for m in cfg.succ(n, "true" if pol else "false"):
                            avoid_edges.add((n, m))
            path = cfg.find_path(rn, cfg.exit, avoid_nodes=seeks, avoid_edges=avoid_edges, start_after=(rn in seeks))
            ok = path is None
            ctx.ob(fi.qual, "first-line-not-swallowed:%s" % recv, ok, fi.loc(c), "after %s.readline() the list is rewound with seek(0) on every path, except when the line is a '#' header" % recv if ok else "a line read from the haplotype list with readline() is not given back (no seek(0) on some path, and the line is not known to be a header): the first read of a header-less list is dropped from the name -> haplotype map", cfg.describe_path(path) if path else None)
    ctx.require(n_sites >= 1, "no readline() on the haplotype list found")


RULES = [
    ("C14.R1", "single pass: no mutation, documented skips only, no early exit", r1),
    ("C14.R2", "routing tables: map, writer order, H<i>->i, none->0, add-untagged", r2),
    ("C14.R3", "every write is paired with the histogram of its output", r3),
    ("C14.R4", "histogram rows: distinct sorted lengths, one count per output", r4),
    ("C14.R5", "inspecting the first line of the list does not consume a data line", r5),
]
# instance floors: about 60% of the instances confirmed by hand on the reference tree -- a rule that suddenly matches far fewer
# sites fails the run (exit 2); a clean-up that merges two sites into one does not
FLOORS = {"C14.R1": 5, "C14.R2": 8, "C14.R3": 1, "C14.R4": 1, "C14.R5": 1}
