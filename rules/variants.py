"""Sensitivity-audit corpus: (id, file, old text, new text, expected rule prefix | "silent").

`old` must occur exactly once in the file (otherwise the variant is skipped and counted).
Seeded variants break one clause of the property; benign variants keep behaviour.
"""

PH = "whatshap/cli/phase.py"
VCF = "whatshap/vcf.py"
T = "\t"

VARIANTS = {}

# ------------------------------------------------------------------------------------------ C03
VARIANTS["C03"] = [
    ("merge-flipped-comparison", "whatshap/graph.py", "if x_root.value < y_root.value:", "if x_root.value > y_root.value:", "C03.R1"),
    ("merge-swapped-assignment", "whatshap/graph.py", "            y_root.parent = x_root\n        else:\n            x_root.parent = y_root", "            x_root.parent = y_root\n        else:\n            y_root.parent = x_root", "C03.R1"),
    ("find-returns-argument", "whatshap/graph.py", "        return self._find_node(value).value", "        self._find_node(value)\n        return value", "C03.R1"),
    ("compression-to-grandparent", "whatshap/graph.py", "            node.parent, node = root, node.parent", "            node.parent, node = node.parent, node.parent", "C03.R1"),
    ("merge-only-neighbours", PH, "        for position in positions[1:]:\n            component_finder.merge(positions[0], position)", "        for position in positions[1:2]:\n            component_finder.merge(positions[0], position)", "C03.R2"),
    ("merge-with-last", PH, "        for position in positions[1:]:\n            component_finder.merge(positions[0], position)", "        for position in positions[1:]:\n            component_finder.merge(positions[-1], position)", "C03.R2"),
    ("het-filter-always", PH, "        if heterozygous_positions is None:\n            positions = [\n                variant.position for variant in read if variant.position in phased_positions_set\n            ]", "        if heterozygous_positions is None:\n            positions = [variant.position for variant in read]", "C03.R2"),
    ("components-from-list-subset", PH, "    components = {position: component_finder.find(position) for position in phased_positions_set}", "    components = {position: component_finder.find(position) for position in phased_positions_set if position != component_finder.find(position)}", "C03.R2"),
    ("components-from-other-reads", PH, "                        accessible_positions,\n                        all_reads,\n                        distrust_genotypes,\n                        family,", "                        accessible_positions,\n                        merged_reads,\n                        distrust_genotypes,\n                        family,", "C03.R3"),
    ("master-block-without-flag", PH, "        if len(family) > 1 and genetic_haplotyping:\n            master_block = sorted(set(homozygous_positions)", "        if len(family) > 1:\n            master_block = sorted(set(homozygous_positions)", "C03.R4"),
    ("master-block-all-homozygous", PH, "master_block = sorted(set(homozygous_positions).intersection(accessible_positions_set))", "master_block = sorted(set(homozygous_positions))", "C03.R4"),
    ("ps-zero-based", VCF, 'call["PS"] = component + 1', 'call["PS"] = component', "C03.R5"),
    ("hp-zero-based", VCF, '",".join(f"{component + 1}-{allele + 1}" for allele in phase)', '",".join(f"{component}-{allele + 1}" for allele in phase)', "C03.R5"),
    # benign
    ("b-rename-loop-var", PH, "        for position in positions[1:]:\n            component_finder.merge(positions[0], position)", "        for other in positions[1:]:\n            component_finder.merge(positions[0], other)", "silent"),
    ("b-merge-inverted-if", "whatshap/graph.py", "        if x_root.value < y_root.value:\n            y_root.parent = x_root\n        else:\n            x_root.parent = y_root", "        if not x_root.value < y_root.value:\n            x_root.parent = y_root\n        else:\n            y_root.parent = x_root", "silent"),
    ("b-extra-log", PH, '    logger.debug("Finding connected components ...")', '    logger.debug("Finding connected components ...")\n    logger.debug("%d positions", len(phased_positions))', "silent"),
]

# ------------------------------------------------------------------------------------------ C04
VARIANTS["C04"] = [
    ("qual-reset", VCF, '                    call[self.tag] = "." if self.tag == "HP" else None\n', '                    call[self.tag] = "." if self.tag == "HP" else None\n                    record.qual = None\n', "C04.R2"),
    ("info-store", VCF, "            prev_pos = pos\n        return genotype_changes", '            record.info["PHASED"] = True\n            prev_pos = pos\n        return genotype_changes', "C04.R2"),
    ("delete-other-format", VCF, '                    call[self.tag] = "." if self.tag == "HP" else None\n', '                    call[self.tag] = "." if self.tag == "HP" else None\n                    del call["GQ"]\n', "C04.R2"),
    ("all-samples-touched", VCF, "            for sample in sample_superreads:\n                call: VariantRecordSample", "            for sample in self.samples:\n                call: VariantRecordSample", "C04.R3"),
    ("remove-phasing-all-samples", VCF, "            self._remove_existing_phasing(record, list(sample_superreads))", "            self._remove_existing_phasing(record, self.samples)", "C04.R3"),
    ("dup-break", VCF, "                # duplicate position, skip it\n                continue", "                # duplicate position, skip it\n                break", "C04.R1"),
    ("write-only-with-alts", VCF, "            yield record\n            self._writer.write(record)", "            yield record\n            if record.alts:\n                self._writer.write(record)", "C04.R1"),
    ("parked-record-dropped", VCF, "                # save it for later\n                self._unprocessed_record = record\n                assert n != 1\n                return", "                # save it for later\n                assert n != 1\n                return", "C04.R1"),
    ("unrequested-chromosome-not-written", PH, "                with timers(\"write_vcf\"):\n                    superreads, components = dict(), dict()\n                    vcf_writer.write(chromosome, superreads, components)\n                continue", "                continue", "C04.R1"),
    ("setter-without-het", VCF, "                if pos in components and pos in phases and is_het:", "                if pos in components and pos in phases:", "C04.R4"),
    ("is-het-not-rederived", VCF, "                    is_het = not genotypes[pos].is_homozygous()\n", "", "C04.R4"),
    ("multi-alt-guard-dropped", VCF, "            if len(record.alts) > 1 and not self._mav:\n                # we do not phase multiallelic sites unless requested\n                continue\n", "", "C04.R4"),
    ("header-format-removed-not-readded", VCF, "            raise VcfError(f\"FORMAT {fmt!r} not defined in VCF header\") from None\n        header.add_line(h.line())", "            raise VcfError(f\"FORMAT {fmt!r} not defined in VCF header\") from None\n        if fmt != \"GQ\":\n            header.add_line(h.line())", "C04.R5"),
    ("header-record-removed-unguarded", VCF, "        for hr in header.records:\n            if hr.key == \"phasing\":\n                hr.remove()\n                break\n\n        header.add_line(PREDEFINED_FORMATS[self.tag].line())", "        for hr in header.records:\n            if hr.key in (\"phasing\", \"source\"):\n                hr.remove()\n                break\n\n        header.add_line(PREDEFINED_FORMATS[self.tag].line())", "C04.R5"),
    ("gt-change-not-recorded", VCF, "                    genotype_changes.append(\n                        GenotypeChange(sample, chromosome, variant, gt_type, genotypes[pos])\n                    )\n", "", "C04.R6"),
    ("distrust-assert-dropped", PH, "                if changed_genotypes:\n                    assert distrust_genotypes\n", "                if changed_genotypes:\n", "C04.R6"),
    # benign
    ("b-rename-call", VCF, "            is_snv = len(str(record.ref)) == 1 and len(str(record.alts[0])) == 1\n            if self._only_snvs and not is_snv:\n                continue", "            is_snv = len(str(record.ref)) == 1 and len(str(record.alts[0])) == 1\n            if not is_snv and self._only_snvs:\n                continue", "silent"),
    ("b-iterate-keys", VCF, "            for sample in sample_superreads:\n                call: VariantRecordSample", "            for sample in sample_superreads.keys():\n                call: VariantRecordSample", "silent"),
    ("b-debug-in-loop", VCF, "            pos = record.start\n            if not record.alts:\n                continue\n            if len(record.alts) > 1 and not self._mav:", "            pos = record.start\n            logger.debug(\"record at %d\", pos)\n            if not record.alts:\n                continue\n            if len(record.alts) > 1 and not self._mav:", "silent"),
]

# ------------------------------------------------------------------------------------------ C05
VARIANTS["C05"] = [
    ("ped-columns-swapped", "whatshap/pedigree.py", "individual_id, paternal_id, maternal_id = fields[1:4]", "individual_id, maternal_id, paternal_id = fields[1:4]", "C05.R1"),
    ("keyword-roles-swapped", PH, "pedigree.add_relationship(father_id=trio.father, mother_id=trio.mother, child_id=trio.child)", "pedigree.add_relationship(father_id=trio.mother, mother_id=trio.father, child_id=trio.child)", "C05.R1"),
    ("pyx-positional-swapped", "whatshap/core.pyx", "self.thisptr.addRelationship(self.numeric_sample_ids[father_id], self.numeric_sample_ids[mother_id], self.numeric_sample_ids[child_id])", "self.thisptr.addRelationship(self.numeric_sample_ids[mother_id], self.numeric_sample_ids[father_id], self.numeric_sample_ids[child_id])", "C05.R1"),
    ("cpp-triple-slots-swapped", "src/pedigree.cpp", "{id_to_index(father_id), id_to_index(mother_id), id_to_index(child_id)}", "{id_to_index(mother_id), id_to_index(father_id), id_to_index(child_id)}", "C05.R1"),
    ("cpp-child-haplotypes-swapped", "src/pedigreepartitions.cpp", "haplotype_to_partition_map[parent0][!(bool)((transmission_vector >> (2*triple_index)) & 1)],\n\t  haplotype_to_partition_map[parent1][!(bool)((transmission_vector >> (2*triple_index+1)) & 1)]", "haplotype_to_partition_map[parent1][!(bool)((transmission_vector >> (2*triple_index+1)) & 1)],\n\t  haplotype_to_partition_map[parent0][!(bool)((transmission_vector >> (2*triple_index)) & 1)]", "C05.R1"),
    ("cpp-transmission-bits-swapped", "src/pedigreepartitions.cpp", "haplotype_to_partition_map[parent0][!(bool)((transmission_vector >> (2*triple_index)) & 1)]", "haplotype_to_partition_map[parent0][!(bool)((transmission_vector >> (2*triple_index+1)) & 1)]", "C05.R1"),
    ("cpp-superread-alleles-swapped", "src/pedigreedptable.cpp", "superreads[k].first->addVariant(positions->at(i), population_alleles[k].allele0, population_alleles[k].quality);", "superreads[k].first->addVariant(positions->at(i), population_alleles[k].allele1, population_alleles[k].quality);", "C05.R1"),
    ("superreads-zipped-with-sorted-family", PH, "                for sample, sample_superreads in zip(family, superreads_list):\n                    superreads[sample] = sample_superreads", "                for sample, sample_superreads in zip(sorted(family), superreads_list):\n                    superreads[sample] = sample_superreads", "C05.R1"),
    ("conflicts-not-discarded", PH, "to_retain = to_retain.difference(missing_genotypes).difference(mendelian_conflicts)", "to_retain = to_retain.difference(missing_genotypes)", "C05.R2"),
    ("missing-not-discarded", PH, "to_retain = to_retain.difference(missing_genotypes).difference(mendelian_conflicts)", "to_retain = to_retain.difference(mendelian_conflicts)", "C05.R2"),
    ("conflict-check-needs-only-child", PH, "            if (not gt_mother.is_none()) and (not gt_father.is_none()) and (not gt_child.is_none()):", "            if not gt_child.is_none():", "C05.R2"),
    ("homozygous-not-accessible", PH, "                if len(family) > 1 and genetic_haplotyping:\n                    # In case of genetic haplotyping, also retain all positions homozygous", "                if len(family) > 2 and genetic_haplotyping:\n                    # In case of genetic haplotyping, also retain all positions homozygous", "C05.R3"),
    ("default-off", PH, '        action="store_false", default=True,\n        help="Do not merge blocks that are not connected by reads', '        action="store_false", default=False,\n        help="Do not merge blocks that are not connected by reads', "C05.R3"),
    ("decode-mother-low-bit", "whatshap/pedigree.py", "                        block_transmission_vector[i - 1] % 2,\n                        block_transmission_vector[i] % 2,\n                        block_transmission_vector[i - 1] // 2,\n                        block_transmission_vector[i] // 2,", "                        block_transmission_vector[i - 1] // 2,\n                        block_transmission_vector[i] // 2,\n                        block_transmission_vector[i - 1] % 2,\n                        block_transmission_vector[i] % 2,", "C05.R4"),
    # benign
    ("b-named-temporaries", PH, "        pedigree.add_relationship(father_id=trio.father, mother_id=trio.mother, child_id=trio.child)", "        pedigree.add_relationship(child_id=trio.child, father_id=trio.father, mother_id=trio.mother)", "silent"),
    ("b-difference-order", PH, "to_retain = to_retain.difference(missing_genotypes).difference(mendelian_conflicts)", "to_retain = to_retain.difference(mendelian_conflicts).difference(missing_genotypes)", "silent"),
    ("b-cpp-comment", "src/pedigreepartitions.cpp", "\tint parent0 = pedigree.get_triples()[triple_index][0];", "\t// father\n\tint parent0 = pedigree.get_triples()[triple_index][0];", "silent"),
]

# ------------------------------------------------------------------------------------------ C06
VARIANTS["C06"] = [
    ("softclip-not-consumed", "whatshap/_variants.pyx", "        elif cigar_op == 4:  # S operator (soft clipping)\n            query_pos += length\n        elif cigar_op == 5 or cigar_op == 6:  # H or P (hard clipping or padding)\n            pass", "        elif cigar_op == 4:  # S operator (soft clipping)\n            pass\n        elif cigar_op == 5 or cigar_op == 6:  # H or P (hard clipping or padding)\n            pass", "C06.R1"),
    ("insertion-consumes-reference", "whatshap/_variants.pyx", "                if j < n:\n                    v_position = variants[j].position\n            query_pos += length\n        elif cigar_op == 2:  # D operator (deletion)", "                if j < n:\n                    v_position = variants[j].position\n            query_pos += length\n            ref_pos += length\n        elif cigar_op == 2:  # D operator (deletion)", "C06.R1"),
    ("detect-refskip-consumes-query", "whatshap/_variants.pyx", "        if cigar_op == 3:  # N operator (reference skip)\n            ref_pos += length\n            continue", "        if cigar_op == 3:  # N operator (reference skip)\n            ref_pos += length\n            query_pos += length\n            continue", "C06.R1"),
    ("prefix-deletion-consumes-query", "whatshap/variants.py", "            elif op == 2:  # D\n                ref_pos += length", "            elif op == 2:  # D\n                ref_pos += length\n                query_pos += length", "C06.R1"),
    ("unknown-op-ignored", "whatshap/_variants.pyx", '        else:\n            raise ValueError("Unsupported CIGAR operation: {}".format(cigar_op))', "        else:\n            pass", "C06.R2"),
    ("deletion-overlap-inclusive", "whatshap/_variants.pyx", "            while j < n and v_position < ref_pos + length:\n                assert v_position >= ref_pos\n                yield (j, i, v_position - ref_pos, query_pos)", "            while j < n and v_position <= ref_pos + length:\n                assert v_position >= ref_pos\n                yield (j, i, v_position - ref_pos, query_pos)", "C06.R3"),
    ("refskip-yields", "whatshap/_variants.pyx", "            while j < n and v_position < ref_pos + length:\n                assert v_position >= ref_pos\n                j += 1", "            while j < n and v_position < ref_pos + length:\n                assert v_position >= ref_pos\n                yield (j, i, v_position - ref_pos, query_pos)\n                j += 1", "C06.R1"),
    ("match-query-offset-wrong", "whatshap/_variants.pyx", "yield (j, i, v_position - ref_pos, query_pos + v_position - ref_pos)", "yield (j, i, v_position - ref_pos, query_pos)", "C06.R3"),
    ("right-pad-skips-one-base", "whatshap/variants.py", "right_pad = reference[pos + len(variant.reference_allele) : pos + right_ref_bases]", "right_pad = reference[pos + 1 : pos + right_ref_bases]", "C06.R4"),
    ("right-flank-without-ref-length", "whatshap/variants.py", "                right_cigar_iterator, len(variant.reference_allele) + overhang\n            )", "                right_cigar_iterator, overhang\n            )", "C06.R4"),
    ("query-window-uses-ref-bases", "whatshap/variants.py", "            query = bam_read.query_sequence[\n                query_pos - left_query_bases : query_pos + right_query_bases\n            ]", "            query = bam_read.query_sequence[\n                query_pos - left_ref_bases : query_pos + right_query_bases\n            ]", "C06.R4"),
    ("split-right-full-operator", "whatshap/variants.py", "        if consumed < middle_length:\n            yield middle_op, middle_length - consumed", "        if consumed < middle_length:\n            yield middle_op, middle_length", "C06.R4"),
    ("ties-guessed", "whatshap/variants.py", "if len(distances) == 1 or distances[0][1] < distances[1][1]:", "if len(distances) == 1 or distances[0][1] <= distances[1][1]:", "C06.R5"),
    ("descending-sort", "whatshap/variants.py", "            distances = [(i, edit_distance(query, allele)) for i, allele in candidates]\n            distances.sort(key=lambda x: x[1])", "            distances = [(i, edit_distance(query, allele)) for i, allele in candidates]\n            distances.sort(key=lambda x: x[1], reverse=True)", "C06.R5"),
    ("empty-candidates-not-handled", "whatshap/variants.py", "        if not candidates:\n            # e.g. a missing genotype: there is no allele to decide between\n            return None, None\n", "", "C06.R5"),
    ("none-allele-yielded", "whatshap/variants.py", "            if allele in range(num_alts + 1):\n                yield (index, allele, quality)", "            if allele is None or allele in range(num_alts + 1):\n                yield (index, allele, quality)", "C06.R5"),
    # benign
    ("b-op-test-as-set", "whatshap/variants.py", "            elif op == 4 or op == 5:  # soft or hard clipping\n                pass", "            elif op in (4, 5):  # soft or hard clipping\n                pass", "silent"),
    ("b-pos-inlined", "whatshap/variants.py", "            left_pad = reference[pos - left_ref_bases : pos]", "            left_pad = reference[(pos - left_ref_bases) : pos]", "silent"),
    ("b-pyx-comment", "whatshap/_variants.pyx", "    # Skip variants that are located to the left of the read\n", "    # Skip variants that are located to the left of the read (they cannot be covered)\n", "silent"),
]

# ------------------------------------------------------------------------------------------ C07
RSL = "whatshap/readselect.pyx"
VARIANTS["C07"] = [
    ("cap-off-by-one-slice", RSL, T * 2 + "if coverages.max_coverage_in_range(begin, end) >= max_cov:\n" + T * 3 + "reads_violating_coverage.add(max_item)", T * 2 + "if coverages.max_coverage_in_range(begin, end) > max_cov:\n" + T * 3 + "reads_violating_coverage.add(max_item)", "C07.R1"),
    ("cap-off-by-one-bridging", RSL, T * 4 + "if coverages.max_coverage_in_range(begin, end) >= max_cov:\n" + T * 5 + "undecided_reads.remove(read_index)\n" + T * 5 + "continue", T * 4 + "if coverages.max_coverage_in_range(begin, end) > max_cov:\n" + T * 5 + "undecided_reads.remove(read_index)\n" + T * 5 + "continue", "C07.R1"),
    ("bridging-add-without-check", RSL, T * 4 + "if coverages.max_coverage_in_range(begin, end) >= max_cov:\n" + T * 5 + "undecided_reads.remove(read_index)\n" + T * 5 + "continue\n", "", "C07.R1"),
    ("end-without-plus-one", RSL, T * 2 + "end = vcf_indices.get(extracted_read.getPosition(extracted_read.getVariantCount() - 1)) + 1", T * 2 + "end = vcf_indices.get(extracted_read.getPosition(extracted_read.getVariantCount() - 1))", "C07.R2"),
    ("monitor-range-short", "whatshap/coverage.py", "for i in range(begin, end):", "for i in range(begin, end - 1):", "C07.R2"),
    ("monitor-max-over-other-span", "whatshap/coverage.py", "return max(self.coverage[begin:end])", "return max(self.coverage[begin : end - 1])", "C07.R2"),
    ("non-bridging-read-dropped", RSL, T * 4 + "if len(covered_blocks) < 2:\n" + T * 5 + "continue", T * 4 + "if len(covered_blocks) < 2:\n" + T * 5 + "undecided_reads.remove(read_index)\n" + T * 5 + "continue", "C07.R3"),
    ("single-pass", RSL, T + "while len(undecided_reads) > 0:\n" + T * 2 + "pq = _construct_priorityqueue(readset, undecided_reads, vcf_indices)", T + "while len(undecided_reads) > 0 and loop < 1:\n" + T * 2 + "pq = _construct_priorityqueue(readset, undecided_reads, vcf_indices)", "C07.R3"),
    ("selection-returns-input", PH, "    selected_reads = readset.subset(selected_indices)", "    selected_reads = readset.subset(selected_indices) if selected_indices else readset", "C07.R4"),
    ("family-budget-not-shared", PH, "max_coverage_per_sample = max(1, max_coverage // len(family))", "max_coverage_per_sample = max(1, max_coverage)", "C07.R5"),
    ("selection-bypassed-for-hapchat", PH, '                        if algorithm == "heuristic":\n                            selected_reads = merged_reads', '                        if algorithm in ("heuristic", "hapchat"):\n                            selected_reads = merged_reads', "C07.R5"),
    ("limit-raised", PH, "    if args.max_coverage > 23:", "    if args.max_coverage > 32:", "C07.R5"),
    # benign
    ("b-temp-for-coverage", RSL, T * 2 + "if coverages.max_coverage_in_range(begin, end) >= max_cov:\n" + T * 3 + "reads_violating_coverage.add(max_item)", T * 2 + "if not coverages.max_coverage_in_range(begin, end) < max_cov:\n" + T * 3 + "reads_violating_coverage.add(max_item)", "silent"),
    ("b-log-message", PH, '        "Reducing coverage to at most %dX by selecting most informative reads ...", max_coverage', '        "Reducing coverage to at most %dX by selecting the most informative reads ...", max_coverage', "silent"),
]

# ------------------------------------------------------------------------------------------ C09
VARIANTS["C09"] = [
    ("hp-separator-changed-in-writer", VCF, 'f"{component + 1}-{allele + 1}"', 'f"{component + 1}_{allele + 1}"', "C09.R1"),
    ("hp-haplotype-zero-based", VCF, 'f"{component + 1}-{allele + 1}"', 'f"{component + 1}-{allele}"', "C09.R1"),
    ("hp-decoder-no-offset", VCF, "order = [field[1] - 1 for field in fields]", "order = [field[1] for field in fields]", "C09.R1"),
    ("ps-phased-flag-not-set", VCF, '            call["HS"] = [comp + 1 for comp in haploid_component]\n        call.phased = True', '            call["HS"] = [comp + 1 for comp in haploid_component]', "C09.R1"),
    ("removal-only-for-ps", VCF, "    def _remove_existing_phasing(self, record: VariantRecord, samples: Iterable[str]):\n        for sample in samples:", "    def _remove_existing_phasing(self, record: VariantRecord, samples: Iterable[str]):\n        if self.tag != \"PS\":\n            return\n        for sample in samples:", "C09.R2"),
    ("pq-survives", VCF, 'for tag, missing in (("HP", "."), ("PS", None), ("PQ", None)):', 'for tag, missing in (("HP", "."), ("PS", None)):', "C09.R2"),
    ("hp-survives", VCF, 'for tag, missing in (("HP", "."), ("PS", None), ("PQ", None)):', 'for tag, missing in (("PS", None), ("PQ", None)):', "C09.R2"),
    ("removal-after-skip", VCF, "            self._remove_existing_phasing(record, list(sample_superreads))\n            pos = record.start\n            if not record.alts:\n                continue", "            pos = record.start\n            if not record.alts:\n                continue\n            self._remove_existing_phasing(record, list(sample_superreads))", "C09.R2"),
    ("phased-flag-kept", VCF, "            call.phased = False\n            if call[\"GT\"] is not None and all(allele is not None for allele in call[\"GT\"]):", "            if call[\"GT\"] is not None and all(allele is not None for allele in call[\"GT\"]):", "C09.R2"),
    ("sort-only-for-ps", VCF, '            if call["GT"] is not None and all(allele is not None for allele in call["GT"]):\n                call["GT"] = sorted(call["GT"])\n            # Clear', '            if self.tag == "PS" and call["GT"] is not None and all(allele is not None for allele in call["GT"]):\n                call["GT"] = sorted(call["GT"])\n            # Clear', "C09.R3"),
    ("pseudo-read-wrong-haplotype", VCF, "                    read_map[phase.block_id][i].add_variant(variant.position, allele, quality)", "                    read_map[phase.block_id][0].add_variant(variant.position, allele, quality)", "C09.R4"),
    ("pseudo-read-homozygous-kept", VCF, "            if genotype.is_homozygous():\n                continue\n            if phase is None or phase.phase[0] is None:", "            if phase is None or phase.phase[0] is None:", "C09.R4"),
    ("pseudo-read-singletons-yielded", VCF, "                if len(read) > 1:\n                    read.sort()\n                    yield read", "                if len(read) > 0:\n                    read.sort()\n                    yield read", "C09.R4"),
    # benign
    ("b-literal-order", VCF, 'for tag, missing in (("HP", "."), ("PS", None), ("PQ", None)):', 'for tag, missing in (("PQ", None), ("PS", None), ("HP", ".")):', "silent"),
    ("b-rename-sample-var", VCF, "        for sample in samples:\n            call = record.samples[sample]\n            if \"GT\" not in call:\n                continue", "        for name in samples:\n            call = record.samples[name]\n            if \"GT\" not in call:\n                continue", "silent"),
]

# ------------------------------------------------------------------------------------------ C10
HT = "whatshap/cli/haplotag.py"
VARIANTS["C10"] = [
    ("earlier-region-skip-dropped", "whatshap/cli/haplotag.py", "                    if any(overlaps_region(alignment, s, e) for s, e in regions[:i]):\n                        # Already written when that earlier region was processed\n                        continue\n", "", "C10.R6"),
    ("skip-looks-at-later-regions", "whatshap/cli/haplotag.py", "for s, e in regions[:i]):", "for s, e in regions[i + 1 :]):", "C10.R6"),
    ("skip-looks-at-all-regions", "whatshap/cli/haplotag.py", "for s, e in regions[:i]):", "for s, e in regions):", "C10.R6"),
    ("overlap-test-ignores-open-end", "whatshap/cli/haplotag.py", "    return alignment_end > start and (end is None or alignment.reference_start < end)", "    return alignment_end > start and end is not None and alignment.reference_start < end", "C10.R6"),
    ("overlap-test-by-start-only", "whatshap/cli/haplotag.py", "    return alignment_end > start and (end is None or alignment.reference_start < end)", "    return alignment.reference_start >= start and (end is None or alignment.reference_start < end)", "C10.R6"),
    ("b-skip-flag-local", "whatshap/cli/haplotag.py", "                    if any(overlaps_region(alignment, s, e) for s, e in regions[:i]):\n", "                    seen_before = any(overlaps_region(alignment, s, e) for s, e in regions[:i])\n                    if seen_before:\n", "silent"),
    ("ignored-reads-not-written", HT, "                        alignment.set_tag(\"HP\", value=None)\n                        alignment.set_tag(\"PC\", value=None)\n                        alignment.set_tag(\"PS\", value=None)\n                    else:", "                        alignment.set_tag(\"HP\", value=None)\n                        alignment.set_tag(\"PC\", value=None)\n                        alignment.set_tag(\"PS\", value=None)\n                        if alignment.is_secondary:\n                            continue\n                    else:", "C10.R1"),
    ("progress-break", HT, "                    if n_alignments % 100_000 == 0:\n                        logger.debug(f\"Processed {n_alignments} alignment records.\")", "                    if n_alignments % 100_000 == 0:\n                        logger.debug(f\"Processed {n_alignments} alignment records.\")\n                        break", "C10.R1"),
    ("unmapped-tail-always", HT, "        if include_unmapped:\n            logger.debug(\"Copying unmapped reads to output\")", "        if include_unmapped or regions:\n            logger.debug(\"Copying unmapped reads to output\")", "C10.R1"),
    ("chromosome-skipped-without-variants", HT, "            if variant_table is not None:\n                logger.debug(\"Preparing haplotype information\")", "            if variant_table is not None and len(variant_table) == 0:\n                continue\n            if variant_table is not None:\n                logger.debug(\"Preparing haplotype information\")", "C10.R1"),
    ("mapq-reset", HT, "                    bam_writer.write(alignment)\n                    if haplotag_writer is not None and not (", "                    alignment.mapping_quality = min(alignment.mapping_quality, 60)\n                    bam_writer.write(alignment)\n                    if haplotag_writer is not None and not (", "C10.R2"),
    ("extra-tag", HT, '        alignment.set_tag("PS", phaseset)\n        is_tagged = 1\n    except KeyError:', '        alignment.set_tag("PS", phaseset)\n        alignment.set_tag("HT", haplotype_name)\n        is_tagged = 1\n    except KeyError:', "C10.R2"),
    ("stale-pc-kept-on-ignored", HT, "                        alignment.set_tag(\"HP\", value=None)\n                        alignment.set_tag(\"PC\", value=None)\n                        alignment.set_tag(\"PS\", value=None)\n                    else:", "                        alignment.set_tag(\"HP\", value=None)\n                        alignment.set_tag(\"PS\", value=None)\n                    else:", "C10.R3"),
    ("untagged-not-cleared", HT, "                        if not is_tagged:\n                            # Remove any existing tags HP, PC and PS if the aligment does\n                            # not have phasing information\n                            alignment.set_tag(\"HP\", value=None)", "                        if not is_tagged and tag_supplementary:\n                            # Remove any existing tags HP, PC and PS if the aligment does\n                            # not have phasing information\n                            alignment.set_tag(\"HP\", value=None)", "C10.R3"),
    ("linked-read-without-pc", HT, "                    alignment.set_tag(\"HP\", haplotype + 1)\n                    alignment.set_tag(\"PC\", value=None)\n                    alignment.set_tag(\"PS\", phaseset)\n                    is_tagged = 1\n                    break", "                    alignment.set_tag(\"HP\", haplotype + 1)\n                    alignment.set_tag(\"PS\", phaseset)\n                    is_tagged = 1\n                    break", "C10.R3"),
    ("ties-tagged", HT, "            if quality == 0:\n                continue\n", "", "C10.R4"),
    ("ascending-sort", HT, "            scores_list.sort(key=lambda t: t[1], reverse=True)", "            scores_list.sort(key=lambda t: t[1])", "C10.R4"),
    ("hp-zero-based", HT, '        alignment.set_tag("HP", haplotype + 1)\n        alignment.set_tag("PC", quality)', '        alignment.set_tag("HP", haplotype)\n        alignment.set_tag("PC", quality)', "C10.R4"),
    ("tuple-layout-swapped", HT, "                read_to_haplotype[r.name] = (first_ht, quality, phaseset)", "                read_to_haplotype[r.name] = (first_ht, phaseset, quality)", "C10.R4"),
    ("score-on-disagreement", HT, "                        if v.allele == hap_allele:\n                            haplotype_costs[phaseset][hap_index] += v.quality", "                        if v.allele != hap_allele:\n                            haplotype_costs[phaseset][hap_index] += v.quality", "C10.R4"),
    # benign
    ("b-debug-before-write", HT, "                    bam_writer.write(alignment)\n                    if haplotag_writer is not None and not (", "                    logger.debug(\"writing %s\", alignment.query_name)\n                    bam_writer.write(alignment)\n                    if haplotag_writer is not None and not (", "silent"),
    ("b-inverted-tie-test", HT, "            if quality == 0:\n                continue\n", "            if not quality != 0:\n                continue\n", "silent"),
]

# ------------------------------------------------------------------------------------------ C11
CMP = "whatshap/cli/compare.py"
VARIANTS["C11"] = [
    ("orientation-on-lists", CMP, "if hamming(phasing0[0], phasing1[0]) < hamming(phasing0[0], complement(phasing1[0])):", "if hamming(phasing0, phasing1) < hamming(phasing0[0], complement(phasing1[0])):", "C11.R1"),
    ("orientation-other-haplotype", CMP, "if hamming(phasing0[0], phasing1[0]) < hamming(phasing0[0], complement(phasing1[0])):", "if hamming(phasing0[0], phasing1[0]) < hamming(phasing0[1], complement(phasing1[0])):", "C11.R2"),
    ("orientation-branches-swapped", CMP, "                    longest_block_agreement = [\n                        1 * (p0 == p1) for p0, p1 in zip(phasing0[0], phasing1[0])\n                    ]\n                else:\n                    longest_block_agreement = [\n                        1 * (p0 != p1) for p0, p1 in zip(phasing0[0], phasing1[0])\n                    ]", "                    longest_block_agreement = [\n                        1 * (p0 != p1) for p0, p1 in zip(phasing0[0], phasing1[0])\n                    ]\n                else:\n                    longest_block_agreement = [\n                        1 * (p0 == p1) for p0, p1 in zip(phasing0[0], phasing1[0])\n                    ]", "C11.R2"),
    ("bed-on-lists", CMP, "bed_records.extend(bed_creator.records(phasing0[0], phasing1[0], block_positions))", "bed_records.extend(bed_creator.records(phasing0, phasing1, block_positions))", "C11.R1"),
    ("last-run-not-flushed", CMP, "        if (i + 1 == len(s0)) or (p0 == p1):", "        if p0 == p1:", "C11.R3"),
    ("flips-and-switches-swapped", CMP, "            result.flips += switches_in_a_row // 2\n            result.switches += switches_in_a_row % 2", "            result.flips += switches_in_a_row % 2\n            result.switches += switches_in_a_row // 2", "C11.R3"),
    ("run-not-reset", CMP, "            result.switches += switches_in_a_row % 2\n            switches_in_a_row = 0", "            result.switches += switches_in_a_row % 2", "C11.R3"),
    ("decomposition-other-haplotype", CMP, "switch_flips = compute_switch_flips(phasing0[0], phasing1[0])", "switch_flips = compute_switch_flips(phasing0[0], phasing1[1])", "C11.R3"),
    ("partial-phase-enters-block", CMP, "            if phase is None or any(p is None for p in phase.phase):", "            if phase is None:", "C11.R4"),
    ("intersection-ignores-missing", CMP, "        if not any_none:\n            joint_block_id = tuple(", "        if True:\n            joint_block_id = tuple(", "C11.R4"),
    # benign
    ("b-orientation-flipped-test", CMP, "if hamming(phasing0[0], phasing1[0]) < hamming(phasing0[0], complement(phasing1[0])):", "if hamming(phasing0[0], complement(phasing1[0])) > hamming(phasing0[0], phasing1[0]):", "silent"),
    ("b-orientation-as-threshold", CMP, "if hamming(phasing0[0], phasing1[0]) < hamming(phasing0[0], complement(phasing1[0])):", "if 2 * hamming(phasing0[0], phasing1[0]) < len(block):", "silent"),
    ("orientation-threshold-off-by-one", CMP, "if hamming(phasing0[0], phasing1[0]) < hamming(phasing0[0], complement(phasing1[0])):", "if 2 * hamming(phasing0[0], phasing1[0]) < len(block) - 1:", "C11.R2"),
    ("b-rename-counter", CMP, "    switches_in_a_row = 0\n    for i, (p0, p1) in enumerate(zip(s0, s1)):\n        if p0 != p1:\n            switches_in_a_row += 1\n        if (i + 1 == len(s0)) or (p0 == p1):\n            result.flips += switches_in_a_row // 2\n            result.switches += switches_in_a_row % 2\n            switches_in_a_row = 0", "    run = 0\n    for i, (p0, p1) in enumerate(zip(s0, s1)):\n        if p0 != p1:\n            run += 1\n        if (p0 == p1) or (i == len(s0) - 1):\n            result.flips += run // 2\n            result.switches += run % 2\n            run = 0", "silent"),
]

# ------------------------------------------------------------------------------------------ C12
ST = "whatshap/cli/stats.py"
VARIANTS["C12"] = [
    ("missing-counted-het", ST, "        if genotype.is_none() or genotype.is_homozygous():\n            continue", "        if genotype.is_homozygous():\n            continue", "C12.R1"),
    ("new-unguarded-hom-test", "whatshap/cli/haplotagphase.py", "                    phased[variant.position] = phase", "                    phased[variant.position] = phase if not genotype.is_homozygous() else None", "C12.R1"),
    ("unphased-also-in-block", ST, "        if phase is None:\n            stats.add_unphased()\n            continue", "        if phase is None:\n            stats.add_unphased()\n            continue\n        if phase.quality is None:\n            stats.add_unphased()", "C12.R2"),
    ("het-snv-skips-bucket", ST, "        if variant.is_snv():\n            stats.add_heterozygous_snvs(1)\n", "        if variant.is_snv():\n            stats.add_heterozygous_snvs(1)\n        elif phase is not None:\n            continue\n", "C12.R2"),
    ("variant-count-after-filter", ST, "        stats.add_variants(1)\n        if genotype.is_none() or genotype.is_homozygous():\n            continue", "        if genotype.is_none() or genotype.is_homozygous():\n            continue\n        stats.add_variants(1)", "C12.R2"),
    ("singletons-include-empty", ST, "n_singletons = sum(1 for block in self.blocks if len(block) == 1)", "n_singletons = sum(1 for block in self.blocks if len(block) <= 2)", "C12.R2"),
    ("phased-counts-blocks", ST, "                phased=sum(block_sizes),\n                unphased=self.unphased,", "                phased=len(block_sizes),\n                unphased=self.unphased,", "C12.R2"),
    ("iadd-forgets-snvs", ST, "        self.heterozygous_snvs += other.heterozygous_snvs\n", "", "C12.R3"),
    ("iadd-wrong-field", ST, "        self.unphased += other.unphased\n", "        self.unphased += other.variants\n", "C12.R3"),
    ("total-skipped-for-last", ST, "            total_stats += stats\n\n            if given_chromosomes and set(given_chromosomes) <= seen_chromosomes:\n                break", "            if given_chromosomes and set(given_chromosomes) <= seen_chromosomes:\n                break\n\n            total_stats += stats", "C12.R3"),
    ("block-list-zero-based", ST, "            blocks[block_id].leftmost_variant.position + 1,", "            blocks[block_id].leftmost_variant.position,", "C12.R4"),
    ("block-extent-not-min", ST, "            if variant < self.leftmost_variant:\n                self.leftmost_variant = variant", "            if self.leftmost_variant < variant:\n                self.leftmost_variant = variant", "C12.R4"),
    # benign
    ("b-split-condition", ST, "        if genotype.is_none() or genotype.is_homozygous():\n            continue", "        if genotype.is_none():\n            continue\n        if genotype.is_homozygous():\n            continue", "silent"),
    ("b-singleton-pred", ST, "n_singletons = sum(1 for block in self.blocks if len(block) == 1)", "n_singletons = sum(1 for block in self.blocks if 1 == len(block))", "silent"),
]

# ------------------------------------------------------------------------------------------ C13
UP = "whatshap/cli/unphase.py"
VARIANTS["C13"] = [
    ("gt-membership-dropped", UP, '                if "GT" not in call:\n                    continue\n', "", "C13.R1"),
    ("fixed-ploidy-index", UP, "                if gt is not None and all(allele is not None for allele in gt):", "                if gt is not None and gt[0] is not None and gt[1] is not None:", "C13.R1"),
    ("none-check-dropped", UP, "                if gt is not None and all(allele is not None for allele in gt):", "                if gt is not None:", "C13.R1"),
    ("pq-kept", UP, 'TAGS_TO_REMOVE = frozenset(("HP", "PQ", "PS"))', 'TAGS_TO_REMOVE = frozenset(("HP", "PS"))', "C13.R2"),
    ("format-removed-only-if-phased", UP, "            for tag in TAGS_TO_REMOVE:\n                if tag in record.format:\n                    del record.format[tag]", "            if any(call.phased for call in record.samples.values()):\n                for tag in TAGS_TO_REMOVE:\n                    if tag in record.format:\n                        del record.format[tag]", "C13.R2"),
    ("flag-cleared-only-when-sorted", UP, "                    call[\"GT\"] = sorted(gt)\n                call.phased = False", "                    call[\"GT\"] = sorted(gt)\n                    call.phased = False", "C13.R2"),
    ("qual-cleared", UP, "            writer.write(record)", "            record.qual = None\n            writer.write(record)", "C13.R3"),
    ("gt-deduplicated", UP, '                    call["GT"] = sorted(gt)', '                    call["GT"] = sorted(set(gt))', "C13.R3"),
    ("records-without-samples-dropped", UP, "            writer.write(record)", "            if len(record.samples) > 0:\n                writer.write(record)", "C13.R4"),
    ("stops-at-first-unphased", UP, "        for record in reader:\n", "        for record in reader:\n            if not record.format:\n                break\n", "C13.R4"),
    ("contig-not-declared", UP, "                writer.header.contigs.add(record.contig)\n", "                pass\n", "C13.R5"),
    ("contig-declared-to-the-reader", UP, "                writer.header.contigs.add(record.contig)\n", "                reader.header.contigs.add(record.contig)\n", "C13.R5"),
    ("contig-declared-only-for-phased-records", UP, "            if record.contig not in writer.header.contigs:", "            if record.contig not in writer.header.contigs and any(call.phased for call in record.samples.values()):", "C13.R5"),
    ("augmenter-header-not-repaired", VCF, "        augment_header(self._reader.header, contigs, formats, infos)\n", "", "C13.R5"),
    ("b-contig-declared-via-chrom", UP, "            if record.contig not in writer.header.contigs:", "            if record.chrom not in writer.header.contigs:", "silent"),
    # benign
    ("b-guard-as-positive-if", UP, '                if "GT" not in call:\n                    continue\n                gt = call["GT"]\n                if gt is not None and all(allele is not None for allele in gt):\n                    call["GT"] = sorted(gt)\n                call.phased = False', '                if "GT" in call:\n                    gt = call["GT"]\n                    if gt is not None and not any(allele is None for allele in gt):\n                        call["GT"] = sorted(gt)\n                    call.phased = False', "silent"),
    ("b-rename-record", UP, "        for record in reader:\n            for tag in TAGS_TO_REMOVE:\n                if tag in record.format:\n                    del record.format[tag]", "        for record in reader:\n            for key in TAGS_TO_REMOVE:\n                if key in record.format:\n                    del record.format[key]", "silent"),
]

# ------------------------------------------------------------------------------------------ C14
SP = "whatshap/cli/split.py"
VARIANTS["C14"] = [
    ("early-break-returns", SP, "            if read_haplotype == 0 and add_untagged:", "            if discard_unknown_reads and read_counter[\"total_reads\"] > len(known_reads):\n                break\n            if read_haplotype == 0 and add_untagged:", "C14.R1"),
    ("record-modified", SP, "            output_writers[read_haplotype].write(record)", "            record = record if not isinstance(record, str) else record.upper()\n            output_writers[read_haplotype].write(record)", "C14.R1"),
    ("zero-length-skipped", SP, "            read_haplotype = readname_to_haplotype[read_name]", "            if read_length == 0:\n                continue\n            read_haplotype = readname_to_haplotype[read_name]", "C14.R1"),
    ("bam-iterator-drops-unknown-length", SP, "            else:\n                yield record.query_name, 0, record", "            else:\n                pass", "C14.R1"),
    ("index-from-other-map", SP, "            read_haplotype = readname_to_haplotype[read_name]", "            read_haplotype = readname_to_haplotype[read_name] if read_name in known_reads or not discard_unknown_reads else 1", "C14.R2"),
    ("outputs-order", SP, "        outputs = [output_untagged, output_h1, output_h2]", "        outputs = [output_untagged, output_h2, output_h1]", "C14.R2"),
    ("none-maps-to-1", SP, '    haplotype_to_int["none"] = 0', '    haplotype_to_int["none"] = 1', "C14.R2"),
    ("haplotypes-zero-based", SP, '    haplotype_to_int = {f"H{i}": i for i in range(1, ploidy + 1)}', '    haplotype_to_int = {f"H{i + 1}": i for i in range(1, ploidy + 1)}', "C14.R2"),
    ("plain-dict", SP, "    readname_to_haplotype = defaultdict(int)\n", "    readname_to_haplotype = defaultdict(lambda: 1)\n", "C14.R2"),
    ("add-untagged-misses-first", SP, "                for haplotype, writer in enumerate(output_writers[1:], start=1):", "                for haplotype, writer in enumerate(output_writers[2:], start=1):", "C14.R2"),
    ("histogram-not-counted", SP, "                    writer.write(record)\n                    histogram_data[haplotype][read_length] += 1", "                    writer.write(record)", "C14.R3"),
    ("histogram-wrong-column", SP, "                for haplotype, writer in enumerate(output_writers[1:], start=1):", "                for haplotype, writer in enumerate(output_writers[1:]):", "C14.R3"),
    ("histogram-duplicate-rows", SP, "all_read_lengths = sorted(set(itertools.chain(*(lc.keys() for lc in length_counts))))", "all_read_lengths = sorted(itertools.chain(*(lc.keys() for lc in length_counts)))", "C14.R4"),
    # benign
    ("b-counter-rename", SP, '            read_counter["total_reads"] += 1\n            if discard_unknown_reads and read_name not in known_reads:', '            read_counter["total_reads"] += 1\n            if discard_unknown_reads and not read_name in known_reads:', "silent"),
    ("b-dedup-via-union", SP, "all_read_lengths = sorted(set(itertools.chain(*(lc.keys() for lc in length_counts))))", "all_read_lengths = sorted(set().union(*(lc.keys() for lc in length_counts)))", "silent"),
]

# ------------------------------------------------------------------------------------------ C15
PPF = "whatshap/cli/polyphase.py"
VARIANTS["C15"] = [
    ("homozygous-kept", PPF, "                        elif not gt.is_homozygous():\n                            heterozygous.add(index)\n                        else:\n                            assert gt.is_homozygous()", "                        else:\n                            heterozygous.add(index)", "C15.R1"),
    ("discard-only-missing", PPF, "to_discard = set(range(len(variant_table))).difference(heterozygous)", "to_discard = missing_genotypes", "C15.R1"),
    ("force-only-when-distrusted", "whatshap/polyphase/threading.py", "    if not distrust_genotypes:\n        haplotypes = force_genotypes(", "    if distrust_genotypes:\n        haplotypes = force_genotypes(", "C15.R2"),
    ("force-result-dropped", "whatshap/polyphase/threading.py", "        haplotypes = force_genotypes(\n            paths, haplotypes, genotypes, cov_map, allele_depths, error_rate\n        )", "        force_genotypes(paths, [h[:] for h in haplotypes], genotypes, cov_map, allele_depths, error_rate)", "C15.R2"),
    ("wrong-genotype-slice", "whatshap/polyphase/algorithm.py", "                    block_id, submatrix, genotype_list[start:end], subphasing, param, timers, quiet", "                    block_id, submatrix, genotype_list[start : end - 1], subphasing, param, timers, quiet", "C15.R2"),
    ("component-named-by-last", PPF, "components[accessible_pos[pos]] = accessible_pos[cuts[i]]", "components[accessible_pos[pos]] = accessible_pos[cuts[i + 1] - 1]", "C15.R3"),
    ("cuts-not-closed", PPF, "    cuts = cuts + [num_vars]\n", "    cuts = cuts + [num_vars - 1]\n", "C15.R3"),
    ("haplotypes-reversed", PPF, "            read.add_variant(accessible_pos[j], result.haplotypes[i][j], 0)", "            read.add_variant(accessible_pos[j], result.haplotypes[param.ploidy - 1 - i][j], 0)", "C15.R3"),
    ("pool-results-unsorted", "whatshap/polyphase/algorithm.py", "            results = sorted(blockwise_results, key=lambda x: x.block_id)", "            results = blockwise_results", "C15.R5"),
    # benign
    ("b-difference-operator", PPF, "to_discard = set(range(len(variant_table))).difference(heterozygous)", "to_discard = set(range(len(variant_table))) - heterozygous", "silent"),
    ("b-log", PPF, '                    logger.info("---- Processing individual %s", sample)', '                    logger.info("---- Processing individual %s (polyploid)", sample)', "silent"),
]

# ------------------------------------------------------------------------------------------ C16
VARIANTS["C16"] = [
    ("multiway-join-set", CMP, '"_".join(sorted(set(sample_names))) if ignore_sample_name', '"_".join(set(sample_names)) if ignore_sample_name', "C16.R1"),
    ("missing-infos-unsorted", VCF, "missing_infos = sorted(set(seen_infos) - set(header.info))", "missing_infos = list(set(seen_infos) - set(header.info))", "C16.R1"),
    ("haplotag-samples-unsorted", HT, "    for sample in sorted(shared_samples):", "    for sample in shared_samples:", "C16.R1"),
    ("families-unsorted-by-set", PH, "            for representative_sample, family in sorted(families.items()):", "            for representative_sample in set(families):\n                family = families[representative_sample]", "C16.R1"),
    ("header-contigs-from-set", VCF, "    missing_contigs = []\n    for contig in contigs:\n        if contig not in header_contigs:\n            missing_contigs.append(contig)", "    missing_contigs = list(set(contigs) - header_contigs)", "C16.R1"),
    ("pool-results-unsorted", "whatshap/polyphase/algorithm.py", "            results = sorted(blockwise_results, key=lambda x: x.block_id)", "            results = blockwise_results", "C16.R2"),
    ("pool-unordered-api", "whatshap/polyphase/algorithm.py", "            blockwise_results = [res.get() for res in process_results]", "            blockwise_results = list(pool.imap_unordered(lambda r: r.get(), process_results))", "C16.R2"),
    ("comparator-without-source-id", "src/readset.h", "\t\t\treturn r1->getSourceID() < r2->getSourceID();", "\t\t\treturn false;", "C16.R3"),
    ("comparator-by-address", "src/readset.h", "\t\t\treturn r1->getSourceID() < r2->getSourceID();", "\t\t\treturn r1 < r2;", "C16.R3"),
    ("positions-unsorted", "src/readset.cpp", "\tstd::sort(positions->begin(), positions->end());\n\treturn positions;", "\treturn positions;", "C16.R3"),
    ("pointer-keyed-map", "src/readset.h", "\tread_name_map_t read_name_map;", "\tread_name_map_t read_name_map;\n\tstd::unordered_map<const Read*, size_t> read_index_map;", "C16.R4"),
    # benign
    ("b-sorted-with-key", HT, "    for sample in sorted(shared_samples):", "    for sample in sorted(shared_samples, key=str):", "silent"),
    ("b-int-set-iteration", PH, "    components = {position: component_finder.find(position) for position in phased_positions_set}", "    components = {}\n    for position in phased_positions_set:\n        components[position] = component_finder.find(position)", "silent"),
    ("b-membership-only-set", CMP, "    sorted_variants = sorted(common_variants, key=lambda v: v.position)", "    sorted_variants = sorted(common_variants, key=lambda v: v.position)\n    names_seen = set(sample_names)\n    assert all(name in names_seen for name in sample_names)", "silent"),
]

# ------------------------------------------------------------------------------------------ C17
HPH = "whatshap/cli/haplotagphase.py"
VARIANTS["C17"] = [
    ("ps-not-shifted-back", HPH, "        ps, ht = read.PS_tag - 1, read.HP_tag - 1", "        ps, ht = read.PS_tag, read.HP_tag - 1", "C17.R1"),
    ("ps-tag-written-shifted", HT, '        alignment.set_tag("PS", phaseset)\n        is_tagged = 1\n    except KeyError:', '        alignment.set_tag("PS", phaseset + 1)\n        is_tagged = 1\n    except KeyError:', "C17.R1"),
    ("carried-ps-off-by-one", HPH, "        components[pos] = int(phase.block_id) - 1", "        components[pos] = int(phase.block_id)", "C17.R1"),
    ("untagged-default-zero", "whatshap/variants.py", '            ps = get_tag_or_default(alignment, "PS", -1)', '            ps = get_tag_or_default(alignment, "PS", 0)', "C17.R1"),
    ("vote-key-ignores-haplotype", HPH, "                (ps, ht ^ allele_to_id[variant.position][variant.allele])", "                (ps, allele_to_id[variant.position][variant.allele])", "C17.R2"),
    ("winner-to-second-haplotype", HPH, "        super_reads[0].append(Variant(pos, allele=id_to_allele[pos][best_allele], quality=score))\n        super_reads[1].append(\n            Variant(pos, allele=id_to_allele[pos][1 - best_allele], quality=score)\n        )", "        super_reads[1].append(Variant(pos, allele=id_to_allele[pos][best_allele], quality=score))\n        super_reads[0].append(\n            Variant(pos, allele=id_to_allele[pos][1 - best_allele], quality=score)\n        )", "C17.R2"),
    ("best-candidate-minimum", HPH, "    lst.sort(key=lambda x: x[-1], reverse=True)", "    lst.sort(key=lambda x: x[-1])", "C17.R2"),
    ("carried-alleles-swapped", HPH, "        super_reads[0].append(Variant(pos, allele=phase.phase[0], quality=quality))\n        super_reads[1].append(Variant(pos, allele=phase.phase[1], quality=quality))", "        super_reads[0].append(Variant(pos, allele=phase.phase[1], quality=quality))\n        super_reads[1].append(Variant(pos, allele=phase.phase[0], quality=quality))", "C17.R3"),
    ("carried-only-with-votes", HPH, "        if phase is None or len(phase.phase) != 2 or None in phase.phase:\n            continue", "        if phase is None or len(phase.phase) != 2 or None in phase.phase or pos not in votes:\n            continue", "C17.R3"),
    ("votes-override-input", HPH, "        if pos in components:\n            continue\n        best_allele, phase_set, fraction, score = best_candidate(vote)", "        best_allele, phase_set, fraction, score = best_candidate(vote)", "C17.R3"),
    # benign
    ("b-unpack-separately", HPH, "        ps, ht = read.PS_tag - 1, read.HP_tag - 1", "        ps, ht = (read.PS_tag - 1), (read.HP_tag - 1)", "silent"),
    ("b-log", HPH, '                logger.info(f"Number of homozygous variants is {homozygous_number}")', '                logger.info(f"Number of homozygous variants: {homozygous_number}")', "silent"),
]

# ------------------------------------------------------------------------------------------ C18
PQF = "whatshap/priorityqueue.pyx"
VARIANTS["C18"] = [
    ("getter-repairs-position", PQF, T * 2 + "cdef queue_entry_type entry = self.heap[self.positions[item]]\n" + T * 2 + "return entry.first", T * 2 + "self.positions[item] = self.positions[item]\n" + T * 2 + "cdef queue_entry_type entry = self.heap[self.positions[item]]\n" + T * 2 + "return entry.first", "C18.R1"),
    ("pop-keeps-position-single", PQF, T * 2 + "if self.heap.size() == 1:\n" + T * 3 + "self.positions.erase(first_entry.second)\n", T * 2 + "if self.heap.size() == 1:\n", "C18.R2"),
    ("pop-last-not-repointed", PQF, T * 3 + "self.positions[last_entry.second]= 0\n", "", "C18.R2"),
    ("push-position-after-size", PQF, T * 2 + "self.heap.push_back(entry)\n" + T * 2 + "self.positions[item] = newindex", T * 2 + "self.heap.push_back(entry)\n" + T * 2 + "self.positions[item] = self.heap.size()", "C18.R2"),
    ("swap-one-position-only", PQF, T * 2 + "self.positions[entry1.second] = pos2\n" + T * 2 + "self.positions[entry2.second] = pos1", T * 2 + "self.positions[entry1.second] = pos2", "C18.R2"),
    ("push-without-sift", PQF, T * 2 + "self.positions[item] = newindex\n" + T * 2 + "self._sift_up(newindex)", T * 2 + "self.positions[item] = newindex", "C18.R3"),
    ("pop-sifts-before-bookkeeping", PQF, T * 3 + "self.positions[last_entry.second]= 0\n" + T * 3 + "self.positions.erase(first_entry.second)\n\n" + T * 3 + "self._sift_down(0)", T * 3 + "self._sift_down(0)\n" + T * 3 + "self.positions[last_entry.second]= 0\n" + T * 3 + "self.positions.erase(first_entry.second)", "C18.R3"),
    ("change-score-direction", PQF, T * 2 + "if _vector_score_lower(c_old_score, c_new_score):\n" + T * 3 + "self._sift_up(position)\n" + T * 2 + "else:\n" + T * 3 + "self._sift_down(position)", T * 2 + "if _vector_score_lower(c_old_score, c_new_score):\n" + T * 3 + "self._sift_down(position)\n" + T * 2 + "else:\n" + T * 3 + "self._sift_up(position)", "C18.R3"),
    ("sift-down-smaller-child", PQF, T * 3 + "if self._score_lower(lchildindex, rchildindex):\n" + T * 4 + "if self._score_lower(index, rchildindex):", T * 3 + "if self._score_lower(rchildindex, lchildindex):\n" + T * 4 + "if self._score_lower(index, rchildindex):", "C18.R3"),
    ("left-child-formula", PQF, "return (2 * index) + 1", "return (2 * index)", "C18.R3"),
    ("shorter-vector-not-lower", PQF, T + "if first[0].size() < second[0].size(): \n" + T * 2 + "return True", T + "if first[0].size() > second[0].size(): \n" + T * 2 + "return True", "C18.R3"),
    ("merge-flipped-comparison", "whatshap/graph.py", "if x_root.value < y_root.value:", "if x_root.value > y_root.value:", "C18.R4"),
    # benign
    ("b-comment", PQF, T * 2 + "self.positions[item] = newindex\n" + T * 2 + "self._sift_up(newindex)", T * 2 + "self.positions[item] = newindex\n" + T * 2 + "# restore heap order\n" + T * 2 + "self._sift_up(newindex)", "silent"),
]

# ------------------------------------------------------------------------------------------ C20
VARIANTS["C20"] = [
    ("gtchange-reopened-per-chromosome", PH, "            if gtchange_list_file:\n                logger.info(\"Writing list of changed genotypes to %r\", gtchange_list_filename)\n                write_changed_genotypes(gtchange_list_file, changed_genotypes)", "            if gtchange_list_file:\n                logger.info(\"Writing list of changed genotypes to %r\", gtchange_list_filename)\n                with open(gtchange_list_filename, \"w\") as f:\n                    write_changed_genotypes(f, changed_genotypes)", "C20.R1"),
    ("recombination-helper-opens", PH, "    n = 0\n    for trio in trios:\n        recombination_events = find_recombination(", "    n = 0\n    f = open(f.name, \"w\")\n    for trio in trios:\n        recombination_events = find_recombination(", "C20.R1"),
    ("read-list-opened-in-family-loop", PH, "                if read_list:\n                    read_list.write(", "                if read_list_filename:\n                    read_list = stack.enter_context(ReadList(read_list_filename))\n                if read_list:\n                    read_list.write(", "C20.R1"),
    ("read-list-other-reads", PH, "                    read_list.write(\n                        all_reads,", "                    read_list.write(\n                        merged_reads,", "C20.R2"),
    ("read-list-only-single-samples", PH, "                if read_list:\n                    read_list.write(", "                if read_list and len(family) == 1:\n                    read_list.write(", "C20.R2"),
    ("read-list-last-variant-ps", PH, "            phaseset = components[read[0].position] + 1", "            phaseset = components[read[-1].position] + 1", "C20.R2"),
    ("read-list-zero-based-ps", PH, "            phaseset = components[read[0].position] + 1", "            phaseset = components[read[0].position]", "C20.R2"),
    ("gtchange-position-zero-based", PH, "            changed_genotype.variant.position + 1,", "            changed_genotype.variant.position,", "C20.R3"),
    ("gtchange-not-recorded", VCF, "                    genotype_changes.append(\n                        GenotypeChange(sample, chromosome, variant, gt_type, genotypes[pos])\n                    )\n", "", "C20.R3"),
    ("gtchange-recorded-without-change", VCF, "                if pos in genotypes and genotypes[pos] != gt_type:", "                if pos in genotypes:", "C20.R3"),
    ("gtchange-list-skipped-on-empty", PH, "            if gtchange_list_file:\n                logger.info(\"Writing list of changed genotypes to %r\", gtchange_list_filename)", "            if gtchange_list_file and chromosome != \"chrM\":\n                logger.info(\"Writing list of changed genotypes to %r\", gtchange_list_filename)", "C20.R3"),
    ("recombination-across-blocks", "whatshap/pedigree.py", "                        block[i - 1],\n                        block[i],", "                        block[i - 2],\n                        block[i],", "C20.R4"),
    ("recombination-zero-based", PH, "                e.position1 + 1,", "                e.position1,", "C20.R4"),
    # benign
    ("b-open-wt", PH, 'gtchange_list_file = stack.enter_context(open(gtchange_list_filename, "w"))', 'gtchange_list_file = stack.enter_context(open(gtchange_list_filename, "wt"))', "silent"),
    ("b-open-per-sample-file", PH, "                    readsets[sample] = selected_reads\n", "                    readsets[sample] = selected_reads\n                    if logger.isEnabledFor(logging.DEBUG) and read_list_filename:\n                        with open(f\"{read_list_filename}.{sample}.{chromosome}.debug\", \"w\") as dbg:\n                            print(len(selected_reads), file=dbg)\n", "silent"),
]

# ------------------------------------------------------------------------------------------ round 3 additions
_RO = "whatshap/polyphase/reorder.py"
_HP = "whatshap/cli/haplotagphase.py"
_PQ = "whatshap/priorityqueue.pyx"
_VAR = "whatshap/variants.py"
_RS = "whatshap/readselect.pyx"
_INIT = "whatshap/cli/__init__.py"
_PED = "whatshap/pedigree.py"

VARIANTS["C03"] += [
    ("r3-positions-from-global-slice", PH, "            positions = [\n                variant.position for variant in read if variant.position in phased_positions_set\n            ]", "            positions = list(phased_positions)", "C03.R2"),
]
VARIANTS["C04"] += [
    ("r3-removal-after-alt-skip", VCF, "            self._remove_existing_phasing(record, list(sample_superreads))\n            pos = record.start\n            if not record.alts:\n                continue\n", "            pos = record.start\n            if not record.alts:\n                continue\n            self._remove_existing_phasing(record, list(sample_superreads))\n", "C04.R4"),
    ("b-r3-removal-after-pos", VCF, "            self._remove_existing_phasing(record, list(sample_superreads))\n            pos = record.start\n", "            pos = record.start\n            self._remove_existing_phasing(record, list(sample_superreads))\n", "silent"),
]
VARIANTS["C05"] += [
    ("b-r3-find-inside-merge-loop-unused", PH, "                family_finder.merge(trio.mother, trio.child)\n    else:", "                family_finder.merge(trio.mother, trio.child)\n            logger.debug(\"family of %s: %s\", trio.child, family_finder.find(trio.child))\n    else:", "silent"),
    ("b-r3-early-find-unused", PH, "    family_finder = ComponentFinder(samples)\n    if ped_path is not None:", "    family_finder = ComponentFinder(samples)\n    early = {sample: family_finder.find(sample) for sample in samples}\n    if ped_path is not None:", "silent"),
]
VARIANTS["C06"] += [
    ("r3-cursor-skips-start-noref", _VAR, "                    and valid_positions[i] < alignment.bam_alignment.reference_start", "                    and valid_positions[i] <= alignment.bam_alignment.reference_start", "C06.R8"),
    ("b-r3-cursor-flipped-operands", _VAR, "                    and normalized_variants[i].position < alignment.bam_alignment.reference_start", "                    and alignment.bam_alignment.reference_start > normalized_variants[i].position", "silent"),
]
VARIANTS["C07"] += [
    ("r3-selection-gets-all-preferred", _RS, "\t\tselected_reads.update(selected_preferred_reads)", "\t\tselected_reads.update(preferred_reads)", "C07.R4"),
    ("b-r3-selection-ior", _RS, "\t\tselected_reads.update(selected_preferred_reads)", "\t\tselected_reads |= selected_preferred_reads", "silent"),
]
VARIANTS["C09"] += [
    ("r3-phase-table-popped", _INIT, "                    variant_table = vcf[chromosome]", "                    variant_table = vcf.pop(chromosome)", "C09.R4"),
    ("r3-phase-table-deleted-after-use", _INIT, "                        readset.add(read)\n\n        # TODO is this necessary?", "                        readset.add(read)\n                    del vcf[chromosome]\n\n        # TODO is this necessary?", "C09.R4"),
    ("b-r3-phase-table-get", _INIT, "                    variant_table = vcf[chromosome]", "                    variant_table = vcf.get(chromosome)", "silent"),
]
VARIANTS["C10"] += [
    ("r3-ignore-read-secondary-only", HT, "    if alignment.is_unmapped or alignment.is_secondary:\n        # unmapped", "    if alignment.is_secondary:\n        # unmapped", "C10.R3"),
    ("r3-ignore-read-supplementary-always-kept", HT, "    elif alignment.is_supplementary:\n        # tag_supplementary is False, so discard\n        ignore = True", "    elif alignment.is_supplementary:\n        # tag_supplementary is False, so discard\n        ignore = False", "C10.R3"),
    ("b-r3-ignore-read-one-expression", HT, "    if alignment.is_unmapped or alignment.is_secondary:\n        # unmapped or secondary alignments are never tagged\n        ignore = True\n    elif tag_supplementary and alignment.is_supplementary:\n        # from the previous if, we know\n        # the alignment to be primary\n        ignore = False\n    elif alignment.is_supplementary:\n        # tag_supplementary is False, so discard\n        ignore = True\n    else:\n        # whatever is left should be good\n        ignore = False\n    return ignore", "    return alignment.is_unmapped or alignment.is_secondary or (alignment.is_supplementary and not tag_supplementary)", "silent"),
    ("r3-result-per-sample", HT, "    read_to_haplotype = {}\n\n    for sample in sorted(shared_samples):\n", "\n    for sample in sorted(shared_samples):\n        read_to_haplotype = {}\n", "C10.R4"),
    ("b-r3-result-init-reordered", HT, "    n_multiple_phase_sets = 0\n    BX_tag_to_haplotype = defaultdict(list)\n    # maps read name to (haplotype, quality, phaseset)\n    read_to_haplotype = {}\n", "    read_to_haplotype = {}\n    n_multiple_phase_sets = 0\n    BX_tag_to_haplotype = defaultdict(list)\n", "silent"),
]
VARIANTS["C11"] += [
    ("r3-bed-records-hoisted", CMP, "            print(f\"---------------- Chromosome {chromosome} ----------------\")\n            all_bed_records = []\n", "            print(f\"---------------- Chromosome {chromosome} ----------------\")\n", "C11.R5"),
    ("b-r3-bed-records-init-later", CMP, "            all_bed_records = []\n            variant_tables = [vcf[chromosome] for vcf in vcfs]\n", "            variant_tables = [vcf[chromosome] for vcf in vcfs]\n            all_bed_records = []\n", "silent"),
]
VARIANTS["C12"] += [
    ("r3-phased-snvs-over-split-blocks", ST, "        phased_snvs = sum(block.count_snvs() for block in self.blocks if len(block) > 1)", "        phased_snvs = sum(block.count_snvs() for block in self.split_blocks if len(block) > 1)", "C12.R2"),
    ("r3-phased-snvs-includes-singletons", ST, "        phased_snvs = sum(block.count_snvs() for block in self.blocks if len(block) > 1)", "        phased_snvs = sum(block.count_snvs() for block in self.blocks)", "C12.R2"),
    ("b-r3-phased-snvs-list-comp", ST, "        phased_snvs = sum(block.count_snvs() for block in self.blocks if len(block) > 1)", "        phased_snvs = sum([b.count_snvs() for b in self.blocks if len(b) > 1])", "silent"),
    ("r3-gtf-id-truthiness", ST, "            if prev_block.id is None:\n", "            if not prev_block.id:\n", "C12.R4"),
    ("r3-gtf-final-flush-truthiness", ST, "    if gtfwriter and prev_block.id is not None:", "    if gtfwriter and prev_block.id:", "C12.R4"),
]
VARIANTS["C15"] += [
    ("r3-shallow-haplotype-snapshot", _RO, "    haplotypes_copy = deepcopy(haplotypes)", "    haplotypes_copy = haplotypes[:]", "C15.R6"),
    ("r3-no-thread-snapshot", _RO, "    threads_copy = deepcopy(threads)", "    threads_copy = threads", "C15.R6"),
    ("b-r3-two-level-snapshot", _RO, "    haplotypes_copy = deepcopy(haplotypes)", "    haplotypes_copy = [h[:] for h in haplotypes]", "silent"),
    ("r3-conditional-write-back", _RO, "                haplotypes[hap][pos] = res.haplotypes[j][i]", "                if res.haplotypes[j][i] >= 0:\n                    haplotypes[hap][pos] = res.haplotypes[j][i]", "C15.R6"),
    ("r3-write-back-transposed", _RO, "                haplotypes[hap][pos] = res.haplotypes[j][i]", "                haplotypes[hap][pos] = res.haplotypes[i][j]", "C15.R6"),
]
VARIANTS["C17"] += [
    ("r3-components-renumbered", _HP, "    for read in super_reads:\n        read.sort(key=lambda x: x.position)\n    return super_reads, components", "    for read in super_reads:\n        read.sort(key=lambda x: x.position)\n    components = {pos: min(components) for pos in components}\n    return super_reads, components", "C17.R3"),
    ("b-r3-components-literal", _HP, "    super_reads = [[], []]\n    components = dict()", "    super_reads = [[], []]\n    components = {}", "silent"),
]
VARIANTS["C18"] += [
    ("r3-sift-down-ignores-ties", _PQ, "\t\t\telse:\n\t\t\t\tif self._score_lower(index, lchildindex):", "\t\t\telif self._score_lower(rchildindex, lchildindex):\n\t\t\t\tif self._score_lower(index, lchildindex):", "C18.R3"),
    ("b-r3-sift-down-explicit-else", _PQ, "\t\t\telse:\n\t\t\t\tif self._score_lower(index, lchildindex):", "\t\t\telif not self._score_lower(lchildindex, rchildindex):\n\t\t\t\tif self._score_lower(index, lchildindex):", "silent"),
]
VARIANTS["C20"] += [
    ("r3-block-loop-break", _PED, "        if len(block) <= 2:\n            continue\n        for i in range(2, len(block)):", "        if len(block) <= 2:\n            break\n        for i in range(2, len(block)):", "C20.R4"),
    ("b-r3-block-skip-lt-3", _PED, "        if len(block) <= 2:\n            continue\n        for i in range(2, len(block)):", "        if len(block) < 3:\n            continue\n        for i in range(2, len(block)):", "silent"),
]

VARIANTS["C09"] += [
    ("r4-changed-gt-descending", VCF, 'call["GT"] = tuple(sorted(genotypes[pos].as_vector()))', 'call["GT"] = tuple(genotypes[pos].as_vector())', "C09.R3"),
    ("b-r4-changed-gt-sorted-list", VCF, 'call["GT"] = tuple(sorted(genotypes[pos].as_vector()))', 'call["GT"] = sorted(genotypes[pos].as_vector())', "silent"),
]

# ------------------------------------------------------------------------------------------ round-4 rules: controls in both directions
PQX = "whatshap/priorityqueue.pyx"
VARIANTS["C03"] += [
    ("master-block-one-branch-input-genotypes", PH, "        if len(family) > 1 and genetic_haplotyping:\n            master_block = sorted(hom_in_any_sample)\n    else:\n        if len(family) > 1 and genetic_haplotyping:\n            master_block = sorted(set(homozygous_positions).intersection(accessible_positions_set))", "    if len(family) > 1 and genetic_haplotyping:\n        master_block = sorted(set(homozygous_positions).intersection(accessible_positions_set))", "C03.R4"),
    ("b-master-block-else-elif", PH, "    else:\n        if len(family) > 1 and genetic_haplotyping:\n            master_block = sorted(set(homozygous_positions).intersection(accessible_positions_set))", "    elif len(family) > 1 and genetic_haplotyping:\n        master_block = sorted(set(homozygous_positions).intersection(accessible_positions_set))", "silent"),
]
VARIANTS["C05"] += [
    ("gt-sorted-only-if-phased", VCF, '            if call["GT"] is not None and all(allele is not None for allele in call["GT"]):\n                call["GT"] = sorted(call["GT"])', '            if call.phased and call["GT"] is not None and all(allele is not None for allele in call["GT"]):\n                call["GT"] = sorted(call["GT"])', "C05.R5"),
]
VARIANTS["C06"] += [
    ("inner-skip-loop-removed", "whatshap/_variants.pyx", "        cigar_op, length = py_cigar_op, py_length  # much faster when using typed cython variables\n\n        # Skip variants that come before this region\n        while j < n:\n            var_id = var_progress[j].variant_id\n            var_pos = variants[var_id].position\n            if var_pos >= ref_pos:\n                break\n            j += 1\n", "        cigar_op, length = py_cigar_op, py_length  # much faster when using typed cython variables\n", "C06.R9"),
    ("b-inner-skip-loop-compact", "whatshap/_variants.pyx", "        cigar_op, length = py_cigar_op, py_length  # much faster when using typed cython variables\n\n        # Skip variants that come before this region\n        while j < n:\n            var_id = var_progress[j].variant_id\n            var_pos = variants[var_id].position\n            if var_pos >= ref_pos:\n                break\n            j += 1\n", "        cigar_op, length = py_cigar_op, py_length  # much faster when using typed cython variables\n\n        while j < n and variants[var_progress[j].variant_id].position < ref_pos:\n            j += 1\n", "silent"),
]
VARIANTS["C09"] += [
    ("pseudo-reads-of-the-bam-sample", "whatshap/cli/__init__.py", "                        sample, variants, source_id, sample_id\n", "                        bam_sample, variants, source_id, sample_id\n", "C09.R4"),
    ("b-sample-id-inline", "whatshap/cli/__init__.py", "                        sample, variants, source_id, sample_id\n", "                        sample, variants, source_id, self._numeric_sample_ids[sample]\n", "silent"),
]
VARIANTS["C10"] += [
    ("chromosomes-reversed", "whatshap/cli/haplotag.py", "        for chrom, regions in user_regions.items():", "        for chrom, regions in reversed(list(user_regions.items())):", "C10.R1"),
    ("references-sorted-in-normalize", "whatshap/cli/haplotag.py", "        for reference in bam_references:\n            regions[reference].append((0, None))", "        for reference in sorted(bam_references):\n            regions[reference].append((0, None))", "C10.R1"),
    ("b-chromosomes-list-copy", "whatshap/cli/haplotag.py", "        for chrom, regions in user_regions.items():", "        for chrom, regions in list(user_regions.items()):", "silent"),
]
VARIANTS["C11"] += [
    ("flips-by-xor", "src/polyphase/switchflipcalculator.cpp", "        diffCount += phase0[permutation.get(i)] != phase1[i];", "        diffCount += phase0[permutation.get(i)] ^ phase1[i];", "C11.R6"),
    ("b-flips-by-if", "src/polyphase/switchflipcalculator.cpp", "        diffCount += phase0[permutation.get(i)] != phase1[i];", "        if (phase0[permutation.get(i)] != phase1[i]) {\n            diffCount++;\n        }", "silent"),
    ("genotype-match-by-set", "whatshap/cli/compare.py", "        if Genotype([int(hap[i]) for hap in phasing0])\n        == Genotype([int(hap[i]) for hap in phasing1])", "        if set(int(hap[i]) for hap in phasing0)\n        == set(int(hap[i]) for hap in phasing1)", "C11.R6"),
    ("b-genotype-match-by-sorted", "whatshap/cli/compare.py", "        if Genotype([int(hap[i]) for hap in phasing0])\n        == Genotype([int(hap[i]) for hap in phasing1])", "        if sorted(int(hap[i]) for hap in phasing0)\n        == sorted(int(hap[i]) for hap in phasing1)", "silent"),
]
VARIANTS["C12"] += [
    ("multi-snv-any-alt", VCF, "            and all(len(alt) == 1 for alt in self.alternative_alleles)", "            and any(len(alt) == 1 for alt in self.alternative_alleles)", "C12.R6"),
    ("b-snv-reordered", VCF, "        return (self.reference_allele != self.alternative_allele) and (\n            len(self.reference_allele) == len(self.alternative_allele) == 1\n        )", "        return (\n            len(self.reference_allele) == 1\n            and len(self.alternative_allele) == 1\n            and self.reference_allele != self.alternative_allele\n        )", "silent"),
]
VARIANTS["C14"] += [
    ("header-test-inverted", "whatshap/cli/split.py", '    if not haplolist.readline().startswith("#"):\n        haplolist.seek(0)', '    if haplolist.readline().startswith("#"):\n        haplolist.seek(0)', "C14.R5"),
    ("b-first-line-in-a-local", "whatshap/cli/split.py", '    if not haplolist.readline().startswith("#"):\n        haplolist.seek(0)', '    first = haplolist.readline()\n    if not first.startswith("#"):\n        haplolist.seek(0)', "silent"),
    ("b-selected-reads-ior", "whatshap/cli/split.py", "        selected_reads = selected_reads.union(set(block_to_readnames[(chromosome, block_name)]))", "        selected_reads |= set(block_to_readnames[(chromosome, block_name)])", "silent"),
]
VARIANTS["C15"] += [
    ("shadow-coordinate-own-component", "whatshap/cli/polyphase.py", "            components[accessible_pos[pos] + 1] = accessible_pos[cuts[i]]", "            components[accessible_pos[pos] + 1] = accessible_pos[pos]", "C15.R3"),
]
VARIANTS["C16"] += [
    ("b-samples-list-copy-before-families", PH, "        families, family_trios = setup_families(samples, ped, max_coverage)", "        samples = list(samples)\n        families, family_trios = setup_families(samples, ped, max_coverage)", "silent"),
    ("samples-as-set-before-families", PH, "        families, family_trios = setup_families(samples, ped, max_coverage)", "        samples = set(samples)\n        families, family_trios = setup_families(samples, ped, max_coverage)", "C16.R1"),
]
VARIANTS["C17"] += [
    ("table-subset-before-phases", "whatshap/cli/haplotagphase.py", "            sample_to_super_reads, sample_to_components = (dict(), dict())", "            variant_table.subset_rows_by_position([v.position for v in variant_table.variants if not v.is_snv()])\n            sample_to_super_reads, sample_to_components = (dict(), dict())", "C17.R3"),
    ("b-table-only-read", "whatshap/cli/haplotagphase.py", "            sample_to_super_reads, sample_to_components = (dict(), dict())", "            logger.debug(\"%d variants\", len(variant_table.variants))\n            sample_to_super_reads, sample_to_components = (dict(), dict())", "silent"),
]
VARIANTS["C18"] += [
    ("sift-down-only-with-right-child", PQX, "\t\telse:\n\t\t\tself._sift_down(position)\n\n\t\tdel c_old_score", "\t\telif _right_child(position) < self.heap.size():\n\t\t\tself._sift_down(position)\n\n\t\tdel c_old_score", "C18.R3"),
    ("b-sift-down-explicit-elif", PQX, "\t\telse:\n\t\t\tself._sift_down(position)\n\n\t\tdel c_old_score", "\t\telif not _vector_score_lower(c_old_score, c_new_score):\n\t\t\tself._sift_down(position)\n\n\t\tdel c_old_score", "silent"),
]

# ------------------------------------------------------------------------------------------ round 6 rules
VARIANTS["C06"] += [
    ("r11-insertion-window-by-length", "whatshap/_variants.pyx", "        ref_end = ref_pos + 1 if cigar_op == 1 else ref_pos + length\n", "        ref_end = ref_pos + length\n", "C06.R11"),
    ("r11-all-windows-one-base", "whatshap/_variants.pyx", "        ref_end = ref_pos + 1 if cigar_op == 1 else ref_pos + length\n", "        ref_end = ref_pos + 1\n", "C06.R11"),
    ("b-r11-window-by-if-statement", "whatshap/_variants.pyx", "        ref_end = ref_pos + 1 if cigar_op == 1 else ref_pos + length\n", "        if cigar_op == 1:\n            ref_end = ref_pos + 1\n        else:\n            ref_end = ref_pos + length\n", "silent"),
]
VARIANTS["C15"] += [
    ("r7-sub-instances-distrust-genotypes", "whatshap/polyphase/algorithm.py", "    sub_param.threads = 1\n", "    sub_param.threads = 1\n    sub_param.distrust_genotypes = True\n", "C15.R7"),
    ("r7-sub-instances-block-cut", "whatshap/polyphase/algorithm.py", "    sub_param.threads = 1\n", "    sub_param.threads = 1\n    sub_param.block_cut_sensitivity = 0\n", "C15.R7"),
]
VARIANTS["C12"] += [
    ("r5-split-left-piece-up-to-right-bound", "whatshap/cli/stats.py", "            if variant.position < split_left:", "            if variant.position < split_right:", "C12.R5"),
    ("r5-split-right-piece-from-left-bound", "whatshap/cli/stats.py", "            elif variant.position > split_right:", "            elif variant.position > split_left:", "C12.R5"),
]
VARIANTS["C18"] += [
    ("r1-lookup-by-subscript", "whatshap/priorityqueue.pyx", "\t\tcdef unordered_map[item_type,int].iterator it = self.positions.find(item)\n\t\tif it == self.positions.end():\n\t\t\treturn NULL\n", "\t\tif self.heap.size() == 0:\n\t\t\treturn NULL\n", "C18.R1"),
]
VARIANTS["C05"] += [
    ("r7-family-skipped-when-few-positions", "whatshap/cli/phase.py", "                phasable_variant_table.subset_rows_by_position(accessible_positions)\n", "                if len(accessible_positions) < 2:\n                    continue\n                phasable_variant_table.subset_rows_by_position(accessible_positions)\n", "C05.R7"),
]
VARIANTS["C10"] += [
    ("r7-secondary-alignments-used", "whatshap/variants.py", "                    or alignment.bam_alignment.is_secondary\n", "", "C10.R7"),
    ("r7-mapq-threshold-inclusive", "whatshap/variants.py", "alignment.bam_alignment.mapping_quality < self._mapq_threshold", "alignment.bam_alignment.mapping_quality <= self._mapq_threshold", "C10.R7"),
]

VARIANTS["C06"] += [
    ("r12-deletion-overshoot-taken-from-query", "whatshap/variants.py", "                if ref_pos >= reference_bases:\n                    return (reference_bases, query_pos)\n", "                if ref_pos >= reference_bases:\n                    return (reference_bases, query_pos + reference_bases - ref_pos)\n", "C06.R12"),
    ("r12-match-overshoot-kept", "whatshap/variants.py", "                    return (reference_bases, query_pos + reference_bases - ref_pos)\n", "                    return (reference_bases, query_pos)\n", "C06.R12"),
]
VARIANTS["C16"] += [
    ("r8-stale-sample-in-result-loop", "whatshap/cli/genotype.py", "                        genotypes_list = variant_table.genotypes_of(s)\n", "                        genotypes_list = variant_table.genotypes_of(sample)\n", "C16.R8"),
]

VARIANTS["C18"] += [
    ("b-r1-lookup-guarded-by-count", "whatshap/priorityqueue.pyx", "\t\tcdef unordered_map[item_type,int].iterator it = self.positions.find(item)\n\t\tif it == self.positions.end():\n\t\t\treturn NULL\n", "\t\tif self.positions.count(item) == 0:\n\t\t\treturn NULL\n", "silent"),
]
VARIANTS["C13"] += [
    ("b-r5-contig-declared-with-inverted-test", "whatshap/cli/unphase.py", "            if record.contig not in writer.header.contigs:\n                # No ##contig line for this contig: the reader's header learns about it only\n                # while parsing, the writer's copy of the header needs to be told as well\n                writer.header.contigs.add(record.contig)\n", "            if record.contig in writer.header.contigs:\n                pass\n            else:\n                writer.header.contigs.add(record.contig)\n", "silent"),
]
VARIANTS["C10"] += [
    ("b-r6-earlier-region-test-positive-form", "whatshap/cli/haplotag.py", "                    if any(overlaps_region(alignment, s, e) for s, e in regions[:i]):\n                        # Already written when that earlier region was processed\n                        continue\n", "                    already_written = any(overlaps_region(alignment, s, e) for s, e in regions[:i])\n                    if already_written:\n                        continue\n", "silent"),
]

VARIANTS["C06"] += [
    ("b-r12-overshoot-spelled-as-difference", "whatshap/variants.py", "                    return (reference_bases, query_pos + reference_bases - ref_pos)\n", "                    overshoot = ref_pos - reference_bases\n                    return (reference_bases, query_pos - overshoot)\n", "silent"),
]
VARIANTS["C12"] += [
    ("b-r5-split-tests-right-side-first", "whatshap/cli/stats.py", "            if variant.position < split_left:\n                left_block.add(variant, phase)\n            elif variant.position > split_right:\n                right_block.add(variant, phase)\n", "            if variant.position > split_right:\n                right_block.add(variant, phase)\n            elif not variant.position >= split_left:\n                left_block.add(variant, phase)\n", "silent"),
]
