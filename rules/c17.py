"""C17 -- haplotag followed by haplotagphase reproduces the tagging phase (structural clauses)."""
import ast

from sa.model import walk_function, AnalysisError
from sa.norm import u, atoms, guard_atoms, linear
from sa import util

PROPERTY = "C17"
NEEDS_PYX = True
HT = "whatshap.cli.haplotag"
HP = "whatshap.cli.haplotagphase"

EXPLANATION = (
    "Decides: R1 offset ledger -- along VCF PS -> VariantCallPhase.block_id -> haplotag's stored phaseset -> alignment tag PS -> Read.PS_tag -> haplotagphase `PS_tag - 1` -> components[pos] -> "
    "writer `component + 1` the integer offsets sum to zero, likewise haplotype index -> HP = index + 1 -> `HP_tag - 1`; the 'untagged' sentinels agree (-1 defaults, `< 0` skip); "
    "R2 haplotype order -- votes are keyed by `haplotype xor allele id`, the winning id's allele goes to super-read 0 and its complement to super-read 1, the id tables are mutually inverse, "
    "and the writer takes the phase tuple in super-read order; R3 -- calls that are already phased in the input are carried (alleles and phase set taken from the input phase, for every such "
    "position whether or not a tagged read covers it) and are not re-derived from votes."
)
EXPLANATION += (
    " " + "R3 also: consensus()'s position -> phase set map is created once, receives only the winning vote's phase set or the input call's own block id, is never rebound, and is the map that is returned."
)
NOT_DECIDED = "Vote arithmetic, thresholds, and allele detection on the tagged reads (C06)."
ASSUMPTIONS = ["PhasedVcfWriter._remove_existing_phasing removes the input phase of every target call (C09.R2), so a call stays phased only if consensus() emits it"]


def _lin(e):
    return linear(e) if e is not None else None


def r1(ctx):
    led = []  # (hop, offset, ok, loc, text)
    # hop 1: decoder block_id = PS (+0)
    d = ctx.func("whatshap.vcf.VcfReader._extract_GT_PS_phase")
    # what the decoder returns as block id (path summaries, temporaries substituted): call.get("PS", ...) verbatim
    from sa import pathfx

    bids = []
    for ps_ in pathfx.summaries(ctx.cfg(d), value_only=True):
        for r_ in ps_.returns():
            v_ = r_[1]
            if isinstance(v_, ast.Call) and u(v_.func) == "VariantCallPhase":
                bids += [k.value for k in v_.keywords if k.arg == "block_id"]
    ok = bool(bids) and all(isinstance(b, ast.Call) and u(b.func).endswith(".get") and b.args and u(b.args[0]) == "'PS'" for b in bids)
    led.append(("vcf PS -> block_id", 0, ok, d.loc(), u(bids[0]) if bids else "?"))
    # hop 2: haplotag phase_info (+0)
    g = ctx.func(HT + ".get_variant_information")
    # what is stored per position in the returned map: (int(<phase>.block_id), <phase>.phase), by subscript store or dict comprehension
    rets_g = [n for n in walk_function(g.node) if isinstance(n, ast.Return) and isinstance(n.value, ast.Tuple) and n.value.elts]
    mapname = u(rets_g[0].value.elts[0]) if rets_g else "vpos_to_phase_info"
    stored = [util.resolve_locals(g.node, s_.value) for s_ in util.store_sites(g.node) if s_.kind == "subscript" and u(s_.target.value) == mapname and s_.value is not None]
    md = util.single_def(g.node, mapname)
    if isinstance(md, ast.DictComp):
        stored.append(md.value)
    pi = stored[0] if len(stored) == 1 else None
    ok = pi is not None and isinstance(pi, ast.Tuple) and len(pi.elts) == 2 and isinstance(pi.elts[0], ast.Call) and u(pi.elts[0].func) == "int" and len(pi.elts[0].args) == 1 and isinstance(pi.elts[0].args[0], ast.Attribute) and pi.elts[0].args[0].attr == "block_id"
    led.append(("block_id -> phase info", 0, ok, g.loc(), u(pi) if pi is not None else "?"))
    # hop 3: PS tag value (+0), HP tag value (+1)
    a = ctx.func(HT + ".attempt_add_phase_information")
    ps_off = hp_off = None
    for n in walk_function(a.node):
        if isinstance(n, ast.Call) and isinstance(n.func, ast.Attribute) and n.func.attr == "set_tag" and isinstance(n.args[0], ast.Constant):
            val = n.args[1] if len(n.args) > 1 else [k.value for k in n.keywords if k.arg == "value"][0]
            if isinstance(val, ast.Constant) and val.value is None:
                continue
            lf = _lin(val)
            if n.args[0].value == "PS" and lf is not None and set(lf) - {""} == {"phaseset"}:
                o = lf.get("", 0)
                ps_off = o if ps_off in (None, o) else "inconsistent"
            if n.args[0].value == "HP" and lf is not None and set(lf) - {""} == {"haplotype"}:
                o = lf.get("", 0)
                hp_off = o if hp_off in (None, o) else "inconsistent"
    led.append(("phaseset -> tag PS", ps_off, isinstance(ps_off, int), a.loc(), "set_tag('PS', phaseset%+d)" % ps_off if isinstance(ps_off, int) else "?"))
    # hop 4: tags -> Read (+0), sentinels
    rs = ctx.func("whatshap.variants.ReadSetReader._alignments_to_reads") if "whatshap.variants.ReadSetReader._alignments_to_reads" in ctx.prog.functions else None
    if rs is None:
        cands = [f for f in ctx.prog.funcs_in("whatshap.variants") if any(isinstance(c, ast.Call) and u(c.func) == "get_tag_or_default" for c in ast.walk(f.node))]
        ctx.require(cands, "get_tag_or_default use not found in variants.py")
        rs = [f for f in cands if f.cls is not None][0]
    reads = [c for c in ctx.prog.calls_in(rs.node) if u(c.func) == "Read" and len(c.args) >= 8]

    def tag_values(e, tag, depth=0, seen=()):
        """set of sources an expression can take its value from: {'tag', 'default:<text>'} -- None if something else"""
        if depth > 6:
            return None
        if isinstance(e, ast.Call) and u(e.func) == "int" and len(e.args) == 1:
            return tag_values(e.args[0], tag, depth + 1, seen)
        if isinstance(e, ast.Call) and isinstance(e.func, ast.Attribute) and e.func.attr == "get_tag" and e.args and u(e.args[0]) == "'%s'" % tag:
            return {"tag"}
        if isinstance(e, ast.Call) and u(e.func).endswith("get_tag_or_default") and len(e.args) == 3 and u(e.args[1]) == "'%s'" % tag:
            return {"tag", "default:" + u(e.args[2])}
        if isinstance(e, ast.Constant) or (isinstance(e, ast.UnaryOp) and isinstance(e.operand, ast.Constant)):
            return {"default:" + u(e)}
        if isinstance(e, ast.IfExp):
            a_, b_ = tag_values(e.body, tag, depth + 1, seen), tag_values(e.orelse, tag, depth + 1, seen)
            return None if a_ is None or b_ is None else a_ | b_
        if isinstance(e, ast.Name):
            if e.id in seen:
                return set()  # x = int(x): no new source
            defs = [v_ for _, v_ in util.assignments_to(rs.node, e.id)]
            defs = [(v_[1].elts[v_[2]] if isinstance(v_, tuple) and v_[0] == "unpack" and isinstance(v_[1], (ast.Tuple, ast.List)) and v_[2] < len(v_[1].elts) else v_) for v_ in defs]
            if not defs or not all(isinstance(v_, ast.AST) for v_ in defs):
                return None
            out = set()
            for v_ in defs:
                if isinstance(v_, ast.Name) and v_.id == e.id:
                    continue
                r_ = tag_values(v_, tag, depth + 1, tuple(seen) + (e.id,))
                if r_ is None:
                    return None
                out |= r_
            return out
        return None

    hv = tag_values(reads[0].args[6], "HP") if reads else None
    pv = tag_values(reads[0].args[7], "PS") if reads else None
    ok = None if (hv is None or pv is None) else (hv == {"tag", "default:-1"} and pv == {"tag", "default:-1"})
    # ... and they are this alignment's own: no path through the alignment loop reaches Read(...) with a value left from the previous one
    if reads and ok:
        rcfg = ctx.cfg(rs)
        lp_ = reads[0]
        while lp_ is not None and not isinstance(lp_, ast.For):
            lp_ = getattr(lp_, "parent", None)
        if lp_ is not None:
            for a_ in (reads[0].args[6], reads[0].args[7]):
                if isinstance(a_, ast.Name):
                    sp, nd = util.stale_path_into_use(rcfg, lp_, a_.id, rcfg.node_containing(reads[0]))
                    if sp is not None:
                        ok = False
                        ctx.ob(rs.qual, "tags-are-the-alignments-own:%s" % a_.id, False, rs.loc(reads[0]), "`%s` can reach Read(...) with the value of the previous alignment: an untagged read inherits its neighbour's haplotype / phase set and votes in haplotagphase" % a_.id, rcfg.describe_path(sp))
    led.append(("tags -> Read(HP_tag, PS_tag), default -1", 0, ok, rs.loc(), "Read(..., %s, %s): HP from %s, PS from %s" % (u(reads[0].args[6]) if reads else "?", u(reads[0].args[7]) if reads else "?", sorted(hv) if hv else "?", sorted(pv) if pv else "?")))
    # core.pyx: positional parameters 7/8 are HP_tag / PS_tag with default -1
    ci = ctx.func("whatshap.core.Read.__cinit__")
    params = util.params_of(ci.node)
    ok = params[7:9] == ["HP_tag", "PS_tag"] and [u(x) for x in ci.node.args.defaults[-2:]] == ["-1", "-1"]
    led.append(("Read.__cinit__ parameter order", 0, ok, ci.loc(), str(params[7:9])))
    # hop 5: haplotagphase reads tags (-1)
    cv = ctx.func(HP + ".compute_votes")
    ps_r = ht_r = None
    for n in walk_function(cv.node):
        if isinstance(n, ast.Assign) and isinstance(n.targets[0], ast.Tuple) and isinstance(n.value, ast.Tuple):
            for t, v in zip(n.targets[0].elts, n.value.elts):
                lf = _lin(v)
                if lf and "read.PS_tag" in lf:
                    ps_r = (u(t), lf.get("", 0))
                if lf and "read.HP_tag" in lf:
                    ht_r = (u(t), lf.get("", 0))
    led.append(("Read.PS_tag -> ps", ps_r[1] if ps_r else None, ps_r is not None, cv.loc(), "ps = PS_tag%+d" % ps_r[1] if ps_r else "?"))
    cfg = ctx.cfg(cv)
    ok = False
    if ps_r and ht_r:
        # every vote is cast under `ps >= 0 and ht >= 0`, whatever the shape of the skip (continue guard or enclosing if)
        casts = [n for n in walk_function(cv.node) if isinstance(n, ast.AugAssign) and isinstance(n.op, ast.Add) and isinstance(n.target, ast.Subscript)]
        ok = bool(casts)
        for n in casts:
            ga = guard_atoms(cfg, cfg.node_of(n))
            if not (("%s < 0" % ps_r[0], False) in ga and ("%s < 0" % ht_r[0], False) in ga):
                ok = False
    ctx.ob(cv.qual, "untagged-sentinel-skipped", ok, cv.loc(), "reads whose PS or HP is the -1 default (after the -1 shift: < 0) are skipped" if ok else "the `< 0` skip for untagged reads is missing")
    # hop 6: components[pos] = phase_set (+0) ; writer component + 1
    cs = ctx.func(HP + ".consensus")
    st = [s for s in util.store_sites(cs.node) if s.kind == "subscript" and u(s.target.value) == "components"]
    offs = []
    for s in st:
        lf = _lin(s.value)
        if lf is not None and "phase_set" in lf:
            offs.append(("votes", lf.get("", 0)))
        elif lf is not None and any("block_id" in k for k in lf):
            offs.append(("carried", lf.get("", 0)))
        elif isinstance(s.value, ast.BinOp) and "block_id" in u(s.value):
            lf2 = _lin(ast.BinOp(left=ast.Name(id="B", ctx=ast.Load()), op=s.value.op, right=s.value.right))
            offs.append(("carried", lf2.get("", 0) if lf2 else None))
    wps = ctx.func("whatshap.vcf.PhasedVcfWriter._set_PS")
    wstore = [s for s in util.store_sites(wps.node) if s.kind == "subscript" and util.const_key(s.target) == "PS"]
    woff = _lin(wstore[0].value).get("", 0) if wstore else None
    led.append(("components -> written PS", woff, woff is not None, wps.loc(), "PS = component%+d" % woff if woff is not None else "?"))
    for hop, off, ok_, loc, txt in led:
        ctx.ob("ledger", "hop:%s" % hop, None if ok_ is None else bool(ok_), loc, "%s: %s (offset %s)" % (hop, txt, off) if ok_ else "%s: hop not recognised (%s)" % (hop, txt))
    vote_off = [o for k, o in offs if k == "votes"]
    total = None
    if isinstance(ps_off, int) and ps_r and vote_off and woff is not None:
        total = 0 + 0 + ps_off + 0 + ps_r[1] + vote_off[0] + woff
    ctx.ob("ledger", "PS-offsets-sum-to-zero", total == 0, cs.loc(), "PS: +0 (decode) %+d (tag) %+d (read) %+d (component) %+d (write) = 0" % (ps_off, ps_r[1], vote_off[0], woff) if total == 0 else "PS offsets along haplotag -> haplotagphase -> writer sum to %s, not 0" % total)
    carried = [o for k, o in offs if k == "carried"]
    if carried:
        ok = woff is not None and carried[0] is not None and carried[0] + woff == 0
        ctx.ob("ledger", "carried-PS-offsets-sum-to-zero", ok, cs.loc(), "carried phase set: block_id %+d then %+d on write = 0" % (carried[0], woff) if ok else "carried phase set offset %s + write offset %s != 0" % (carried[0], woff))
    totalh = None
    if isinstance(hp_off, int) and ht_r:
        totalh = hp_off + ht_r[1]
    ctx.ob("ledger", "HP-offsets-sum-to-zero", totalh == 0, a.loc(), "HP: %+d (tag) %+d (read) = 0" % (hp_off, ht_r[1]) if totalh == 0 else "HP offsets sum to %s" % totalh)


def _emissions(ctx, cs):
    """Where consensus() emits a phased position: [{"stmt", "pos", "a0", "a1", "q"}] with the allele expressions that end up on
    super-read 0 and 1.  Form A: the paired appends super_reads[0].append(Variant(pos, allele=A0, quality=Q)) /
    super_reads[1].append(Variant(pos, allele=A1, quality=Q)).  Form B: one record list L.append((.., .., ..)) that the returned
    pair of comprehensions [Variant(..) for (..) in L] maps onto the two super-reads."""
    out = []
    apps = [c for c in ctx.prog.calls_in(cs.node) if isinstance(c.func, ast.Attribute) and c.func.attr == "append" and u(c.func.value) in ("super_reads[0]", "super_reads[1]") and c.args and isinstance(c.args[0], ast.Call) and u(c.args[0].func) == "Variant"]
    by_block = {}
    for c in apps:
        st_ = util.stmt_of(c)
        by_block.setdefault(id(getattr(st_, "parent", None)), []).append((st_, c))
    for lst in by_block.values():
        z = [x for x in lst if u(x[1].func.value) == "super_reads[0]"]
        o = [x for x in lst if u(x[1].func.value) == "super_reads[1]"]
        if len(z) == 1 and len(o) == 1:
            v0, v1 = z[0][1].args[0], o[0][1].args[0]
            kw0 = {k.arg: k.value for k in v0.keywords}
            kw1 = {k.arg: k.value for k in v1.keywords}
            if v0.args and v1.args and u(v0.args[0]) == u(v1.args[0]) and "allele" in kw0 and "allele" in kw1:
                out.append({"stmt": z[0][0], "stmts": [z[0][0], o[0][0]], "pos": u(v0.args[0]), "a0": kw0["allele"], "a1": kw1["allele"], "q": u(kw0.get("quality")) if kw0.get("quality") is not None else None})
        else:
            return None  # unpaired appends: not a shape this reader understands
    if out or apps:
        return out
    # form B
    rets = [r_ for r_ in walk_function(cs.node) if isinstance(r_, ast.Return) and isinstance(r_.value, ast.Tuple) and len(r_.value.elts) == 2]
    if len(rets) != 1:
        return None
    mutated = {util.root_name(s_.target) for s_ in util.store_sites(cs.node) if s_.kind == "call"}
    sr = util.expand_single_defs(cs.node, rets[0].value.elts[0], keep=tuple(x for x in mutated if x))
    if not (isinstance(sr, (ast.List, ast.Tuple)) and len(sr.elts) == 2 and all(isinstance(e, ast.ListComp) and len(e.generators) == 1 and not e.generators[0].ifs for e in sr.elts)):
        return None
    lname = u(sr.elts[0].generators[0].iter)
    maps = []
    for e in sr.elts:
        g = e.generators[0]
        if u(g.iter) != lname or not (isinstance(g.target, ast.Tuple) and all(isinstance(t, ast.Name) for t in g.target.elts)) or not (isinstance(e.elt, ast.Call) and u(e.elt.func) == "Variant" and e.elt.args):
            return None
        names = [t.id for t in g.target.elts]
        kw = {k.arg: k.value for k in e.elt.keywords}
        if "allele" not in kw or u(e.elt.args[0]) not in names or u(kw["allele"]) not in names:
            return None
        maps.append((names.index(u(e.elt.args[0])), names.index(u(kw["allele"])), names.index(u(kw["quality"])) if "quality" in kw and u(kw["quality"]) in names else None, len(names)))
    if maps[0][0] != maps[1][0] or maps[0][3] != maps[1][3]:
        return None
    for c in ctx.prog.calls_in(cs.node):
        if isinstance(c.func, ast.Attribute) and c.func.attr == "append" and u(c.func.value) == lname:
            if not (c.args and isinstance(c.args[0], ast.Tuple) and len(c.args[0].elts) == maps[0][3]):
                return None
            el = c.args[0].elts
            st_ = util.stmt_of(c)
            out.append({"stmt": st_, "stmts": [st_], "pos": u(el[maps[0][0]]), "a0": el[maps[0][1]], "a1": el[maps[1][1]], "q": u(el[maps[0][2]]) if maps[0][2] is not None else None})
    # nothing else may put records into the list
    others = [s_ for s_ in util.store_sites(cs.node) if util.root_name(s_.target) == lname and not (s_.kind == "call" and s_.method in ("append", "sort"))]
    if others:
        return None
    return out


def r2(ctx):
    cv = ctx.func(HP + ".compute_votes")
    def per_position_votes(v):
        # votes[variant.position], or a local bound to it / to votes.setdefault(variant.position, {})
        if u(v) == "votes[variant.position]":
            return True
        if isinstance(v, ast.Name):
            d_ = util.single_def(cv.node, v.id)
            return d_ is not None and (u(d_) == "votes[variant.position]" or (isinstance(d_, ast.Call) and u(d_.func) == "votes.setdefault" and d_.args and u(d_.args[0]) == "variant.position"))
        return False

    aug = [n for n in walk_function(cv.node) if isinstance(n, ast.AugAssign) and isinstance(n.op, ast.Add) and isinstance(n.target, ast.Subscript) and per_position_votes(n.target.value)]
    ok = len(aug) == 1
    key = None
    if ok:
        sl = aug[0].target.slice
        ok = isinstance(sl, ast.Tuple) and len(sl.elts) == 2 and isinstance(sl.elts[1], ast.BinOp) and isinstance(sl.elts[1].op, ast.BitXor)
        if ok:
            ops = {u(sl.elts[1].left), u(sl.elts[1].right)}
            ok = "ht" in ops and any(o.startswith("allele_to_id[variant.position][variant.allele]") for o in ops) and u(sl.elts[0]) == "ps" and u(aug[0].value) == "variant.quality"
    ctx.ob(cv.qual, "vote-key-is-haplotype-xor-allele-id", ok, cv.loc(aug[0]) if aug else cv.loc(), "votes[pos][(ps, ht ^ allele id)] += quality" if ok else "vote accumulation is not keyed by (ps, ht ^ allele_to_id[pos][allele])")
    cs = ctx.func(HP + ".consensus")
    ems = _emissions(ctx, cs)
    vote_ems = [e for e in (ems or []) if "id_to_allele" in u(e["a0"]) or "id_to_allele" in u(e["a1"])]
    ok = None if ems is None else len(vote_ems) == 1
    if ok:
        e = vote_ems[0]
        al0, al1 = e["a0"], e["a1"]
        ok = u(al0) == "id_to_allele[pos][best_allele]" and isinstance(al1, ast.Subscript) and _lin(al1.slice) == {"best_allele": -1, "": 1} and u(al1.value) == "id_to_allele[pos]" and e["pos"] == "pos"
    ctx.ob(cs.qual, "winner-to-haplotype-0-complement-to-1", ok, cs.loc(vote_ems[0]["stmt"]) if vote_ems else cs.loc(), "super-read 0 gets the winning id's allele, super-read 1 the complementary id's allele" if ok else ("consensus does not put best_allele on super-read 0 and 1 - best_allele on super-read 1" if ok is False else "cannot read how consensus() fills the two super-reads"))
    bc = ctx.func(HP + ".best_candidate")
    # ((phase_set, allele), score) = first entry of the candidates ordered by descending score (sorted(...) or list + .sort)
    first = [n for n in walk_function(bc.node) if isinstance(n, ast.Assign) and isinstance(n.value, ast.Subscript) and isinstance(n.value.value, ast.Name) and isinstance(n.value.slice, ast.Constant) and n.value.slice.value == 0 and u(n.targets[0]).replace(" ", "") == "((phase_set,allele),score)"]
    ok = len(first) == 1
    if ok:
        od = util.ordering_of(bc.node, first[0].value.value.id)
        params_bc = util.params_of(bc.node)
        ok = od is not None and od[2] is True and od[1] is not None and od[1].replace(" ", "") in ("_[-1]", "_[1]") and u(od[0]) == "%s.items()" % params_bc[0]
    rets = [n for n in walk_function(bc.node) if isinstance(n, ast.Return)]
    ok = ok and len(rets) == 1 and [u(e) for e in rets[0].value.elts][:2] == ["allele", "phase_set"]
    ctx.ob(bc.qual, "best-candidate-is-max-score", ok, bc.loc(), "best_candidate returns (allele id, phase set) of the highest score" if ok else "best_candidate does not return index 0 of a descending sort as (allele, phase_set, ...)")
    run = ctx.func(HP + ".run_haplotagphase")
    a2i = [s for s in util.store_sites(run.node) if s.kind == "subscript" and u(s.target.value.value if isinstance(s.target.value, ast.Subscript) else s.target.value) == "allele_to_id"]
    i2a = [s for s in util.store_sites(run.node) if s.kind == "subscript" and u(s.target.value.value if isinstance(s.target.value, ast.Subscript) else s.target.value) == "id_to_allele"]
    ok = (None if not a2i else (len(a2i) == 1 and len(i2a) == 1))
    if ok:
        ok = u(a2i[0].target.slice) == u(i2a[0].value) and u(i2a[0].target.slice) == u(a2i[0].value) and u(a2i[0].target.value.slice) == u(i2a[0].target.value.slice) == "variant.position"
        lp = a2i[0].stmt.parent
        ok = ok and isinstance(lp, ast.For) and u(lp.iter) == "enumerate(genotype.as_vector())"
    ctx.ob(run.qual, "allele-id-tables-inverse", ok, run.loc(a2i[0].stmt) if a2i else run.loc(), "allele_to_id and id_to_allele are filled as mutually inverse tables from the call's own genotype" if ok else "allele_to_id / id_to_allele are not mutually inverse")
    w = ctx.func("whatshap.vcf.PhasedVcfWriter.write")
    ph = util.single_def(w.node, "phasing")
    ok = ph is not None and u(ph) == "tuple((v.allele for v in variants))"
    zl = [n for n in walk_function(w.node) if isinstance(n, ast.For) and u(n.iter) == "zip(*superreads)" and u(n.target) == "variants"]
    ok = ok and len(zl) == 1
    ctx.ob(w.qual, "phase-tuple-in-super-read-order", ok, w.loc(), "the written phase tuple lists the super-reads' alleles in super-read order" if ok else "the phase tuple is not built as tuple(v.allele for v in zip(*superreads))")
    # consensus() result goes to the writer for the same sample
    ok = False
    for n in walk_function(run.node):
        if isinstance(n, ast.Assign) and isinstance(n.targets[0], ast.Tuple) and isinstance(n.value, ast.Call) and u(n.value.func) == "consensus":
            ok = [u(t) for t in n.targets[0].elts] == ["sample_to_super_reads[sample]", "sample_to_components[sample]"]
    wc = [c for c in ctx.prog.calls_in(run.node) if u(c.func) == "vcf_writer.write"]
    ok = ok and len(wc) == 1 and [u(a) for a in wc[0].args[1:3]] == ["sample_to_super_reads", "sample_to_components"]
    ctx.ob(run.qual, "consensus-result-written-for-its-sample", ok, run.loc(), "consensus()'s (super reads, components) are stored under the sample and handed to the writer" if ok else "consensus result is not routed to the writer under its sample")


def r3(ctx):
    cs = ctx.func(HP + ".consensus")
    cfg = ctx.cfg(cs)
    params = util.params_of(cs.node)
    phased_p = "phased"
    ctx.require(phased_p in params, "consensus has no `phased` parameter")
    loops = [n for n in walk_function(cs.node) if isinstance(n, ast.For) and u(n.iter) in ("%s.items()" % phased_p, phased_p)]
    ok = len(loops) == 1
    detail = "no loop over %s.items() in consensus: already phased calls without votes are never emitted and come out unphased" % phased_p
    if ok:
        lp = loops[0]
        tnames = [u(t) for t in (lp.target.elts if isinstance(lp.target, ast.Tuple) else [lp.target])]
        posv, phv = (tnames + [None])[:2] if len(tnames) == 2 else (tnames[0], "%s[%s]" % (phased_p, tnames[0]))
        ems3 = _emissions(ctx, cs)
        inl = [e for e in (ems3 or []) if any(x is e["stmt"] for x in ast.walk(lp))]
        ok = len(inl) == 1
        if ok:
            e = inl[0]
            ok = u(e["a0"]) == "%s.phase[0]" % phv and u(e["a1"]) == "%s.phase[1]" % phv and e["pos"] == posv
            detail = "carried alleles are %s / %s" % (u(e["a0"]), u(e["a1"]))
        if ok:
            # only calls without a usable phase are skipped
            head = cfg.node_of(lp)
            conts = [n for n in cfg.g.nodes if cfg.kind(n) == "continue" and any(x is cfg.ast(n) for x in ast.walk(lp))]
            for cn in conts:
                stmt = cfg.ast(cn)
                conds = []
                anc = stmt
                while anc is not None and anc is not lp:
                    if isinstance(anc.parent, ast.If) and anc in anc.parent.body:
                        t = anc.parent.test
                        conds.extend(t.values if isinstance(t, ast.BoolOp) and isinstance(t.op, ast.Or) else [t])
                    anc = anc.parent
                allowed = ("%s is None" % phv, "len(%s.phase) != 2" % phv, "None in %s.phase" % phv, "%s.phase[0] is None" % phv, "%s.phase[1] is None" % phv, "not %s" % phv)
                extra = [u(c) for c in conds if u(c) not in allowed]
                if extra:
                    ok = False
                    detail = "an already phased call is skipped under %s: it comes out unphased" % extra
    if ok:
        # the carry loop lies on every path to a return (no early exit before it)
        head = cfg.node_of(loops[0])
        for r_ in [n for n in walk_function(cs.node) if isinstance(n, ast.Return)]:
            p_ = cfg.find_path(cfg.entry, cfg.node_of(r_), avoid_nodes=[head])
            if p_ is not None:
                ok = False
                detail = "consensus() can return before the loop that carries already phased calls: " + " -> ".join(cfg.describe_path(p_)[-3:])
    ctx.ob(cs.qual, "phased-calls-carried", ok, cs.loc(loops[0]) if loops else cs.loc(), "every call with an input phase is emitted with that phase's alleles on super-reads 0/1, whether or not a tagged read covers it" if ok else detail)
    # the vote loop must not touch positions that were carried
    vl = [n for n in walk_function(cs.node) if isinstance(n, ast.For) and u(n.iter) in ("votes.items()", "votes")]
    ok2 = False
    if len(vl) == 1 and loops:
        ems4 = _emissions(ctx, cs) or []
        vapps = [st_ for e in ems4 for st_ in e["stmts"] if any(x is st_ for x in ast.walk(vl[0]))]
        pos = u(vl[0].target.elts[0]) if isinstance(vl[0].target, ast.Tuple) else u(vl[0].target)
        ok2 = bool(vapps)
        effects = [cfg.node_of(c) for c in vapps] + [cfg.node_of(s_.stmt) for s_ in util.store_sites(vl[0]) if s_.kind == "subscript" and u(s_.target.value) == "components"]
        for node in effects:
            ga = guard_atoms(cfg, node)
            if not ((("%s in components" % pos), False) in ga or (("None is %s[%s]" % (phased_p, pos)), True) in ga):
                ok2 = False
    ctx.ob(cs.qual, "votes-do-not-override-input-phase", ok2, cs.loc(vl[0]) if vl else cs.loc(), "a position that carries an input phase is skipped by the vote loop" if ok2 else "the vote loop writes alleles or a phase set for positions that already carry an input phase (re-derived / overwritten instead of carried)")
    # the returned position -> phase set map is exactly what the two loops recorded: no later renumbering
    binds = [(s_, v) for s_, v in util.assignments_to(cs.node, "components")]
    fresh = [v for s_, v in binds if isinstance(v, ast.AST) and u(v) in ("dict()", "{}")]
    rebound = [s_ for s_, v in binds if not (isinstance(v, ast.AST) and u(v) in ("dict()", "{}"))]
    stores = [s_ for s_ in util.store_sites(cs.node) if util.root_name(s_.target) == "components"]
    allowed = {"phase_set", "int(%s.block_id) - 1" % (phv if loops and len(loops) == 1 else "phase")}
    odd = [s_ for s_ in stores if not (s_.kind == "subscript" and s_.value is not None and u(s_.value) in allowed)]
    rets_c = [n for n in walk_function(cs.node) if isinstance(n, ast.Return) and isinstance(n.value, ast.Tuple) and len(n.value.elts) == 2]
    okr = (None if not fresh else (len(fresh) == 1 and not rebound and not odd and len(stores) >= 2 and bool(rets_c) and all(u(r_.value.elts[1]) == "components" for r_ in rets_c)))
    bad_txt = ("components = %s" % (u(rebound[0].value)[:70] if isinstance(rebound[0], ast.Assign) else u(rebound[0])[:70])) if rebound else (odd[0].text()[:80] if odd else "the returned map is not `components`")
    ctx.ob(cs.qual, "phase-set-is-the-voted-or-carried-one", okr, cs.loc(rebound[0]) if rebound else (cs.loc(odd[0].stmt) if odd else cs.loc()), "components[pos] is only ever the winning vote's phase set (the reads' PS) or the input call's own block id; the map is returned as recorded" if okr else "`%s` changes the phase set of a position after it was recorded: a variant no longer gets the phase set of the reads that cover it / its input phase set" % bad_txt)
    # phased dict is filled for every variant of the table
    run = ctx.func(HP + ".run_haplotagphase")
    def zip_sources(target, it, depth=0):
        """{loop variable: text of the sequence it walks} for `for <target> in zip(A, zip(B, C))` / list(zip(..)) / a local bound to one"""
        out = {}
        if depth > 4:
            return out
        if isinstance(it, ast.Name):
            d_ = util.single_def(run.node, it.id)
            if d_ is not None:
                return zip_sources(target, d_, depth + 1)
        if isinstance(it, ast.Call) and u(it.func) in ("list", "tuple") and len(it.args) == 1:
            return zip_sources(target, it.args[0], depth + 1)
        if isinstance(it, ast.Call) and u(it.func) == "zip" and isinstance(target, ast.Tuple) and len(target.elts) == len(it.args):
            for t_, a_ in zip(target.elts, it.args):
                if isinstance(t_, ast.Name):
                    out[t_.id] = u(a_)
                else:
                    out.update(zip_sources(t_, a_, depth + 1))
        return out

    cons = [c for c in ctx.prog.calls_in(run.node) if u(c.func) == "consensus"]
    ctx.require(len(cons) == 1, "run_haplotagphase no longer calls consensus()")
    parg = util.bound_args(cons[0], cs.node, skip_self=False)
    pexpr = parg.get(phased_p) if parg else None
    st = [s for s in util.store_sites(run.node) if s.kind == "subscript" and isinstance(pexpr, ast.Name) and u(s.target.value) == pexpr.id]
    ok = None
    anchor = util.stmt_of(cons[0])
    if isinstance(pexpr, ast.Name) and len(st) == 1:
        # filled entry by entry in a loop over the table
        lp_ = st[0].stmt
        while lp_ is not None and not isinstance(lp_, ast.For):
            lp_ = getattr(lp_, "parent", None)
        src = zip_sources(lp_.target, lp_.iter) if lp_ is not None else {}
        k_, v_ = st[0].target.slice, st[0].value
        ok = isinstance(k_, ast.Attribute) and k_.attr == "position" and src.get(u(k_.value), "").endswith(".variants") and src.get(u(v_)) == "phases"
        anchor = st[0].stmt
    else:
        px = util.expand_single_defs(run.node, pexpr, keep=("phases", "genotypes", "variant_table")) if pexpr is not None else None
        if isinstance(px, ast.DictComp) and len(px.generators) == 1 and not px.generators[0].ifs:
            g_ = px.generators[0]
            src = zip_sources(g_.target, g_.iter)
            ok = isinstance(px.key, ast.Attribute) and px.key.attr == "position" and src.get(u(px.key.value), "").endswith(".variants") and src.get(u(px.value)) == "phases"
    if ok:
        ph_ = util.single_def(run.node, "phases")
        ok = ph_ is not None and isinstance(ph_, ast.Call) and isinstance(ph_.func, ast.Attribute) and ph_.func.attr == "phases_of"
    ctx.ob(run.qual, "input-phase-recorded-per-position", ok, run.loc(anchor), "phased[position] = the call's input phase for every variant of the table" if ok else ("the input phase is not recorded per position" if ok is False else "cannot read how the `phased` argument of consensus() is built"))
    # ... of the table as it was read: no row of the chromosome's table is removed or replaced before the phases are collected
    tl = [n for n in walk_function(run.node) if isinstance(n, ast.For) and isinstance(n.target, ast.Name) and "vcf_reader" in u(n.iter) and not u(n.iter).endswith(".samples") and any(x is anchor for x in ast.walk(n))]
    if len(tl) == 1:
        tv = tl[0].target.id
        # VariantTable methods that store through self, directly or through another method of the table
        vt = {q.rsplit(".", 1)[1]: f for q, f in ctx.prog.functions.items() if q.startswith("whatshap.vcf.VariantTable.") and q.count(".") == 3}
        mutating = {n_ for n_, f in vt.items() if n_ != "__init__" and any(util.root_name(s_.target) == "self" for s_ in util.store_sites(f.node))}
        grew = True
        while grew:
            grew = False
            for n_, f in vt.items():
                if n_ not in mutating and n_ != "__init__" and any(isinstance(c_.func, ast.Attribute) and u(c_.func.value) == "self" and c_.func.attr in mutating for c_ in ctx.prog.calls_in(f.node)):
                    mutating.add(n_)
                    grew = True
        muts = [c for c in ctx.prog.calls_in(tl[0]) if isinstance(c.func, ast.Attribute) and u(c.func.value) == tv and c.func.attr in mutating]
        muts += [s_.stmt for s_ in util.store_sites(tl[0]) if util.root_name(s_.target) == tv]
        rebinds = [s_ for s_, v_ in util.assignments_to(tl[0], tv) if isinstance(s_, ast.stmt) and s_ is not tl[0]]
        bad = muts + rebinds
        ctx.ob(run.qual, "table-not-edited-before-phases-are-collected", not bad, run.loc(bad[0]) if bad else run.loc(tl[0]), "the chromosome's variant table reaches the phase collection as it was read: every already phased call is carried to the writer" if not bad else "`%s` changes the variant table before the input phases are collected: calls that were phased in the input are dropped from `phased` and leave the writer unphased" % u(bad[0])[:90])
    else:
        ctx.ob(run.qual, "table-not-edited-before-phases-are-collected", None, run.loc(), "chromosome loop over the VCF reader not found")
    vr = [c for c in ctx.prog.calls_in(run.node) if u(c.func) == "VcfReader"]
    ok = any(any(k.arg == "phases" and isinstance(k.value, ast.Constant) and k.value.value is True for k in c.keywords) for c in vr)
    ctx.ob(run.qual, "input-phase-is-read", ok, run.loc(), "the input VCF is read with phases=True" if ok else "the input VCF is read without phases")


def r4(ctx):
    """The tags haplotagphase consumes are assigned per best agreement, within the linked-read cutoff (C10.R4)."""
    from rules import c10

    c10.r4(ctx)


def r5(ctx):
    """Tags that haplotagphase votes with are the ones the last haplotag run decided: an alignment that gets no haplotype in a
    run does not keep HP / PS of an earlier run (C10.R3: HP, PS, PC are defined on every path to the write)."""
    from rules import c10

    c10.r3(ctx)


RULES = [
    ("C17.R1", "offset ledger PS/HP from VCF through tags back to VCF", r1),
    ("C17.R2", "haplotype order: xor key, winner to super-read 0, tuple order", r2),
    ("C17.R3", "already phased calls are carried, not re-derived", r3),
    ("C17.R4", "tags come from best agreement within the linked-read cutoff (C10.R4)", r4),
    ("C17.R5", "no stale HP/PS tags survive a haplotag run (C10.R3)", r5),
]
# instance floors: about 60% of the instances confirmed by hand on the reference tree -- a rule that suddenly matches far fewer
# sites fails the run (exit 2); a clean-up that merges two sites into one does not
FLOORS = {"C17.R1": 6, "C17.R2": 3, "C17.R3": 2, "C17.R4": 9, "C17.R5": 3}
