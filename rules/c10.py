"""C10 -- haplotag conserves every alignment and tags by best agreement (structural clauses)."""
import ast

from sa.model import walk_function, AnalysisError
from sa.norm import u, atoms, guard_atoms, linear
from sa import util

PROPERTY = "C10"
NEEDS_PYX = False
MOD = "whatshap.cli.haplotag"
TAGS = ("HP", "PC", "PS")

EXPLANATION = (
    "Decides, on whatshap/cli/haplotag.py: R1 alignment conservation -- in the per-region fetch loop every path from the loop header to the next iteration passes exactly one "
    "bam_writer.write(alignment), nothing leaves the loop early, the unmapped tail is copied iff no regions were given, and a chromosome is skipped only under the two documented "
    "conditions (no alignments on it; contig missing from the VCF with --skip-missing-contigs); R2 tag confinement -- the only effect on an alignment anywhere on the way is "
    "set_tag with a constant tag in {HP, PS, PC}; R3 stale tags -- at the write, on every path, each of HP/PS/PC has been set (to a value or None); a tagged result of the helper "
    "implies that the helper set all three; R4 tie and empty rejection -- a read gets a haplotype only if it has scores and best - second != 0, best/second are indices 0/1 of a "
    "descending sort, the stored tuple (haplotype, quality, phaseset) is unpacked in the same order where HP = haplotype + 1, PC = quality, PS = phaseset are written."
)
EXPLANATION += (
    " " + 'R3 also: the decision table of ignore_read over (is_unmapped, is_secondary, is_supplementary, tag_supplementary), obtained by abstractly interpreting its if/elif chain over all 16 valuations, equals unmapped or secondary or (supplementary and not tag_supplementary); R4 also: the three results of prepare_haplotag_information are created before the sample loop and never re-created inside a loop.'
)
EXPLANATION += (
    " " + 'R6: exactly once under --regions -- fetch() returns every alignment overlapping a region, so with one fetch per region an alignment that an earlier region of the list overlaps must be passed over (a test any(overlap(alignment, s, e) for s, e in regions[:i]) on the path to every write, the overlap predicate read from the helper). R7: ReadSetReader._usable_alignments yields exactly the mapped, non-secondary alignments at or above the MAPQ threshold, supplementary / duplicate ones only when asked (decision table over 128 valuations of one loop iteration).'
)
NOT_DECIDED = "Score accumulation values, htslib output bytes, overlapping user regions (an alignment inside two requested regions is fetched twice)."
ASSUMPTIONS = ["pysam: set_tag(tag, None) removes the tag", "bam_reader.fetch(contig=c, start, stop) yields every alignment overlapping the region once"]


def _order_chain(fnode, e, depth=0):
    """Follow an iterable back through order-preserving views: ("preserved", base) | ("reordered", text) | ("unknown", text)."""
    if depth > 8:
        return "unknown", u(e)
    if isinstance(e, ast.Name):
        if e.id in util.params_of(fnode):
            return "preserved", e
        d = util.single_def(fnode, e.id)
        if d is None:
            return "preserved", e
        return _order_chain(fnode, d, depth + 1)
    if isinstance(e, ast.Call):
        f = u(e.func)
        if f in ("sorted", "reversed", "set", "frozenset", "natsorted") or (isinstance(e.func, ast.Attribute) and e.func.attr in ("most_common",)):
            return "reordered", u(e)[:80]
        if f in ("list", "tuple", "iter", "dict", "OrderedDict", "enumerate") and len(e.args) == 1:
            return _order_chain(fnode, e.args[0], depth + 1)
        if isinstance(e.func, ast.Attribute) and e.func.attr in ("items", "keys", "values", "copy") and not e.args:
            return _order_chain(fnode, e.func.value, depth + 1)
        return "preserved", e
    if isinstance(e, ast.Subscript) and isinstance(e.slice, ast.Slice):
        st = e.slice.step
        if st is not None and not (isinstance(st, ast.Constant) and isinstance(st.value, int) and st.value > 0):
            return "reordered", u(e)[:80]
        return _order_chain(fnode, e.value, depth + 1)
    if isinstance(e, (ast.ListComp, ast.GeneratorExp, ast.DictComp)) and len(e.generators) == 1:
        return _order_chain(fnode, e.generators[0].iter, depth + 1)
    if isinstance(e, (ast.Attribute,)):
        return "preserved", e
    return "unknown", u(e)[:80]


def _region_loop_of(run, fetch_loop):
    """The enclosing loop that supplies start / stop of the fetch (one fetch per region), with the name of the region
    sequence and, if the loop enumerates it, the index variable: (loop, sequence text, index name or None); None if the fetch
    does not depend on an enclosing loop."""
    kw = {k.arg: k.value for k in fetch_loop.iter.keywords if k.arg}
    bounds = {n.id for k_ in ("start", "stop", "end", "region") if k_ in kw for n in ast.walk(kw[k_]) if isinstance(n, ast.Name)}
    for a in fetch_loop.iter.args[1:]:
        bounds |= {n.id for n in ast.walk(a) if isinstance(n, ast.Name)}
    lp = getattr(fetch_loop, "parent", None)
    while lp is not None and lp is not run.node:
        if isinstance(lp, ast.For):
            tnames = {n.id for n in ast.walk(lp.target) if isinstance(n, ast.Name)}
            if tnames & bounds:
                it = lp.iter
                if isinstance(it, ast.Call) and u(it.func) == "enumerate" and it.args and isinstance(lp.target, ast.Tuple) and isinstance(lp.target.elts[0], ast.Name):
                    return lp, u(it.args[0]), lp.target.elts[0].id
                return lp, u(it), None
        lp = getattr(lp, "parent", None)
    return None


def _already_written_skips(ctx, run, cfg, fetch_loop):
    """Branch edges of the fetch loop on which an alignment is passed over because an EARLIER region of the same list returned
    it: the side of a test  any(P(alignment, s, e) for s, e in REGIONS[:i])  on which it is true, with i the index of the
    current region and P an overlap test -- whether the code says `if any(..): continue`, `if not any(..): <process>` or
    filters the fetched alignments with it.  Returns (edges, verdict, why): verdict True (recognised, read, and every write
    of the loop lies on the other side), None (there is such a test but this rule cannot read it), False (there is none)."""
    rl = _region_loop_of(run, fetch_loop)
    if rl is None:
        return set(), True, "one fetch per chromosome"
    loop, seq, idx = rl
    al = fetch_loop.target.id
    edges, verdict, why = set(), False, "no alignment is skipped because an earlier region returned it"
    inside = {id(x) for x in ast.walk(fetch_loop)}
    writes = [n for n in cfg.g.nodes if cfg.kind(n) == "stmt" and cfg.ast(n) is not None and id(cfg.ast(n)) in inside and any(isinstance(c, ast.Call) and isinstance(c.func, ast.Attribute) and c.func.attr == "write" and c.args and u(c.args[0]) == al for c in ast.walk(cfg.ast(n)))]
    for t in cfg.g.nodes:
        if cfg.kind(t) != "test" or cfg.ast(t) is None or id(cfg.ast(t)) not in inside:
            continue
        e = cfg.ast(t)
        neg = False
        while isinstance(e, ast.UnaryOp) and isinstance(e.op, ast.Not):
            e, neg = e.operand, not neg
        if not (isinstance(e, ast.Call) and u(e.func) == "any" and len(e.args) == 1 and isinstance(e.args[0], ast.GeneratorExp) and len(e.args[0].generators) == 1):
            if al in {x.id for x in ast.walk(e) if isinstance(x, ast.Name)} and seq in u(e) and verdict is False:
                verdict, why = None, "cannot read the skip condition `%s`" % u(e)[:80]
            continue
        g = e.args[0].generators[0]
        if seq not in u(g.iter):
            continue
        earlier = idx is not None and u(g.iter) == "%s[:%s]" % (seq, idx) and not g.ifs
        pred = e.args[0].elt
        okp = None
        if isinstance(pred, ast.Call):
            targets, how = ctx.resolve(pred, run)
            if len(targets) == 1 and len(pred.args) == 3 and u(pred.args[0]) == al and isinstance(g.target, ast.Tuple) and [u(x) for x in pred.args[1:]] == [u(x) for x in g.target.elts]:
                okp = _is_overlap_test(targets[0])
        if earlier and okp:
            skip_lab = "false" if neg else "true"
            atom = (u(e), False)
            if writes and all(atom in guard_atoms(cfg, w_) for w_ in writes):
                for s_ in cfg.succ(t, skip_lab):
                    edges.add((t, s_))
                verdict, why = True, "an alignment is passed over exactly if one of the regions before the current one overlaps it (%s)" % u(e)[:70]
            else:
                verdict, why = False, "the test `%s` does not keep every write of the loop from an alignment an earlier region returned" % u(e)[:70]
        elif (earlier and okp is None) or (not earlier and idx is None):
            verdict, why = None, "cannot read the skip condition `%s`" % u(e)[:80]
            for s_ in cfg.succ(t, "false" if neg else "true"):
                edges.add((t, s_))  # R6 says undecided; R1 must not call this side an unexplained skip
        else:
            verdict, why = False, "the skip `%s` is not the test `an earlier region of the list overlaps the alignment`" % u(e)[:80]
    return edges, verdict, why


def _is_overlap_test(fi):
    """fi(alignment, start, end) returns  END > start and (end is None or alignment.reference_start < end)  where END is the
    alignment's reference_end, or reference_start + 1 if it has no aligned base (what htslib's iterator compares).  True / False,
    None if the body has another shape."""
    from sa import pathfx

    ps = util.params_of(fi.node)
    if len(ps) != 3:
        return None
    a, s_, e_ = ps
    try:
        sums = pathfx.summaries(ctx_cfg(fi))
    except Exception:
        return None
    rets = [(p_, r_) for p_ in sums for r_ in p_.returns()]
    if not rets:
        return None
    good = True
    for p_, r_ in rets:
        v = r_[1]
        if v is None:
            return None
        ats = atoms(v, True)
        txt = {t for t, pol in ats if pol}
        # reference_start < end (or end is None): appears as an Or -> atoms() of a disjunction gives nothing; read the tree
        conj = v.values if isinstance(v, ast.BoolOp) and isinstance(v.op, ast.And) else [v]
        has_left = has_right = False
        for c_ in conj:
            t_ = u(c_)
            if isinstance(c_, ast.Compare) and len(c_.ops) == 1:
                l_, r2 = u(c_.left), u(c_.comparators[0])
                if (isinstance(c_.ops[0], ast.Gt) and r2 == s_ and "reference_" in l_) or (isinstance(c_.ops[0], ast.Lt) and l_ == s_ and "reference_" in r2):
                    # END > start: END is reference_end, or reference_start + 1 on the path that found no aligned base
                    has_left = l_ in ("%s.reference_end" % a, "%s.reference_start + 1" % a) or r2 in ("%s.reference_end" % a, "%s.reference_start + 1" % a)
            elif isinstance(c_, ast.BoolOp) and isinstance(c_.op, ast.Or) and len(c_.values) == 2:
                x_, y_ = c_.values
                if u(x_) in ("%s is None" % e_,) and isinstance(y_, ast.Compare) and len(y_.ops) == 1 and ((isinstance(y_.ops[0], ast.Lt) and u(y_.left) == "%s.reference_start" % a and u(y_.comparators[0]) == e_) or (isinstance(y_.ops[0], ast.Gt) and u(y_.left) == e_ and u(y_.comparators[0]) == "%s.reference_start" % a)):
                    has_right = True
        good = good and has_left and has_right
    return good


def ctx_cfg(fi):
    from sa.cfg import cfg_of

    return cfg_of(fi)


def r6(ctx):
    """Exactly once under --regions: AlignmentFile.fetch(contig, start, stop) returns EVERY alignment that overlaps the region.
    With one fetch per region, an alignment that overlaps two regions of the list (overlapping regions, or a read longer than
    the gap between two regions) is returned twice; unless the loop skips what an earlier region already returned, it is
    written twice."""
    run = ctx.func(MOD + ".run_haplotag")
    cfg = ctx.cfg(run)
    loops = [n for n in walk_function(run.node) if isinstance(n, ast.For) and isinstance(n.iter, ast.Call) and u(n.iter.func).endswith(".fetch") and isinstance(n.target, ast.Name) and not any(k.arg == "contig" and isinstance(k.value, ast.Constant) and k.value.value == "*" for k in n.iter.keywords)]
    ctx.require(loops, "region fetch loop not found in run_haplotag")
    for loop in loops:
        nodes, verdict, why = _already_written_skips(ctx, run, cfg, loop)
        rl = _region_loop_of(run, loop)
        # a list that is known to hold one region needs no skip
        single = False
        if rl is not None and verdict is False:
            ga = guard_atoms(cfg, cfg.node_of(rl[0]))
            single = ("1 == len(%s)" % rl[1], True) in ga
        ok = True if single else verdict
        ctx.ob(run.qual, "alignment-overlapping-two-regions-written-once", ok, run.loc(loop), why if ok else ("%s: fetch() returns every alignment overlapping the region, so one that overlaps two --regions of a chromosome is written (and listed) twice" % why if ok is False else why))


def r7(ctx):
    """Which alignments contribute alleles to a read: ReadSetReader._usable_alignments yields an alignment exactly if it is
    mapped, not secondary, at or above the mapping-quality threshold, and supplementary / duplicate only where the reader was
    asked to use those.  A secondary alignment that passes is grouped with the primary one of the same name and votes on its
    haplotype with the alleles of another locus.  Decided over all valuations of the seven tests from the path summaries of
    one loop iteration (guard clauses, one condition, a predicate helper or a flag: the shape does not matter)."""
    import itertools
    from sa import pathfx
    from rules.common import tt_eval

    fi = ctx.func("whatshap.variants.ReadSetReader._usable_alignments")
    cfg = ctx.cfg(fi)
    loops = [n for n in walk_function(fi.node) if isinstance(n, ast.For) and isinstance(n.target, ast.Name) and any(isinstance(c_, ast.Call) and u(c_.func).endswith(".fetch") for c_ in ast.walk(n.iter))]
    loops = [n for n in loops if not any(m is not n and m in list(ast.walk(n)) for m in loops)]
    if len(loops) != 1:
        ctx.ob(fi.qual, "usable-alignments-decision", None, fi.loc(), "cannot find the loop over the fetched alignments in _usable_alignments")
        return
    al = loops[0].target.id
    B = "%s.bam_alignment" % al
    A = ["%s.is_supplementary" % B, "self._use_supplementary", "%s.mapping_quality < self._mapq_threshold" % B, "%s.is_secondary" % B, "%s.is_unmapped" % B, "%s.is_duplicate" % B, "self._duplicates"]
    usable = lambda v: not (v[0] and not v[1]) and not v[2] and not v[3] and not v[4] and not (v[5] and not v[6])
    try:
        sums = pathfx.iteration_summaries(cfg, loops[0])
    except OverflowError:
        sums = []
    if not sums:
        ctx.ob(fi.qual, "usable-alignments-decision", None, fi.loc(), "cannot enumerate the paths of one iteration of the fetch loop")
        return
    table, unread = {}, None
    for ps in sums:
        conds = []
        for t, pol in ps.atoms:
            if t.startswith("<iter>"):
                continue
            if t.startswith("<infeasible"):
                conds = None
                break
            try:
                conds.append((ast.parse(t, mode="eval").body, t, pol))
            except SyntaxError:
                unread = t
        if conds is None:
            continue
        yielded = any(e_[0] == "yield" and e_[1] is not None and u(e_[1]) == al for e_ in ps.effects)
        for vals in itertools.product((False, True), repeat=len(A)):
            env = dict(zip(A, vals))
            try:
                if all(tt_eval(e_, env) == pol for e_, t, pol in conds):
                    table.setdefault(vals, set()).add(yielded)
            except ValueError as ex:
                unread = str(ex)
                break
    if unread is not None:
        ctx.ob(fi.qual, "usable-alignments-decision", None, fi.loc(), "the loop tests something this rule does not read (%s)" % unread[:80])
        return
    wrong = [v for v in itertools.product((False, True), repeat=len(A)) if table.get(v) != {usable(v)}]
    names = ["supplementary", "use_supplementary", "mapq below threshold", "secondary", "unmapped", "duplicate", "use duplicates"]
    why = ""
    if wrong:
        v = wrong[0]
        why = "with %s the alignment is %s" % (", ".join("%s=%s" % (n_, x_) for n_, x_ in zip(names, v) if x_), "yielded" if True in table.get(v, set()) else "not yielded")
    ctx.ob(fi.qual, "usable-alignments-decision", not wrong, fi.loc(loops[0]), "over all 128 valuations an alignment is used exactly if it is mapped, not secondary, not below the MAPQ threshold, and supplementary / duplicate only when the reader uses those" if not wrong else "_usable_alignments does not select exactly the usable alignments: %s" % why)


def r1(ctx):
    run = ctx.func(MOD + ".run_haplotag")
    cfg = ctx.cfg(run)
    loops = [n for n in walk_function(run.node) if isinstance(n, ast.For) and isinstance(n.iter, ast.Call) and u(n.iter.func).endswith(".fetch") and isinstance(n.target, ast.Name)]
    ctx.require(len(loops) == 2, "expected the region fetch loop and the unmapped tail loop in run_haplotag")
    for loop in loops:
        al = loop.target.id
        tail = any(k.arg == "contig" and isinstance(k.value, ast.Constant) and k.value.value == "*" for k in loop.iter.keywords)

        inside = {id(x) for x in ast.walk(loop)}

        def is_write(n, al=al, inside=inside):
            a = cfg.ast(n)
            return cfg.kind(n) == "stmt" and a is not None and id(a) in inside and any(isinstance(c.func, ast.Attribute) and c.func.attr == "write" and u(c.func.value) == "bam_writer" and c.args and u(c.args[0]) == al for c in ast.walk(a) if isinstance(c, ast.Call))

        dup_skips = set() if tail else _already_written_skips(ctx, run, cfg, loop)[0]  # decided by C10.R6
        probs = util.check_loop_conservation(cfg, loop, is_write, sink_edges=dup_skips)
        name = "unmapped-tail" if tail else "region-loop"
        ctx.ob(run.qual, "%s:every-alignment-written" % name, not probs, run.loc(loop), "every fetched alignment reaches bam_writer.write(alignment); the loop has no early exit" if not probs else "an alignment can be %s" % ("skipped" if probs[0][0] == "skip" else "lost by an early exit"), cfg.describe_path(probs[0][1]) if probs else None)
        writes = [n for n in cfg.g.nodes if is_write(n)]
        head = cfg.node_of(loop)
        twice = None
        for a in writes:
            for b in writes:
                p = cfg.find_path(a, b, avoid_nodes=[head], start_after=True)
                if p is not None:
                    twice = p
        ctx.ob(run.qual, "%s:written-once" % name, twice is None and len(writes) >= 1, run.loc(loop), "an alignment is written exactly once per iteration" if twice is None else "an alignment can be written twice in one iteration", cfg.describe_path(twice))
        if tail:
            ga = guard_atoms(cfg, head)
            ok = ("include_unmapped", True) in ga
            d = util.single_def(run.node, "include_unmapped")
            ok = ok and d is not None and atoms(d, True) == {("None is regions", True)}
            ctx.ob(run.qual, "unmapped-tail-iff-no-regions", ok, run.loc(loop), "the unmapped tail is copied exactly when no --regions were given" if ok else "the unmapped tail is not guarded by include_unmapped = (regions is None)")
    # chromosome loop: documented skips only
    chrom_loops = [n for n in walk_function(run.node) if isinstance(n, ast.For) and "user_regions" in u(n.iter)]
    ctx.require(len(chrom_loops) == 1, "chromosome loop over user_regions not found")
    cl = chrom_loops[0]
    for c in [x for x in ast.walk(cl) if isinstance(x, ast.Continue)]:
        # innermost loop of the continue must be the chromosome loop
        lp = c
        while lp is not None and not isinstance(lp, (ast.For, ast.While)):
            lp = lp.parent
        if lp is not cl:
            continue
        kind = None
        anc = c
        in_handler = None
        while anc is not None and anc is not cl:
            if isinstance(anc, ast.ExceptHandler):
                in_handler = u(anc.type) if anc.type is not None else "*"
            anc = anc.parent
        ga = {(t, p_) for t, p_ in guard_atoms(cfg, cfg.node_of(c)) if not t.startswith("<iter>")}
        conds = sorted("%s%s" % ("" if p_ else "not ", t) for t, p_ in ga)
        chromv = u(cl.target.elts[0]) if isinstance(cl.target, ast.Tuple) else u(cl.target)
        if in_handler == "VcfInvalidChromosome" and ("skip_missing_contigs", True) in ga:
            kind = "contig missing from the VCF and --skip-missing-contigs given (documented: those reads are skipped)"
        elif in_handler is None and ("%s in has_alignments" % chromv, False) in ga:
            kind = "no alignment on this chromosome"
        ctx.ob(run.qual, "chromosome-skip:%s" % ";".join(conds + ([in_handler] if in_handler else [])), kind is not None, run.loc(c), "chromosome skipped only because: %s" % kind if kind else "a chromosome (and all its alignments) is skipped under an undocumented condition")
    # input order: chromosomes are processed in the order of the BAM header
    nr0 = ctx.func(MOD + ".normalize_user_regions")
    how, base = _order_chain(run.node, cl.iter)
    ok = None
    why = "cannot tell in which order `%s` yields the chromosomes" % u(cl.iter)[:80]
    if how == "reordered":
        ok, why = False, "the chromosome loop runs over `%s`: alignments of whole contigs are written in another order than they were read (the BAM header keeps its order)" % base
    elif how == "preserved" and isinstance(base, ast.Call) and u(base.func) == "normalize_user_regions" and len(base.args) == 2:
        refs = u(base.args[1])
        rp = util.params_of(nr0.node)[1]
        fills = [n for n in walk_function(nr0.node) if isinstance(n, ast.For) and ("None is %s" % util.params_of(nr0.node)[0], True) in guard_atoms(ctx.cfg(nr0), ctx.cfg(nr0).node_of(n))]
        rets = [n for n in walk_function(nr0.node) if isinstance(n, ast.Return) and n.value is not None]
        if len(fills) == 1 and len(rets) >= 1:
            h2, b2 = _order_chain(nr0.node, fills[0].iter)
            h3s = [_order_chain(nr0.node, r_.value) for r_ in rets]
            h3, b3 = ([x for x in h3s if x[0] != "preserved"] or h3s)[0]
            if "reordered" in (h2, h3):
                ok, why = False, "normalize_user_regions orders the references as `%s`, not as the BAM header does" % (b2 if h2 == "reordered" else b3)
            elif h2 == "preserved" and isinstance(b2, ast.Name) and b2.id == rp and h3 == "preserved" and refs.endswith(".references"):
                ok, why = True, "chromosomes are processed in the order of %s (insertion order of the region map), so alignments are written in input order" % refs
    ctx.ob(run.qual, "chromosomes-in-header-order", ok, run.loc(cl), why)
    exits = [e for e in util.lexical_loop_exits(cl) if not any(e in list(ast.walk(l)) for l in loops)]
    ctx.ob(run.qual, "chromosome-loop-no-early-exit", not exits, run.loc(exits[0]) if exits else run.loc(cl), "the chromosome loop runs over every reference of the BAM" if not exits else "the chromosome loop can be left before all chromosomes are processed")
    # which contigs are visited at all: decided by what fetch() returns, because that is what the write loop iterates
    cw = ctx.prog.functions.get(MOD + ".contigs_with_alignments")
    if cw is not None:
        txt = u(cw.node)
        fetches = [c for c in ctx.prog.calls_in(cw.node, include_nested=True) if isinstance(c.func, ast.Attribute) and c.func.attr == "fetch"]
        stats = [x for x in ast.walk(cw.node) if isinstance(x, ast.Attribute) and x.attr in ("mapped", "unmapped", "get_index_statistics", "mapped_reads")]
        if stats:
            okc, why = False, "contigs_with_alignments consults the index counters (%s): placed-but-unmapped records are returned by fetch() yet not counted as mapped, so a contig that holds only such records is skipped and its alignments are never written" % sorted({x.attr for x in stats})
        elif fetches:
            okc, why = True, "a contig is visited exactly if fetch(contig) returns at least one alignment"
        else:
            okc, why = None, "cannot read how contigs_with_alignments decides"
        ctx.ob(cw.qual, "visited-contigs-are-those-with-fetched-alignments", okc, cw.loc(), why)
    # regions default covers every reference
    nr = ctx.func(MOD + ".normalize_user_regions")
    ok = None  # undecided unless a loop over the BAM references is found: another construction is not a violation by itself
    for n in walk_function(nr.node):
        if isinstance(n, ast.For) and u(n.iter) == util.params_of(nr.node)[1]:
            ga = guard_atoms(ctx.cfg(nr), ctx.cfg(nr).node_of(n))
            app = [c for c in ast.walk(n) if isinstance(c, ast.Call) and isinstance(c.func, ast.Attribute) and c.func.attr == "append" and u(c.args[0]) == "(0, None)"]
            ok = ("None is %s" % util.params_of(nr.node)[0], True) in ga and bool(app)
    ctx.ob(nr.qual, "no-regions-means-whole-references", ok, nr.loc(), "without --regions every BAM reference gets the region (0, None)" if ok else ("default regions do not cover every reference completely" if ok is False else "cannot read how normalize_user_regions builds the default regions"))


def _alignment_effects(ctx, fi, pname, seen, out):
    if (fi.qual, pname) in seen:
        return
    seen.add((fi.qual, pname))
    for st in util.store_sites(fi.node):
        if st.root == pname:
            out.append((fi, st))
    for n in walk_function(fi.node):
        if isinstance(n, ast.Call) and isinstance(n.func, ast.Attribute) and u(n.func.value) == pname and n.func.attr.startswith("set_") and n.func.attr not in util.MUTATORS:
            out.append((fi, util.Store("call", n.func.value, util.stmt_of(n), None, n.func.attr, n)))
    for c in ctx.prog.calls_in(fi.node):
        targets, how = ctx.resolve(c, fi)
        if how not in ("local", "import", "self") or len(targets) != 1:
            continue
        params = util.params_of(targets[0].node)
        for p, a in list(zip(params, c.args)) + [(k.arg, k.value) for k in c.keywords if k.arg]:
            if isinstance(a, ast.Name) and a.id == pname:
                _alignment_effects(ctx, targets[0], p, seen, out)


def r2(ctx):
    run = ctx.func(MOD + ".run_haplotag")
    loops = [n for n in walk_function(run.node) if isinstance(n, ast.For) and isinstance(n.iter, ast.Call) and u(n.iter.func).endswith(".fetch") and isinstance(n.target, ast.Name)]
    names = {l.target.id for l in loops}
    out = []
    seen = set()
    for nm in names:
        _alignment_effects(ctx, run, nm, seen, out)
    ctx.require(len(out) >= 6, "fewer than 6 effects on alignments found (%d)" % len(out))
    for fi, st in out:
        ok = False
        why = "effect on the alignment other than setting HP/PS/PC"
        if st.kind == "call" and st.method == "set_tag":
            tag = st.call.args[0] if st.call.args else None
            ok = isinstance(tag, ast.Constant) and tag.value in TAGS
            why = "sets tag %s" % (u(tag) if tag is not None else "?") if ok else "set_tag with tag %s, not one of HP/PS/PC" % (u(tag) if tag is not None else "?")
        ctx.ob(fi.qual, "alignment-effect:%s" % st.text()[:70], ok, fi.loc(st.stmt), "%s -- %s" % (st.text()[:70], why))


def _set_tag_nodes(cfg, al, tag):
    out = set()
    for n in cfg.g.nodes:
        a = cfg.ast(n)
        if cfg.kind(n) != "stmt" or a is None:
            continue
        for c in ast.walk(a):
            if isinstance(c, ast.Call) and isinstance(c.func, ast.Attribute) and c.func.attr == "set_tag" and u(c.func.value) == al and c.args and isinstance(c.args[0], ast.Constant) and c.args[0].value == tag:
                out.add(n)
    return out


def r3(ctx):
    run = ctx.func(MOD + ".run_haplotag")
    cfg = ctx.cfg(run)
    loops = [n for n in walk_function(run.node) if isinstance(n, ast.For) and isinstance(n.iter, ast.Call) and u(n.iter.func).endswith(".fetch") and isinstance(n.target, ast.Name) and not any(k.arg == "contig" and isinstance(k.value, ast.Constant) and k.value.value == "*" for k in n.iter.keywords)]
    ctx.require(len(loops) == 1, "region fetch loop not found")
    loop = loops[0]
    al = loop.target.id
    head = cfg.node_of(loop)
    writes = [n for n in cfg.g.nodes if cfg.kind(n) == "stmt" and any(isinstance(c, ast.Call) and isinstance(c.func, ast.Attribute) and c.func.attr == "write" and u(c.func.value) == "bam_writer" for c in ast.walk(cfg.ast(n)))]
    writes = [w for w in writes if cfg.find_path(head, w) is not None and w in cfg.loop_body_nodes(head)]
    ctx.require(len(writes) == 1, "bam_writer.write in the region loop not found")
    wn = writes[0]
    # the helper's tagged result
    helper_calls = [c for c in ctx.prog.calls_in(loop) if u(c.func) == "attempt_add_phase_information"]
    ctx.require(len(helper_calls) == 1 and u(helper_calls[0].args[0]) == al, "attempt_add_phase_information(alignment, ...) not found")
    hstmt = util.stmt_of(helper_calls[0])
    tagged_var = u(hstmt.targets[0].elts[0]) if isinstance(hstmt, ast.Assign) and isinstance(hstmt.targets[0], ast.Tuple) else None
    ctx.require(tagged_var is not None, "result of attempt_add_phase_information is not unpacked")
    # path summaries of one iteration (loop head -> write), values of locals propagated: `is_tagged = 0` before the
    # branch makes the `if not is_tagged` clean-up unconditional on paths where the helper did not run
    from sa import pathfx

    try:
        sums = pathfx.summaries(cfg, src=head, dst=wn)
    except OverflowError as e_:
        sums = None
        ctx.ob(run.qual, "tag-defined-at-write", None, run.loc(cfg.ast(wn)), "too many paths through the alignment loop (%s)" % e_)
    for tag in TAGS if sums is not None else ():
        bad = None
        for ps in sums:
            set_here = any(isinstance(e_[1].func, ast.Attribute) and e_[1].func.attr == "set_tag" and u(e_[1].func.value) == al and e_[1].args and isinstance(e_[1].args[0], ast.Constant) and e_[1].args[0].value == tag for e_ in ps.effects if e_[0] == "call")
            if set_here:
                continue
            ran = [e_ for e_ in ps.effects if e_[0] == "call" and u(e_[1].func) == "attempt_add_phase_information"]
            answer = ps.env.get(tagged_var)
            if ran and answer is not None and ps.has(u(answer), True):
                continue  # the helper ran in this iteration and reported the read as tagged (it then set the tags itself)
            bad = ps
            break
        ctx.ob(run.qual, "tag-defined-at-write:%s" % tag, bad is None, run.loc(cfg.ast(wn)), "on each of the %d paths of an iteration to the write, %s was set (value or None), or the helper ran in this iteration and reported the read as tagged" % (len(sums), tag) if bad is None else "an alignment can be written with a stale %s tag: neither set_tag(%r, ...) nor a fresh `tagged` answer of the helper lies on the path" % (tag, tag), cfg.describe_path(bad.path) if bad else None)
    # helper: tagged => all three set
    h = ctx.func(MOD + ".attempt_add_phase_information")
    hcfg = ctx.cfg(h)
    hal = util.params_of(h.node)[0]
    # every path on which the helper answers "tagged" (first returned value 1 / True) has set all three tags on the alignment
    try:
        hsums = pathfx.summaries(hcfg)
    except OverflowError:
        hsums = None
    if not hsums:
        ctx.ob(h.qual, "tagged-implies-set", None, h.loc(), "cannot enumerate the paths of attempt_add_phase_information")
    else:
        n_tagged = 0
        undec = None
        worst = {}
        for ps in hsums:
            rv = ps.returns()
            if len(rv) != 1 or not isinstance(rv[0][1], ast.Tuple) or not rv[0][1].elts:
                undec = "a path does not return a tuple"
                continue
            first = rv[0][1].elts[0]
            if not isinstance(first, ast.Constant):
                undec = "the first returned value `%s` is not a constant on a path" % u(first)[:40]
                continue
            if not first.value:
                continue
            n_tagged += 1
            for tag in TAGS:
                has = any(e_[0] == "call" and isinstance(e_[1].func, ast.Attribute) and e_[1].func.attr == "set_tag" and u(e_[1].func.value) == hal and e_[1].args and isinstance(e_[1].args[0], ast.Constant) and e_[1].args[0].value == tag for e_ in ps.effects)
                if not has:
                    worst.setdefault(tag, ps)
        if undec and not worst:
            ctx.ob(h.qual, "tagged-implies-set", None, h.loc(), undec)
        else:
            for tag in TAGS:
                ok = tag not in worst and n_tagged >= 1
                ctx.ob(h.qual, "tagged-implies-set:%s" % tag, ok, h.loc(), "on each of the %d paths that report the read as tagged, set_tag(%r, ...) was called on the alignment" % (n_tagged, tag) if ok else "a read can be reported as tagged without its %s tag having been set" % tag, hcfg.describe_path(worst[tag].path) if tag in worst else None)
    # which alignments may be tagged at all: decision table of ignore_read over its four flags
    ig = ctx.func(MOD + ".ignore_read")
    ap, tp = util.params_of(ig.node)[:2]
    flags = ["%s.is_unmapped" % ap, "%s.is_secondary" % ap, "%s.is_supplementary" % ap, tp]
    try:
        from rules.common import boolean_truth_table

        table = boolean_truth_table(ig.node, flags)
        wrong = [vals for vals, out in sorted(table.items()) if out != (vals[0] or vals[1] or (vals[2] and not vals[3]))]
        why = "ignore_read(%s) returns %s" % (", ".join("%s=%s" % (f.split(".")[-1], v) for f, v in zip(flags, wrong[0])), table[wrong[0]]) if wrong else ""
    except ValueError as e:
        wrong, why = [None], "ignore_read is no longer a pure decision over %s (%s)" % (flags, e)
    ctx.ob(ig.qual, "only-mapped-primary-or-requested-supplementary-alignments-are-tagged", not wrong, ig.loc(), "over all 16 flag combinations ignore_read == unmapped or secondary or (supplementary and not tag_supplementary)" if not wrong else why + ": an alignment that must stay untagged gets the tags of a read of the same name (or the other way round)")
    # the first returned value is the tagged answer: a 0/1 constant on every path (checked above) and the caller unpacks it first
    ok = bool(hsums) and all(len(ps.returns()) == 1 and isinstance(ps.returns()[0][1], ast.Tuple) and isinstance(ps.returns()[0][1].elts[0], ast.Constant) and ps.returns()[0][1].elts[0].value in (0, 1, True, False) for ps in hsums)
    ctx.ob(h.qual, "returns-is_tagged-first", ok, h.loc(), "on every path the helper returns a 0/1 tagged answer as first value" if ok else "the helper does not return a 0/1 tagged answer first on every path")


def r4(ctx):
    fi = ctx.func(MOD + ".prepare_haplotag_information")
    cfg = ctx.cfg(fi)
    stores = [s for s in util.store_sites(fi.node) if s.kind == "subscript" and u(s.target.value) == "read_to_haplotype"]
    ctx.require(len(stores) == 1, "store into read_to_haplotype not found")
    st = stores[0]
    ga = guard_atoms(cfg, cfg.node_of(st.stmt))
    # the phase set and its scores are taken from a collection of (phase set, scores): an ordered list `l` (index 0 of a
    # descending sort) or directly `max(<items>, key=...)`; the assignment needs that collection to be non-empty
    psdef = [(s_, v) for s_, v in util.assignments_to(fi.node, "scores") if isinstance(v, tuple) and v[0] == "unpack"]
    choice = psdef[0][1][1] if len(psdef) == 1 else None
    coll_names = set()
    okc = False
    if isinstance(choice, ast.Subscript) and isinstance(choice.value, ast.Name) and isinstance(choice.slice, ast.Constant) and choice.slice.value == 0:
        od = util.ordering_of(fi.node, choice.value.id)
        okc = od is not None and od[1] is not None and od[1].replace(" ", "") == "max(_[1])" and od[2] is True
        coll_names = {choice.value.id} | ({util.root_name(od[0])} if od else set())
    elif isinstance(choice, ast.Call) and u(choice.func) == "max" and choice.args:
        key = [k.value for k in choice.keywords if k.arg == "key"]
        okc = (None if not key else (len(key) == 1 and isinstance(key[0], ast.Lambda) and u(key[0].body).replace(key[0].args.args[0].arg, "_").replace(" ", "") == "max(_[1])"))
        coll_names = {util.root_name(choice.args[0])}
    ok = any((c_, True) in ga for c_ in coll_names)
    ctx.ob(fi.qual, "no-scores-no-tag", ok, fi.loc(st.stmt), "a read without any phased variant (empty score collection) is not assigned" if ok else "the assignment is not guarded by the score collection (%s) being non-empty" % sorted(coll_names))
    def _tie_excluded(ga_):
        """`quality != 0` is established -- as such, or as `best != second` where quality is their difference"""
        if ("0 == quality", False) in ga_:
            return True
        qd = util.single_def(fi.node, "quality")
        if isinstance(qd, ast.BinOp) and isinstance(qd.op, ast.Sub):
            a_, b_ = u(util.expand_single_defs(fi.node, qd.left)), u(util.expand_single_defs(fi.node, qd.right))
            exp = set()
            for t_, p_ in ga_:
                try:
                    e_ = ast.parse(t_, mode="eval").body
                except SyntaxError:
                    continue
                exp.add((u(util.expand_single_defs(fi.node, e_)), p_))
            return ("%s == %s" % (a_, b_), False) in exp or ("%s == %s" % (b_, a_), False) in exp
        return False

    ok = _tie_excluded(ga)
    ctx.ob(fi.qual, "tie-no-tag", ok, fi.loc(st.stmt), "a read whose best and second-best haplotype tie (quality == 0) is not assigned" if ok else "the assignment is not guarded by quality != 0")
    # the read-cloud table feeds the linked-read fallback of the tag writer: a tied cloud must not be registered there either
    bxa = [c for c in ctx.prog.calls_in(fi.node) if isinstance(c.func, ast.Attribute) and c.func.attr in ("append", "add") and util.root_name(c.func.value) == "BX_tag_to_haplotype"]
    for c in bxa:
        gb = guard_atoms(cfg, cfg.node_containing(c))
        okb = _tie_excluded(gb)
        ctx.ob(fi.qual, "tie-no-read-cloud", okb, fi.loc(c), "a tied read cloud is not entered into the barcode table" if okb else "the barcode table receives the cloud before the tie test: every alignment with that barcode is tagged through the linked-read fallback although best and second-best haplotype tie")
    q = util.single_def(fi.node, "quality")
    lf = linear(q) if q is not None else None
    ok = lf == {"first_score": 1, "second_score": -1}
    ctx.ob(fi.qual, "quality-is-best-minus-second", ok, fi.loc(), "quality = first_score - second_score" if ok else "quality is %s" % (u(q) if q is not None else "?"))
    # descending order and indices 0/1: where do best / second score (and the winning haplotype index) come from
    def _src(name):
        """(list name, element index, field) a local is read from: `(_, x) = L[k]` or `x = L[k][f]`"""
        ds = util.assignments_to(fi.node, name)
        if len(ds) != 1:
            return None
        v = ds[0][1]
        if isinstance(v, tuple) and v[0] == "unpack" and isinstance(v[1], ast.Subscript) and isinstance(v[1].value, ast.Name) and isinstance(v[1].slice, ast.Constant):
            return (v[1].value.id, v[1].slice.value, v[2])
        if isinstance(v, ast.Subscript) and isinstance(v.slice, ast.Constant) and isinstance(v.value, ast.Subscript) and isinstance(v.value.value, ast.Name) and isinstance(v.value.slice, ast.Constant):
            return (v.value.value.id, v.value.slice.value, v.slice.value)
        return None

    qd_ = util.single_def(fi.node, "quality")
    best_n, second_n = (u(qd_.left), u(qd_.right)) if isinstance(qd_, ast.BinOp) and isinstance(qd_.op, ast.Sub) and isinstance(qd_.left, ast.Name) and isinstance(qd_.right, ast.Name) else ("first_score", "second_score")
    s1, s2 = _src(best_n), _src(second_n)
    lname = s1[0] if s1 else None
    od = util.ordering_of(fi.node, lname) if lname else None
    ok = od is not None and od[1] is not None and od[1].replace(" ", "") == "_[1]" and od[2] is True
    ok = ok and s1 == (lname, 0, 1) and s2 == (lname, 1, 1)
    ctx.ob(fi.qual, "best-and-second-of-descending-sort", ok, fi.loc(), "scores are ordered descending by score; best = index 0, second = index 1" if ok else "best/second are not indices 0/1 of a descending order by score")
    ok = od is not None and u(od[0]) == "enumerate(scores)"
    # ... and the haplotype that is assigned is the index that travelled with the best score
    hts = [u(c.args[0].elts[1]) for c in bxa if c.args and isinstance(c.args[0], ast.Tuple) and len(c.args[0].elts) == 3] + ([u(st.value.elts[0])] if isinstance(st.value, ast.Tuple) and st.value.elts else [])
    ok = ok and bool(hts) and all(_src(h_) == (lname, 0, 0) for h_ in hts)
    ctx.ob(fi.qual, "haplotype-index-travels-with-score", ok, fi.loc(), "%s pairs each score with its haplotype index, and the assigned haplotype is the index of the best score" % lname if ok else "the ranked list is not built from enumerate(scores), or the assigned haplotype is not the index that belongs to the best score")
    # the winning phase set: the one with the highest maximum score
    ctx.ob(fi.qual, "phase-set-with-best-score-wins", okc, fi.loc(), "the phase set whose best haplotype score is highest is used (first of a descending order by max score, or max(..., key=max score))" if okc else "phase set choice is not the entry with the highest maximum score")
    # distance tests against the linked-read cutoff are symmetric
    n_dist = 0
    for f_ in (fi, ctx.func(MOD + ".attempt_add_phase_information")):
        for cmp_ in [x for x in walk_function(f_.node) if isinstance(x, ast.Compare) and len(x.ops) == 1]:
            sides = [cmp_.left, cmp_.comparators[0]]
            if not any(isinstance(s_, ast.Name) and s_.id == "linked_read_cutoff" for s_ in sides):
                continue
            n_dist += 1
            other = [s_ for s_ in sides if not (isinstance(s_, ast.Name) and s_.id == "linked_read_cutoff")][0]
            ok = isinstance(other, ast.Call) and u(other.func) == "abs" and isinstance(other.args[0], ast.BinOp) and isinstance(other.args[0].op, ast.Sub) and "reference_start" in u(other.args[0].left) and "reference_start" in u(other.args[0].right)
            okdir = (isinstance(cmp_.ops[0], (ast.LtE, ast.Lt)) and other is cmp_.left) or (isinstance(cmp_.ops[0], (ast.GtE, ast.Gt)) and other is cmp_.comparators[0])
            ctx.ob(f_.qual, "linked-read-distance-is-absolute:%s" % u(cmp_)[:50], ok and okdir, f_.loc(cmp_), "reads are pooled only if |start difference| <= cutoff" if ok and okdir else "`%s` is not a symmetric distance test: reads downstream (or upstream) of the seed are pooled regardless of the cutoff" % u(cmp_))
    ctx.require(n_dist >= 2, "distance tests against linked_read_cutoff not found")
    # stored tuple layout == unpack layout == tags written
    h = ctx.func(MOD + ".attempt_add_phase_information")
    stored = [u(e) for e in st.value.elts] if isinstance(st.value, ast.Tuple) else []
    unpack = None
    key = None
    mapp = util.params_of(h.node)[1]
    for n in walk_function(h.node):
        if isinstance(n, ast.Assign) and isinstance(n.targets[0], ast.Tuple):
            v_ = util.expand_single_defs(h.node, n.value, keep=tuple(util.params_of(h.node)))
            if isinstance(v_, ast.Subscript) and u(v_.value) == mapp:
                unpack, key = [u(e) for e in n.targets[0].elts], u(v_.slice)
            elif isinstance(v_, ast.Call) and isinstance(v_.func, ast.Attribute) and v_.func.attr == "get" and u(v_.func.value) == mapp and len(v_.args) == 1:
                unpack, key = [u(e) for e in n.targets[0].elts], u(v_.args[0])
    # the names may differ; what counts is that position k of the stored tuple is read back as position k
    ok = (None if unpack is None else (stored == ["first_ht", "quality", "phaseset"] and len(unpack) == 3 and len(set(unpack)) == 3))
    # the three results are accumulated over ALL samples: none of them is re-created inside a loop
    rets_p = [n for n in walk_function(fi.node) if isinstance(n, ast.Return) and isinstance(n.value, ast.Tuple)]
    ctx.require(len(rets_p) == 1, "prepare_haplotag_information no longer returns one tuple")
    for e in rets_p[0].value.elts:
        if isinstance(e, ast.Name):
            inside = util.rebinds_inside_loops(fi.node, e.id)
            ctx.ob(fi.qual, "result-spans-all-samples:%s" % e.id, not inside, fi.loc(inside[0][0]) if inside else fi.loc(rets_p[0]), "%s is created once, before the sample loop, and only added to afterwards" % e.id if not inside else "%s is re-created inside `for %s in ...`: what earlier samples (iterations) contributed is lost, their reads stay untagged" % (e.id, u(inside[0][1].target) if isinstance(inside[0][1], ast.For) else "while"))
    ctx.ob(h.qual, "tuple-layout-agrees", ok, h.loc(), "stored (haplotype, quality, phaseset) is unpacked in the same order" if ok else "stored tuple %s vs unpacked %s" % (stored, unpack))
    okk = unpack is not None and key == "%s.query_name" % util.params_of(h.node)[0] and u(st.target.slice).endswith(".name")
    ctx.ob(h.qual, "looked-up-by-read-name", okk, h.loc(), "the assignment is stored under the read's name and looked up by the alignment's query_name" if okk else "store key / lookup key are not read name / query_name")
    hv_, qv_, pv_ = unpack if unpack and len(unpack) == 3 else ("haplotype", "quality", "phaseset")
    want = {"HP": {hv_: 1, "": 1}, "PC": {qv_: 1}, "PS": {pv_: 1}}
    hcfg = ctx.cfg(h)
    # the read-cloud branch unpacks (reference_start, haplotype, phaseset) from the BX table: its own names
    cloud = [n for n in walk_function(h.node) if isinstance(n, ast.For) and isinstance(n.target, ast.Tuple) and len(n.target.elts) == 3]
    for n in walk_function(h.node):
        if isinstance(n, ast.Call) and isinstance(n.func, ast.Attribute) and n.func.attr == "set_tag" and isinstance(n.args[0], ast.Constant) and n.args[0].value in want:
            inc = [c_ for c_ in cloud if any(x is n for x in ast.walk(c_))]
            if inc:
                _rs, ch_, cp_ = [u(e) for e in inc[0].target.elts]
                want_here = {"HP": {ch_: 1, "": 1}, "PC": {qv_: 1}, "PS": {cp_: 1}}
            else:
                want_here = want
            val = n.args[1] if len(n.args) > 1 else [k.value for k in n.keywords if k.arg == "value"][0]
            if isinstance(val, ast.Constant) and val.value is None:
                continue
            lf = linear(val)
            tag = n.args[0].value
            ok = lf == want_here[tag]
            ctx.ob(h.qual, "tag-value:%s=%s" % (tag, u(val)), ok, h.loc(n), "%s = %s" % (tag, u(val)) if ok else "%s is set to %s, expected %s" % (tag, u(val), want_here[tag]))
    # scoring: phase info layout and agreement test
    gv = ctx.func(MOD + ".get_variant_information")
    # what is stored per position: a subscript store into the returned map, or the value of a dict comprehension
    rets_gv = [n for n in walk_function(gv.node) if isinstance(n, ast.Return) and isinstance(n.value, ast.Tuple) and n.value.elts]
    mapname = u(rets_gv[0].value.elts[0]) if rets_gv else "vpos_to_phase_info"
    stored = [util.resolve_locals(gv.node, s_.value) for s_ in util.store_sites(gv.node) if s_.kind == "subscript" and u(s_.target.value) == mapname and s_.value is not None]
    md = util.single_def(gv.node, mapname)
    if isinstance(md, ast.DictComp):
        stored.append(md.value)
    ok = (None if not stored else (len(stored) == 1 and isinstance(stored[0], ast.Tuple) and len(stored[0].elts) == 2))
    if ok:
        e0, e1 = stored[0].elts
        ok = isinstance(e0, ast.Call) and u(e0.func) == "int" and len(e0.args) == 1 and isinstance(e0.args[0], ast.Attribute) and e0.args[0].attr == "block_id" and isinstance(e1, ast.Attribute) and e1.attr == "phase" and u(e1.value) == u(e0.args[0].value)
    unp = [v for s, v in util.assignments_to(fi.node, "phasing") if isinstance(v, tuple)]
    ok = ok and len(unp) == 1 and unp[0][2] == 1 and "variantpos_to_phaseinfo[" in u(unp[0][1])
    ctx.ob(fi.qual, "phase-info-layout-agrees", ok, fi.loc(), "(block id, phase tuple) is stored per position and unpacked in the same order" if ok else "phase info tuple layout differs between get_variant_information and its use")
    # the phase-set key of the score table is the block id unpacked together with `phasing` (whatever the local is called)
    psname = "phaseset"
    for s_, v_ in util.assignments_to(fi.node, "phasing"):
        if isinstance(v_, tuple) and v_[0] == "unpack" and isinstance(s_, ast.Assign) and isinstance(s_.targets[0], ast.Tuple) and len(s_.targets[0].elts) == 2:
            psname = u(s_.targets[0].elts[0])
    aug = [n for n in walk_function(fi.node) if isinstance(n, ast.AugAssign) and u(n.target) == "haplotype_costs[%s][hap_index]" % psname]
    ok = (None if not aug else (len(aug) == 1 and u(aug[0].value) == "v.quality" and ("hap_allele == v.allele", True) in guard_atoms(cfg, cfg.node_of(aug[0]))))
    ctx.ob(fi.qual, "score-adds-quality-on-agreement", ok, fi.loc(aug[0]) if aug else fi.loc(), "a haplotype's score grows by the allele quality exactly when the read's allele equals the haplotype's allele, within the variant's phase set" if ok else "score accumulation is not `+= v.quality` under v.allele == hap_allele into [phaseset][hap_index]")


def r5(ctx):
    # the variant cursor shared by all reads of a chromosome (C06.R8) decides which variants a read is scored on
    from rules import c06

    c06.r8(ctx)


RULES = [
    ("C10.R1", "alignment conservation: one write per fetched alignment, documented skips", r1),
    ("C10.R2", "tag confinement: only set_tag HP/PS/PC touches an alignment", r2),
    ("C10.R3", "stale tags: HP/PS/PC defined on every path to the write", r3),
    ("C10.R4", "tie and empty rejection; tuple layouts; tag values", r4),
    ("C10.R5", "variant cursor skips only variants strictly left of the read", r5),
    ("C10.R6", "exactly once under --regions: an alignment overlapping two regions is skipped where an earlier region returned it", r6),
    ("C10.R7", "only mapped, non-secondary alignments of sufficient mapping quality contribute alleles to a read", r7),
]
# instance floors: about 60% of the instances confirmed by hand on the reference tree -- a rule that suddenly matches far fewer
# sites fails the run (exit 2); a clean-up that merges two sites into one does not
FLOORS = {"C10.R1": 5, "C10.R2": 3, "C10.R3": 4, "C10.R4": 9, "C10.R5": 2, "C10.R6": 1, "C10.R7": 1}
