"""C15 -- polyphase output obeys the input genotypes and forms contiguous blocks (structural clauses)."""
import ast
import os

from sa.model import walk_function, AnalysisError
from sa.norm import u, atoms, guard_atoms, linear
from sa import util
from rules import c04, c16

PROPERTY = "C15"
NEEDS_PYX = False
PP = "whatshap.cli.polyphase"
AL = "whatshap.polyphase.algorithm"
TH = "whatshap.polyphase.threading"

EXPLANATION = (
    "Decides (narrowly): R1 het only -- per sample, every variant that is not heterozygous (missing or homozygous) is removed from the table before reads are fetched (set algebra + guards), "
    "and the shared writer only phases heterozygous calls (C04.R4); R2 genotype enforcement is reached -- in run_threading force_genotypes is applied on every path to the return unless genotypes are distrusted, "
    "the genotype dictionaries handed to the solver are the allele counts of the input genotype, the singleton-block shortcut builds its haplotypes from the genotype itself and sub-instances get the allele counts of the parent's column; "
    "R3 interval naming -- components[accessible_pos[pos]] = accessible_pos[cuts[i]] for pos in range(cuts[i], cuts[i+1]) with cuts extended by the number of variants: phase sets are consecutive intervals named by their first variant; "
    "R4 pass-through -- the writer rules of C04 (conservation, store/sample confinement, header) hold for the shared PhasedVcfWriter and polyphase's chromosome loop; R5 -- block results are aggregated in block order for any thread count (C16.R2)."
)
EXPLANATION += (
    " " + 'R6: permute_blocks permutes threads / haplotypes in place only from snapshots whose copy depth (deepcopy, or nested element copies) reaches the written subscript level, and integrate_sub_results writes res.haplotypes[j][i] back to haplotypes[thread_set[j]][snps[i]] for every pair unconditionally.'
)
EXPLANATION += (
    " " + "R7: the parameter object of the recursive sub-instances is a copy of the caller's in which only the reviewed attributes (ignore_phasings, threads, ploidy) are replaced."
)
NOT_DECIDED = "That threading / reordering permutations preserve allele multisets (perms are runtime values) and that cut positions are monotone."
ASSUMPTIONS = ["compute_cut_positions returns ascending cut indices starting with 0 (asserted in the code, value-level)"]


def r1(ctx):
    run = ctx.func(PP + ".run_polyphase")
    cfg = ctx.cfg(run)
    adds = [c for c in ctx.prog.calls_in(run.node) if u(c.func) == "heterozygous.add"]
    ok = len(adds) == 1
    if ok:
        ga = guard_atoms(cfg, cfg.node_containing(adds[0]))
        ok = ("gt.is_none()", False) in ga and ("gt.is_homozygous()", False) in ga and u(adds[0].args[0]) == "index"
    chain_src = None
    if not adds:
        # comprehension form, possibly in stages: known = [(i, g) for i, g in enumerate(G) if not g.is_none()];
        # heterozygous = {i for i, g in known if not g.is_homozygous()} -- the conditions of all stages apply to an element
        d_ = util.single_def(run.node, "heterozygous")
        conds, src, elt, ok = set(), None, None, None
        hops = 0
        while isinstance(d_, (ast.SetComp, ast.ListComp, ast.GeneratorExp)) and len(d_.generators) == 1 and hops < 4:
            g_ = d_.generators[0]
            if elt is None:
                elt, tnames = d_.elt, [u(x_) for x_ in (g_.target.elts if isinstance(g_.target, ast.Tuple) else [g_.target])]
            elif u(d_.elt) != u(g_.target) or [u(x_) for x_ in (g_.target.elts if isinstance(g_.target, ast.Tuple) else [g_.target])] != tnames:
                break  # a stage that changes the elements: not read
            for c_ in g_.ifs:
                conds |= atoms(c_, True)
            hops += 1
            if isinstance(g_.iter, ast.Name):
                nd_ = util.single_def(run.node, g_.iter.id)
                if isinstance(nd_, (ast.SetComp, ast.ListComp, ast.GeneratorExp)):
                    d_ = nd_
                    continue
            src = g_.iter
            break
        if src is not None and elt is not None and len(tnames) == 2:
            iv, gv = tnames
            ok = u(elt) == iv and ("%s.is_none()" % gv, False) in conds and ("%s.is_homozygous()" % gv, False) in conds and isinstance(src, ast.Call) and u(src.func) == "enumerate" and len(src.args) == 1
            chain_src = src.args[0] if isinstance(src, ast.Call) and src.args else None
    ctx.ob(run.qual, "heterozygous-set-filled-for-present-het-calls", ok, run.loc(adds[0]) if adds else run.loc(), "an index enters `heterozygous` only if the genotype is present and not homozygous" if ok else "`heterozygous` is filled under other conditions")
    td = util.single_def(run.node, "to_discard")
    ok = td is not None and u(td) in ("set(range(len(variant_table))).difference(heterozygous)", "set(range(len(variant_table))) - heterozygous")
    ctx.ob(run.qual, "discard-everything-not-heterozygous", ok, run.loc(), "to_discard = all − heterozygous" if ok else "to_discard is %s" % (u(td) if td is not None else "?"))
    rm = [c for c in ctx.prog.calls_in(run.node) if u(c.func) == "phasable_variant_table.remove_rows_by_index"]
    rd = [c for c in ctx.prog.calls_in(run.node) if u(c.func) == "phased_input_reader.read"]
    ok = (None if not rm else (len(rm) == 1 and len(rd) == 1 and u(rm[0].args[0]) == "to_discard" and cfg.dominates(cfg.node_containing(rm[0]), cfg.node_containing(rd[0])) and u(rd[0].args[1]) == "phasable_variant_table.variants"))
    ctx.ob(run.qual, "rows-removed-before-reads-are-fetched", ok, run.loc(), "non-heterozygous rows are removed before reads are read for the remaining variants" if ok else "reads are fetched before / without removing non-heterozygous rows")
    gl = [n for n in walk_function(run.node) if isinstance(n, ast.For) and u(n.iter) == "enumerate(genotypes)"]
    gd = util.single_def(run.node, "genotypes")
    ok = (None if not gl else (len(gl) == 1 and gd is not None and u(gd) == "variant_table.genotypes_of(sample)"))
    if not gl and chain_src is not None:
        ok = u(util.expand_single_defs(run.node, chain_src)) == "variant_table.genotypes_of(sample)"
    ctx.ob(run.qual, "classification-over-the-samples-genotypes", ok, run.loc(), "the classification runs over the sample's own genotype column" if ok else "genotype column of the classification changed")
    ps = [c for c in ctx.prog.calls_in(run.node) if u(c.func) == "phase_single_individual"]
    ok = (None if not ps else (len(ps) == 1 and [u(a) for a in ps[0].args[:3]] == ["readset", "phasable_variant_table", "sample"]))
    ctx.ob(run.qual, "solver-gets-the-reduced-table", ok, run.loc(), "phase_single_individual works on the reduced table" if ok else "phase_single_individual does not receive the reduced table")
    # the table's rows are the positions of the read set that is actually handed to the solver:
    # no redefinition of `readset` between subset_rows_by_position(readset.get_positions()) and the solver call
    sub = [c for c in ctx.prog.calls_in(run.node) if u(c.func) == "phasable_variant_table.subset_rows_by_position"]
    okr = (None if not sub else (len(sub) == 1 and len(ps) == 1 and u(sub[0].args[0]) == "readset.get_positions()"))
    bad = None
    if okr:
        n_sub, n_ps = cfg.node_containing(sub[0]), cfg.node_containing(ps[0])
        okr = cfg.dominates(n_sub, n_ps)
        for s_, v_ in util.assignments_to(run.node, "readset"):
            if isinstance(s_, ast.stmt) and id(s_) in cfg.by_stmt:
                d = cfg.node_of(s_)
                if cfg.find_path(n_sub, d, avoid_nodes=[n_ps]) is not None and cfg.find_path(d, n_ps, avoid_nodes=[n_sub]) is not None:
                    bad = cfg.find_path(n_sub, n_ps)
                    okr = False
    ctx.ob(run.qual, "table-rows-match-the-solvers-readset", okr, run.loc(sub[0]) if sub else run.loc(), "the table is cut to the positions of the read set that reaches the solver (readset is not redefined in between), so genotype k belongs to matrix column k" if okr else "`readset` is filtered again after the variant table was cut to its positions: the genotype list and the allele matrix columns can be shifted against each other", cfg.describe_path(bad))


def r2(ctx):
    rt = ctx.func(TH + ".run_threading")
    cfg = ctx.cfg(rt)
    fg = [n for n in walk_function(rt.node) if isinstance(n, ast.Assign) and isinstance(n.value, ast.Call) and u(n.value.func) == "force_genotypes"]
    ok = (None if not fg else (len(fg) == 1 and u(fg[0].targets[0]) == "haplotypes"))
    if ok:
        ga = guard_atoms(cfg, cfg.node_of(fg[0]))
        ok = ("distrust_genotypes", False) in ga
        amap = dict(zip(util.params_of(ctx.func(TH + ".force_genotypes").node), [u(a) for a in fg[0].value.args]))
        ok = ok and amap.get("haplotypes") == "haplotypes" and amap.get("genotypes") == "genotypes"
    ctx.ob(rt.qual, "force-genotypes-unless-distrusted", ok, rt.loc(fg[0]) if fg else rt.loc(), "haplotypes = force_genotypes(..., haplotypes, genotypes, ...) on the `not distrust_genotypes` branch" if ok else "force_genotypes is not applied to the computed haplotypes under `not distrust_genotypes`")
    rets = [n for n in walk_function(rt.node) if isinstance(n, ast.Return)]
    okr = (None if not rets else (len(rets) == 1 and isinstance(rets[0].value, ast.Tuple) and u(rets[0].value.elts[1]) == "haplotypes"))
    bad = None
    if ok and okr:
        ch = [n for n in walk_function(rt.node) if isinstance(n, ast.Assign) and isinstance(n.value, ast.Call) and u(n.value.func) == "compute_haplotypes"]
        free = set()
        for t in cfg.g.nodes:
            if cfg.kind(t) == "test":
                for lab in ("true", "false"):
                    if ("distrust_genotypes", True) in atoms(cfg.ast(t), lab == "true"):
                        for s in cfg.succ(t, lab):
                            free.add((t, s))
        if ch:
            bad = cfg.find_path(cfg.node_of(ch[0]), cfg.node_of(rets[0]), avoid_nodes=[cfg.node_of(fg[0])], avoid_edges=free)
    ctx.ob(rt.qual, "enforcement-on-every-trusted-path", ok and okr and bad is None, rt.loc(), "with trusted genotypes every path from compute_haplotypes to the return passes force_genotypes" if ok and okr and bad is None else "the returned haplotypes can bypass force_genotypes with trusted genotypes", cfg.describe_path(bad))
    # force_genotypes compares EVERY allele present on a haplotype with its genotype multiplicity
    fgf = ctx.func(TH + ".force_genotypes")
    fcfg = ctx.cfg(fgf)
    diffs = [n for n in walk_function(fgf.node) if isinstance(n, ast.Assign) and u(n.targets[0]) == "diff"]
    okd = len(diffs) == 1
    why = "abundance computation `diff = present[a] - genotypes[pos][a]` not found"
    if okd:
        lp = diffs[0]
        while lp is not None and not isinstance(lp, ast.For):
            lp = lp.parent
        it = u(lp.iter) if lp is not None else None
        a = u(lp.target) if lp is not None else "?"
        universe = util.single_def(fgf.node, it) if lp is not None and isinstance(lp.iter, ast.Name) else None
        from_genotype = universe is not None and isinstance(universe, ast.SetComp) and u(universe.generators[0].iter) == "genotypes[pos]"
        def allele_on_haplotype(call):
            """the added value is the allele of one haplotype at pos, for every haplotype"""
            lp_ = util.stmt_of(call).parent
            if not (isinstance(lp_, ast.For) and call.args):
                return False
            a_ = u(call.args[0])
            if u(lp_.iter) == "haplotypes" and a_ == "%s[pos]" % u(lp_.target):
                return True
            src_ = util.single_def(fgf.node, lp_.iter.id) if isinstance(lp_.iter, ast.Name) else lp_.iter
            if a_ == u(lp_.target) and isinstance(src_, (ast.ListComp, ast.GeneratorExp)) and len(src_.generators) == 1 and not src_.generators[0].ifs:
                g_ = src_.generators[0]
                return (u(g_.iter) == "haplotypes" and u(src_.elt) == "%s[pos]" % u(g_.target)) or (u(g_.iter) == "range(len(haplotypes))" and u(src_.elt) == "haplotypes[%s][pos]" % u(g_.target))
            return False

        adds = [c for c in ctx.prog.calls_in(fgf.node) if u(c.func) == "%s.add" % it and c.args]
        from_haps = len(adds) == 1 and allele_on_haplotype(adds[0])
        zero = any(isinstance(s_, ast.Assign) and u(s_.targets[0]) == "genotypes[pos][%s]" % a and u(s_.value) == "0" and ("%s in genotypes[pos]" % a, False) in guard_atoms(fcfg, fcfg.node_of(s_)) for s_ in ast.walk(lp)) if lp is not None else False
        okd = from_genotype and from_haps and zero and u(diffs[0].value) == "present[%s] - genotypes[pos][%s]" % (a, a)
        why = "the allele universe is %s (genotype alleles: %s, alleles present on haplotypes: %s, absent alleles counted as multiplicity 0: %s)" % (it, from_genotype, from_haps, zero)
    ctx.ob(fgf.qual, "every-present-allele-is-compared-with-the-genotype", okd, fgf.loc(diffs[0]) if diffs else fgf.loc(), "force_genotypes computes present - wanted for every allele of the genotype AND every allele present on a haplotype (wanted = 0 if the genotype lacks it)" if okd else "force_genotypes does not compare every allele present on a haplotype with the genotype: an allele foreign to the input genotype survives in the output; " + why)
    # caller passes the flag and the genotypes through
    pb = ctx.func(AL + ".phase_single_block")
    rc = [c for c in ctx.prog.calls_in(pb.node) if u(c.func) == "run_threading"]
    ok = (None if not rc else (len(rc) == 1 and u(rc[0].args[3]) == "genotypes" and any(k.arg == "distrust_genotypes" and u(k.value) == "param.distrust_genotypes" for k in rc[0].keywords)))
    ctx.ob(pb.qual, "threading-gets-block-genotypes-and-flag", ok, pb.loc(rc[0]) if rc else pb.loc(), "run_threading(…, genotypes, distrust_genotypes=param.distrust_genotypes)" if ok else "run_threading is not called with the block's genotypes and the distrust flag")
    # singleton shortcut from the genotype itself
    pcfg = ctx.cfg(pb)
    # the haplotypes handed to PolyphaseBlockResult in the one-variant branch: allele a exactly genotype[a] times
    rets_ = [r_ for r_ in walk_function(pb.node) if isinstance(r_, ast.Return) and isinstance(r_.value, ast.Call) and u(r_.value.func) == "PolyphaseBlockResult" and len(r_.value.args) >= 4 and any(t_.startswith("block_num_vars < 2") or t_ == "2 <= block_num_vars" or "block_num_vars" in t_ or "getNumPositions() < 2" in t_ or "2 <= allele_matrix.getNumPositions()" in t_ for t_, _p in guard_atoms(pcfg, pcfg.node_of(r_)))]
    ok = None
    if len(rets_) == 1:
        harg = rets_[0].value.args[3]
        hname = harg.id if isinstance(harg, ast.Name) else None

        def is_gt0(e):
            e = util.expand_single_defs(pb.node, e) if e is not None else None
            return e is not None and u(e) == "genotypes[0]"

        hdefs = [v_ for _, v_ in util.assignments_to(pb.node, hname)] if hname else [harg]
        hdefs = [(v_[1].elts[v_[2]] if isinstance(v_, tuple) and v_[0] == "unpack" and isinstance(v_[1], (ast.Tuple, ast.List)) and v_[2] < len(v_[1].elts) else v_) for v_ in hdefs]
        comp = [x for d_ in hdefs if isinstance(d_, ast.AST) for x in ast.walk(d_) if isinstance(x, (ast.ListComp, ast.GeneratorExp))]
        if comp:
            c_ = comp[0]
            gen = c_.generators[0]
            a_ = u(gen.target)
            el = c_.elt
            if isinstance(el, ast.BinOp) and isinstance(el.op, ast.Mult) and len(c_.generators) == 1 and not gen.ifs and is_gt0(gen.iter):
                l_, r_ = (el.left, el.right) if u(el.left) == "[[%s]]" % a_ else (el.right, el.left)
                ok = u(l_) == "[[%s]]" % a_ and isinstance(r_, ast.Subscript) and is_gt0(r_.value) and u(r_.slice) == a_
            elif len(c_.generators) == 1 and is_gt0(gen.iter):
                ok = False
        if ok is None and comp:
            # what are the entries made of?  follow the element variable to its binding: alleles of the genotype, or indices
            def elem_kind(e, env, depth=0):
                """kind of the elements of a list-valued expression: 'allele' | 'index' | None"""
                if depth > 24 or e is None:
                    return None
                if isinstance(e, ast.Name):
                    if e.id in env:
                        return env[e.id]
                    d_ = util.single_def(pb.node, e.id)
                    if d_ is None:
                        d_ = util.nearest_preceding_def(pb.node, e.id, rets_[0])
                    return elem_kind(d_, env, depth + 1) if d_ is not None else None
                if u(e) == "genotypes[0]":
                    return "allele"
                if isinstance(e, ast.Call) and u(e.func) in ("sorted", "list", "tuple", "set", "chain", "itertools.chain", "chain.from_iterable", "iter") and e.args:
                    a0 = e.args[0].value if isinstance(e.args[0], ast.Starred) else e.args[0]
                    k_ = elem_kind(a0, env, depth + 1)
                    return k_
                if isinstance(e, ast.Call) and isinstance(e.func, ast.Attribute) and e.func.attr == "keys":
                    return elem_kind(e.func.value, env, depth + 1)
                if isinstance(e, ast.Subscript) and isinstance(e.slice, ast.Constant):
                    return elem_kind(e.value, env, depth + 1)
                if isinstance(e, ast.List) and len(e.elts) == 1:
                    return elem_kind(e.elts[0], env, depth + 1)
                if isinstance(e, ast.BinOp) and isinstance(e.op, ast.Mult):
                    return elem_kind(e.left, env, depth + 1) or elem_kind(e.right, env, depth + 1)
                if isinstance(e, (ast.ListComp, ast.GeneratorExp)) and len(e.generators) == 1:
                    g_ = e.generators[0]
                    env2 = dict(env)
                    it_, tg_ = g_.iter, g_.target
                    if isinstance(it_, ast.Call) and u(it_.func) == "enumerate" and isinstance(tg_, ast.Tuple) and len(tg_.elts) == 2:
                        env2[u(tg_.elts[0])] = "index"
                        env2[u(tg_.elts[1])] = elem_kind(it_.args[0], env, depth + 1)
                    elif isinstance(it_, ast.Call) and isinstance(it_.func, ast.Attribute) and it_.func.attr == "items" and isinstance(tg_, ast.Tuple) and len(tg_.elts) == 2:
                        env2[u(tg_.elts[0])] = elem_kind(it_.func.value, env, depth + 1)
                        env2[u(tg_.elts[1])] = "count"
                    elif isinstance(tg_, ast.Name):
                        env2[tg_.id] = elem_kind(it_, env, depth + 1)
                    else:
                        return None
                    return elem_kind(e.elt, env2, depth + 1)
                return None

            kinds = {elem_kind(d_, {}) for d_ in hdefs if isinstance(d_, ast.AST)}
            if kinds == {"index"}:
                ok = False
        elif hname and all(isinstance(d_, ast.List) and not d_.elts for d_ in hdefs if isinstance(d_, ast.AST)):
            ext = [c_ for c_ in ctx.prog.calls_in(pb.node) if isinstance(c_.func, ast.Attribute) and c_.func.attr in ("extend", "append") and u(c_.func.value) == hname]
            if len(ext) == 1 and ext[0].func.attr == "extend" and len(ext[0].args) == 1:
                lp_ = ext[0]
                while lp_ is not None and not isinstance(lp_, ast.For):
                    lp_ = getattr(lp_, "parent", None)
                if lp_ is not None:
                    it_, tg_ = lp_.iter, lp_.target
                    if isinstance(it_, ast.Call) and u(it_.func) == "enumerate" and isinstance(tg_, ast.Tuple) and len(tg_.elts) == 2:
                        it_, tg_ = it_.args[0], tg_.elts[1]
                    x_ = ext[0].args[0]
                    if isinstance(it_, ast.Call) and isinstance(it_.func, ast.Attribute) and it_.func.attr == "items" and is_gt0(it_.func.value) and isinstance(tg_, ast.Tuple) and len(tg_.elts) == 2:
                        al_, mu_ = u(tg_.elts[0]), u(tg_.elts[1])
                        ok = isinstance(x_, ast.BinOp) and isinstance(x_.op, ast.Mult) and {u(x_.left), u(x_.right)} == {"[[%s]]" % al_, mu_}
                    elif is_gt0(it_) and isinstance(tg_, ast.Name):
                        al_ = tg_.id
                        ok = isinstance(x_, ast.BinOp) and isinstance(x_.op, ast.Mult) and u(x_.left) == "[[%s]]" % al_ and isinstance(x_.right, ast.Subscript) and is_gt0(x_.right.value) and u(x_.right.slice) == al_
    ctx.ob(pb.qual, "singleton-block-from-genotype", ok, pb.loc(rets_[0]) if rets_ else pb.loc(), "a one-variant block takes each allele a exactly g[a] times from the genotype" if ok else ("singleton shortcut no longer builds haplotypes as g[a] copies of each allele a (the entries are not the genotype's alleles, or not with their multiplicities)" if ok is False else "cannot read how the one-variant branch builds its haplotypes"))
    sg = util.single_def(pb.node, "subgeno")
    sh = util.single_def(pb.node, "subhaps")
    sg_forms = ("[{a: h.count(a) for a in h} for h in subhaps]", "[dict(Counter(h)) for h in subhaps]", "[Counter(h) for h in subhaps]", "[dict(collections.Counter(h)) for h in subhaps]")
    ok = sg is not None and u(sg) in sg_forms and sh is not None and u(sh) == "[[haplotypes[i][pos] for i in thread_set] for pos in snps]"
    ctx.ob(pb.qual, "subinstance-genotype-is-parents-column", ok, pb.loc(), "a sub-instance's genotype is the allele count of the parent haplotypes' column" if ok else "subgeno/subhaps definitions changed")
    # the columns of a sub-instance are addressed in the coordinates of the matrix the haplotypes belong to: block-local
    # indices come from the block's matrix (the function's own matrix parameter), walked over the sub-matrix' positions --
    # in the solver and in the write-back alike
    for fq in (AL + ".phase_single_block", "whatshap.polyphase.reorder.integrate_sub_results"):
        f_ = ctx.prog.functions.get(fq)
        if f_ is None:
            continue
        sd = [v_ for _, v_ in util.assignments_to(f_.node, "snps") if isinstance(v_, ast.AST)]
        mats = [p_ for p_ in util.params_of(f_.node) if "matrix" in p_]
        okn = None
        if len(sd) == 1 and isinstance(sd[0], ast.ListComp) and len(sd[0].generators) == 1 and isinstance(sd[0].elt, ast.Call) and isinstance(sd[0].elt.func, ast.Attribute) and sd[0].elt.func.attr == "globalToLocal" and mats:
            conv = u(sd[0].elt.func.value)
            it_ = sd[0].generators[0].iter
            src = u(it_.func.value) if isinstance(it_, ast.Call) and isinstance(it_.func, ast.Attribute) and it_.func.attr == "getPositions" else None
            okn = conv == mats[0] and src is not None and src != conv and u(sd[0].elt.args[0]) == u(sd[0].generators[0].target)
            ctx.ob(f_.qual, "sub-instance-columns-in-block-coordinates", okn, f_.loc(util.stmt_of(sd[0])), "snps = block-local indices (by %s) of the sub-matrix' positions" % mats[0] if okn else "snps converts positions with `%s` while walking `%s`: the indices are not those of the block whose haplotypes are read and written back (the first columns of the block are used instead of the collapsed sites)" % (conv, src))
        else:
            ctx.ob(f_.qual, "sub-instance-columns-in-block-coordinates", None, f_.loc(), "cannot read how snps is computed")
    # genotype dictionaries = allele counts of the input genotype
    cg = ctx.func("whatshap.polyphase.create_genotype_list")
    inner = [n for n in walk_function(cg.node) if isinstance(n, ast.For) and isinstance(n.iter, ast.Call) and isinstance(n.iter.func, ast.Attribute) and n.iter.func.attr == "as_vector" and isinstance(n.target, ast.Name)]
    ok = None
    if len(inner) == 1:
        a = inner[0].target.id
        g = n_ = inner[0].iter.func.value
        outer = inner[0].parent
        SRC = "variant_table.genotypes_of(sample)"

        def seq_of(e):
            e = util.expand_single_defs(cg.node, e, keep=("variant_table", "sample"))
            return u(e)

        # the genotype whose alleles are counted is the k-th of the sample's input genotypes
        from_input = False
        if isinstance(outer, ast.For):
            if isinstance(g, ast.Name) and isinstance(outer.target, ast.Name) and g.id == outer.target.id and seq_of(outer.iter) == SRC:
                from_input = True
            elif isinstance(g, ast.Subscript) and isinstance(outer.target, ast.Name) and u(g.slice) == outer.target.id and seq_of(g.value) == SRC and seq_of(outer.iter) in ("range(len(%s))" % SRC,):
                from_input = True
        cnt = None
        for x in ast.walk(inner[0]):
            if isinstance(x, ast.AugAssign) and isinstance(x.op, ast.Add) and isinstance(x.target, ast.Subscript) and u(x.target.slice) == a and u(x.value) == "1":
                cnt = u(x.target.value)
            elif isinstance(x, ast.Assign) and len(x.targets) == 1 and isinstance(x.targets[0], ast.Subscript) and u(x.targets[0].slice) == a:
                d_ = u(x.targets[0].value)
                if u(x.value) in ("%s.get(%s, 0) + 1" % (d_, a), "1 + %s.get(%s, 0)" % (d_, a)):
                    cnt = d_
        appended = isinstance(outer, ast.For) and cnt is not None and any(isinstance(c, ast.Call) and u(c.func) == "genotype_list.append" and u(c.args[0]) == cnt for c in ast.walk(outer))
        fresh = isinstance(outer, ast.For) and cnt is not None and any(isinstance(b_, (ast.Assign, ast.AnnAssign)) and u(b_.targets[0] if isinstance(b_, ast.Assign) else b_.target) == cnt and u(b_.value) in ("dict()", "{}", "defaultdict(int)", "Counter()") for b_ in outer.body)
        ok = (from_input and appended and fresh) if cnt is not None else None
    ctx.ob(cg.qual, "genotype-dict-is-allele-count", ok, cg.loc(), "genotype_list[k] counts the alleles of the sample's input genotype k" if ok else "create_genotype_list no longer counts the alleles of genotype.as_vector()")
    psi = ctx.func(PP + ".phase_single_individual")
    gld = util.single_def(psi.node, "genotype_list")
    sc = [c for c in ctx.prog.calls_in(psi.node) if u(c.func) == "solve_polyphase_instance"]
    ok = gld is not None and u(gld) == "create_genotype_list(phasable_variant_table, sample)" and len(sc) == 1 and u(sc[0].args[1]) == "genotype_list"
    ctx.ob(psi.qual, "solver-gets-input-genotypes", ok, psi.loc(), "the solver receives the genotype list of the reduced input table" if ok else "solve_polyphase_instance does not receive create_genotype_list(table, sample)")
    sp = ctx.func(AL + ".solve_polyphase_instance")
    slices = [c for c in ctx.prog.calls_in(sp.node, include_nested=True) if u(c.func) in ("phase_single_block",)]
    ok = (None if not slices else (len(slices) == 1 and u(slices[0].args[2]) == "genotype_list[start:end]" and u(slices[0].args[1]) == "submatrix" and u(util.single_def(sp.node, "submatrix")) == "allele_matrix.extractInterval(start, end)"))
    ctx.ob(sp.qual, "block-gets-its-own-genotype-slice", ok, sp.loc(), "block [start, end) is phased with genotype_list[start:end] and the matrix interval [start, end)" if ok else "the genotype slice of a block does not match its matrix interval")


def r3(ctx):
    psi = ctx.func(PP + ".phase_single_individual")
    ap = util.single_def(psi.node, "accessible_pos")
    ok = ap is not None and u(ap) == "sorted(readset.get_positions())"
    ctx.ob(psi.qual, "positions-sorted", ok, psi.loc(), "accessible_pos = sorted positions of the read set" if ok else "accessible_pos is %s" % (u(ap) if ap is not None else "?"))
    cdefs = [(s, v) for s, v in util.assignments_to(psi.node, "cuts") if isinstance(v, ast.AST)]
    closed = any(u(v) == "cuts + [num_vars]" for s, v in cdefs)
    nv_ok = u(util.single_def(psi.node, "num_vars")) == "len(readset.get_positions())"
    st = [s for s in util.store_sites(psi.node) if s.kind == "subscript" and u(s.target.value) == "components" and isinstance(s.target.slice, ast.Subscript) and u(s.target.slice.value) == "accessible_pos" and isinstance(s.target.slice.slice, ast.Name)]
    ok = len(st) == 1
    closing_form = None

    def nearest_def(name, before):
        return util.nearest_preceding_def(psi.node, name, before)

    if ok:
        pv = st[0].target.slice.slice.id
        inner = st[0].stmt.parent
        outer = inner.parent if isinstance(inner, ast.For) else None
        ok = isinstance(inner, ast.For) and isinstance(outer, ast.For)
        if ok:
            rng = inner.iter
            ok = isinstance(rng, ast.Call) and u(rng.func) == "range" and len(rng.args) == 2 and u(inner.target) == pv
            if ok:
                lo, hi = u(rng.args[0]), u(rng.args[1])
                ivar = u(outer.target.elts[0]) if isinstance(outer.target, ast.Tuple) else u(outer.target)
                consecutive = False
                if u(outer.iter) in ("enumerate(cuts[:-1])", "range(len(cuts) - 1)") and (lo, hi) == ("cuts[%s]" % ivar, "cuts[%s + 1]" % ivar):
                    consecutive, closing_form = closed, "closed"
                elif isinstance(outer.iter, ast.Call) and u(outer.iter.func) in ("pairwise", "itertools.pairwise") and u(outer.iter.args[0]) == "cuts" and isinstance(outer.target, ast.Tuple) and [u(t) for t in outer.target.elts] == [lo, hi]:
                    consecutive, closing_form = closed, "closed"
                elif isinstance(outer.iter, ast.Call) and u(outer.iter.func) == "zip" and len(outer.iter.args) == 2 and isinstance(outer.target, ast.Tuple) and [u(t) for t in outer.target.elts] == [lo, hi]:
                    xs = []
                    for a_ in outer.iter.args:
                        if isinstance(a_, ast.Name) and a_.id != "cuts":
                            d_ = nearest_def(a_.id, outer)
                            a_ = d_ if d_ is not None else a_
                        xs.append(u(a_))
                    if xs in (["cuts[:-1]", "cuts[1:]"], ["cuts", "cuts[1:]"]):
                        consecutive, closing_form = closed, "closed"
                    elif xs == ["cuts", "cuts[1:] + [num_vars]"] and not closed:
                        consecutive, closing_form = True, "zip-closed"
                ok = consecutive and u(st[0].value) == "accessible_pos[%s]" % lo
    okc = nv_ok and (closed or closing_form == "zip-closed")
    ctx.ob(psi.qual, "cuts-closed-by-number-of-variants", okc, psi.loc(), "the cut list is closed with num_vars (%s), so the last interval ends at the last variant" % ("cuts + [num_vars]" if closed else "zip(cuts, cuts[1:] + [num_vars])") if okc else "cuts is not closed with num_vars")
    ctx.ob(psi.qual, "component-is-first-variant-of-its-interval", ok, psi.loc(st[0].stmt) if st else psi.loc(), "components[accessible_pos[pos]] = accessible_pos[cuts[i]] for pos in range(cuts[i], cuts[i+1])" if ok else "the interval -> component assignment changed")
    # no other store may replace the component of a variant: the only further keys are the shadow coordinates pos + 1, written
    # in the same iteration with the same value
    if len(st) == 1:
        others = [s_ for s_ in util.store_sites(psi.node) if s_.kind == "subscript" and u(s_.target.value) == "components" and s_ is not st[0] and s_.stmt is not st[0].stmt]
        for s_ in others:
            same_iter = getattr(s_.stmt, "parent", None) is st[0].stmt.parent
            key = u(s_.target.slice)
            k0 = u(st[0].target.slice)
            shadow_keys = ("%s + 1" % k0, "1 + %s" % k0)
            if same_iter and key in shadow_keys and s_.value is not None and u(s_.value) in (u(st[0].value), "components[%s]" % k0):
                oko, why = True, "the shadow coordinate pos + 1 gets the component of pos in the same iteration"
            elif same_iter and key in shadow_keys:
                oko, why = False, "the shadow coordinate pos + 1 gets `%s`, not the component of its variant (`%s`)" % (u(s_.value)[:50] if s_.value is not None else "?", u(st[0].value))
            elif s_.value is not None and "components[" in u(s_.value):
                oko, why = False, "`%s` copies one entry of components over another after the intervals were assigned: when two variants are adjacent the later variant's own phase set is replaced by its neighbour's, across a cut" % s_.text()[:70]
            else:
                oko, why = None, "cannot tell whether `%s` keeps every variant in its own interval" % s_.text()[:70]
            ctx.ob(psi.qual, "no-other-writer-of-components:%s" % key[:40], oko, psi.loc(s_.stmt), why)
    cc = [n for n in walk_function(psi.node) if isinstance(n, ast.Assign) and isinstance(n.value, ast.Call) and u(n.value.func) == "compute_cut_positions"]
    ok = (None if not cc else (len(cc) == 1 and u(cc[0].targets[0].elts[0]) == "cuts" and u(cc[0].value.args[0]) == "result.breakpoints"))
    ctx.ob(psi.qual, "cuts-from-the-solvers-breakpoints", ok, psi.loc(), "cuts are computed from the solver's breakpoints" if ok else "cuts do not come from compute_cut_positions(result.breakpoints, ...)")
    # super reads: haplotype i -> read i, alleles at accessible_pos[j]
    addv = [c for c in ctx.prog.calls_in(psi.node) if u(c.func) == "read.add_variant"]
    ok = (None if not addv else (len(addv) == 1 and [u(a) for a in addv[0].args[:2]] == ["accessible_pos[j]", "result.haplotypes[i][j]"]))
    lp = addv[0] if addv else None
    loops = []
    while lp is not None:
        if isinstance(lp, ast.For):
            loops.append(lp)
        lp = getattr(lp, "parent", None)
    ok = ok and len(loops) == 2 and u(loops[0].iter) == "phased_pos" and u(loops[1].iter) == "range(param.ploidy)"
    ok = ok and any(u(c.func) == "superreads.add" and u(c.args[0]) == "read" for c in ctx.prog.calls_in(psi.node))
    ctx.ob(psi.qual, "haplotype-i-becomes-super-read-i", ok, psi.loc(addv[0]) if addv else psi.loc(), "super-read i carries result.haplotypes[i][j] at accessible_pos[j]" if ok else "super reads are not built as haplotype i -> read i")
    pp = util.single_def(psi.node, "phased_pos")
    ok = pp is not None and u(pp) == "[i for i in range(num_vars) if -1 not in [h[i] for h in result.haplotypes]]"
    ctx.ob(psi.qual, "undetermined-positions-left-out", ok, psi.loc(), "positions with an undetermined allele (-1) in any haplotype are not written" if ok else "phased_pos definition changed")


def r4(ctx):
    # the shared writer: conservation, store/sample confinement, header
    c04.r1(ctx)
    c04.r2(ctx)
    c04.r3(ctx)
    c04.r5(ctx)
    run = ctx.func(PP + ".run_polyphase")
    w = [c for c in ctx.prog.calls_in(run.node) if u(c.func) == "PhasedVcfWriter"]
    kw = {k.arg: u(k.value) for k in w[0].keywords} if w else {}
    ok = (None if not w else (len(w) == 1 and kw.get("ploidy") == "ploidy" and kw.get("mav") == "mav" and kw.get("tag") == "tag"))
    # reader and writer agree on --only-snvs: the writer puts the phase of position p on the first record at p that it does not
    # skip; if it does not skip the indels the reader left out, an indel record receives the SNV's phase
    rd = [c for c in ctx.prog.calls_in(run.node) if u(c.func) == "VcfReader"]
    rkw = {k.arg: u(k.value) for c in rd for k in c.keywords}
    if w and "only_snvs" in rkw:
        oks = kw.get("only_snvs") == rkw["only_snvs"]
        ctx.ob(run.qual, "writer-skips-what-the-reader-skipped", oks, run.loc(w[0]), "PhasedVcfWriter gets only_snvs=%s like the reader" % rkw["only_snvs"] if oks else "the reader is restricted by only_snvs=%s but the writer is not: with --only-snvs an indel that shares its position with an SNV receives the SNV's phase and genotype" % rkw["only_snvs"])
    ctx.ob(run.qual, "writer-configured-with-ploidy-and-mav", ok, run.loc(w[0]) if w else run.loc(), "the shared writer is created with this run's ploidy, mav and tag" if ok else "PhasedVcfWriter is created with %s" % kw)


def r5(ctx):
    c16.r2(ctx)


def r6(ctx):
    """Reordering stage: haplotype alleles are moved between haplotypes, never duplicated or dropped."""
    RO = "whatshap.polyphase.reorder"
    pb = ctx.func(RO + ".permute_blocks")
    n = 0
    for st in util.store_sites(pb.node):
        if st.kind != "subscript" or st.value is None or not isinstance(st.value, ast.Subscript):
            continue
        tgt_root = util.root_name(st.target)
        src_root = util.root_name(st.value)
        if tgt_root not in util.params_of(pb.node) or src_root == tgt_root:
            if src_root == tgt_root and tgt_root in util.params_of(pb.node):
                n += 1
                ctx.ob(pb.qual, "permutation-reads-a-snapshot:%s" % tgt_root, False, pb.loc(st.stmt), "`%s` permutes %s in place while reading from %s itself: entries already overwritten are read again (an allele is duplicated, another lost)" % (st.text()[:70], tgt_root, tgt_root))
            continue
        d = util.single_def(pb.node, src_root)
        depth = util.copy_depth(d, tgt_root) if d is not None else None
        if depth is None and d is not None and tgt_root in {x.id for x in ast.walk(d) if isinstance(x, ast.Name)}:
            # a partial snapshot taken per position: the row T[k][:] / list(T[k]) for stores T[k][j] = snap[..], or the column
            # [h[k] for h in T] for stores T[j][k] = snap[..]; it must be taken outside the loop that performs the stores
            dst = util.stmt_of(d)
            inner = st.stmt
            while inner is not None and not isinstance(inner, ast.For):
                inner = getattr(inner, "parent", None)
            outside = inner is not None and not any(x is dst for x in ast.walk(inner)) and any(x is dst for x in ast.walk(getattr(inner, "parent", inner)))
            tsub = st.target
            idx = []
            while isinstance(tsub, ast.Subscript):
                idx.insert(0, u(tsub.slice))
                tsub = tsub.value
            okp = None
            if len(idx) == 2 and outside:
                row = util.copy_depth(d, "%s[%s]" % (tgt_root, idx[0]))
                if row is not None:
                    okp = row >= 1
                elif isinstance(d, ast.ListComp) and len(d.generators) == 1 and not d.generators[0].ifs and u(d.generators[0].iter) == tgt_root and u(d.elt) == "%s[%s]" % (u(d.generators[0].target), idx[1]):
                    okp = True
            n += 1
            ctx.ob(pb.qual, "permutation-reads-a-snapshot:%s" % tgt_root, okp, pb.loc(st.stmt), "%s is permuted in place from %s = %s, a per-position snapshot taken before the stores of that position" % (tgt_root, src_root, u(d)[:40]) if okp else ("the snapshot %s = %s shares storage with what is being overwritten" % (src_root, u(d)[:40]) if okp is False else "cannot tell whether %s = %s is a snapshot of what `%s` overwrites" % (src_root, u(d)[:40], st.text()[:50])))
            continue
        if depth is None:
            continue  # source is unrelated to the target
        need = util.subscript_depth(st.target)
        n += 1
        ok = depth >= need
        ctx.ob(pb.qual, "permutation-reads-a-snapshot:%s" % tgt_root, ok, pb.loc(st.stmt), "%s is permuted in place from %s = %s, a copy that shares no storage with it down to the written level (%d)" % (tgt_root, src_root, u(d)[:40], need) if ok else "%s = %s copies only %d level(s) of %s, but `%s` writes at level %d: the inner lists are shared, so the permutation reads entries it has already overwritten (alleles duplicated / lost within a block)" % (src_root, u(d)[:40], depth, tgt_root, st.text()[:60], need))
    ctx.require(n >= 2, "in-place permutation stores (threads, haplotypes) not found in permute_blocks")
    isr = ctx.func(RO + ".integrate_sub_results")
    icfg = ctx.cfg(isr)
    wb = [st for st in util.store_sites(isr.node) if st.kind == "subscript" and util.root_name(st.target) == "haplotypes" and util.subscript_depth(st.target) == 2]
    ctx.require(len(wb) == 1, "write-back haplotypes[hap][pos] = ... not found in integrate_sub_results")
    st = wb[0]
    # conditions between the head of the enclosing loop nest and the store (asserts before the nest do not count)
    tests = []
    anc = st.stmt.parent
    while anc is not None and anc is not isr.node:
        if isinstance(anc, (ast.If, ast.While, ast.Try, ast.With)):
            tests.append((type(anc).__name__.lower() + " " + u(getattr(anc, "test", anc))[:60], True))
        anc = getattr(anc, "parent", None)
    hap, pos = u(st.target.value.slice), u(st.target.slice)
    l_in = st.stmt.parent
    while l_in is not None and not isinstance(l_in, ast.For):
        l_in = getattr(l_in, "parent", None)
    l_out = getattr(l_in, "parent", None)
    while l_out is not None and not isinstance(l_out, ast.For):
        l_out = getattr(l_out, "parent", None)
    # an early `continue`/`break` inside the nest also makes the store conditional
    for lp_ in (l_in, l_out):
        if lp_ is not None:
            for x in ast.walk(lp_):
                if isinstance(x, (ast.Continue, ast.Break)) and (x.lineno, x.col_offset) < (st.stmt.lineno, st.stmt.col_offset):
                    tests.append(("%s at line %d" % (type(x).__name__.lower(), x.lineno), True))
    shape = isinstance(l_in, ast.For) and isinstance(l_out, ast.For) and {u(l_in.iter), u(l_out.iter)} == {"enumerate(thread_set)", "enumerate(snps)"}
    okv = False
    if shape:
        idx = {}
        for lp_ in (l_in, l_out):
            idx[u(lp_.target.elts[1])] = u(lp_.target.elts[0])
        okv = hap in idx and pos in idx and u(st.value) == "res.haplotypes[%s][%s]" % (idx[hap], idx[pos])
    ok = not tests and shape and okv
    ctx.ob(isr.qual, "sub-result-written-back-for-every-haplotype-and-position", ok, isr.loc(st.stmt), "haplotypes[hap][pos] = res.haplotypes[j][i] for every (snp, thread) pair of the sub-instance, unconditionally" if ok else ("the write-back is conditional (%s): where it is skipped the collapsed-region allele stays, and the column no longer carries the genotype's alleles" % tests if tests else "the write-back does not copy res.haplotypes[j][i] to haplotypes[thread_set[j]][snps[i]] for all pairs"))


# what a recursive sub-instance may get differently from its parent run (attribute of the copied parameter object -> why)
SUB_PARAM_OVERRIDES = {
    "ignore_phasings": "a sub-instance is phased from its reads alone",
    "threads": "sub-instances run inside a worker",
    "ploidy": "the sub-instance covers only the haplotypes threaded through the collapsed cluster",
}


def r7(ctx):
    """Sub-instances that resolve collapsed clusters are solved under the same genotype discipline as the run: the parameter
    object handed to the recursive solve_polyphase_instance is a copy of the caller's in which only the reviewed attributes
    are replaced.  Setting e.g. distrust_genotypes there lets a sub-solution leave its sub-genotypes, and the columns written
    back by integrate_sub_results no longer carry the input's allele counts."""
    fi = ctx.func("whatshap.polyphase.algorithm.phase_single_block")
    rec = [c for c in ctx.prog.calls_in(fi.node) if u(c.func) == "solve_polyphase_instance"]
    ctx.require(len(rec) >= 1, "recursive solve_polyphase_instance call not found in phase_single_block")
    n = 0
    for c in rec:
        b = util.bound_args(c, ctx.func("whatshap.polyphase.algorithm.solve_polyphase_instance").node, skip_self=False)
        parg = b.get("param") if b else None
        if not isinstance(parg, ast.Name):
            ctx.ob(fi.qual, "sub-instance-parameters", None, fi.loc(c), "cannot read which parameter object the sub-instance gets")
            continue
        d = util.single_def(fi.node, parg.id)
        is_copy = isinstance(d, ast.Call) and u(d.func) in ("copy", "copy.copy", "deepcopy", "copy.deepcopy", "dataclasses.replace", "replace") and d.args and u(d.args[0]) == util.params_of(fi.node)[4 if len(util.params_of(fi.node)) > 4 else -1]
        if isinstance(d, ast.Call) and u(d.func) in ("dataclasses.replace", "replace"):
            over = {k.arg for k in d.keywords if k.arg}
        else:
            over = set()
        over |= {s_.target.attr for s_ in util.store_sites(fi.node) if s_.kind == "attr" and isinstance(s_.target.value, ast.Name) and s_.target.value.id == parg.id}
        extra = sorted(over - set(SUB_PARAM_OVERRIDES))
        n += 1
        okc = isinstance(d, ast.Call) and u(d.func) in ("copy", "copy.copy", "deepcopy", "copy.deepcopy", "dataclasses.replace", "replace") and d.args and isinstance(d.args[0], ast.Name) and d.args[0].id in util.params_of(fi.node)
        ok = (None if not okc else not extra)
        ctx.ob(fi.qual, "sub-instance-parameters", ok, fi.loc(c), "the sub-instance runs with a copy of the caller's parameters in which only %s are replaced" % ", ".join(sorted(over)) if ok else ("the sub-instance's parameters replace %s: the sub-solution is no longer held to the run's genotype / cut discipline (reviewed overrides: %s)" % (", ".join(extra), ", ".join(sorted(SUB_PARAM_OVERRIDES))) if okc else "cannot read how `%s` derives from the caller's parameters" % parg.id))


RULES = [
    ("C15.R1", "only heterozygous, present genotypes reach the solver", r1),
    ("C15.R2", "genotype enforcement is reached; genotypes are the input's allele counts", r2),
    ("C15.R3", "phase sets are intervals named by their first variant", r3),
    ("C15.R4", "VCF pass-through: shared writer rules (C04.R1-R3, R5)", r4),
    ("C15.R5", "block results aggregated in block order for any thread count", r5),
    ("C15.R6", "reordering permutes from a storage-disjoint snapshot; sub-results written back completely", r6),
    ("C15.R7", "sub-instances run with the caller's parameters except for the reviewed overrides", r7),
]
# instance floors: about 60% of the instances confirmed by hand on the reference tree -- a rule that suddenly matches far fewer
# sites fails the run (exit 2); a clean-up that merges two sites into one does not
FLOORS = {"C15.R1": 3, "C15.R2": 5, "C15.R3": 3, "C15.R4": 22, "C15.R5": 3, "C15.R6": 1, "C15.R7": 1}
