"""C16 -- results depend on the input only (order-taint, pool order, total order on reads, no address order)."""
import ast
import os
import re

from sa.model import walk_function, AnalysisError, call_name
from sa.norm import u, atoms, guard_atoms
from sa import util, clangq
from sa.ordertaint import OrderTaint, sanitized, commutative_body, hint_kind

PROPERTY = "C16"
NEEDS_PYX = True

EXPLANATION = (
    "Decides: R1 order-taint -- every place where a set/frozenset whose elements are not integers (so its iteration order depends on PYTHONHASHSEED), or a list built from one, "
    "is iterated in an order-exposing way is either sanitised (sorted/min/max/sum/len/any/all/set algebra/membership), provably order-free (singleton, commutative loop body, "
    "definition does not reach), or a reviewed frozen instance whose sink is order-insensitive; anything else is reported with source, propagation and sink. Kinds flow through "
    "assignments, return values and arguments of resolved calls (whole package incl. .pyx). R2 pool order -- every definition of `results` reaching aggregate_results in "
    "solve_polyphase_instance is in ascending block id (enumerate order or sorted by block_id), handles are consumed in submission order, no unordered pool API is used anywhere. "
    "R3 total order on reads -- ReadSet's comparator (clang AST) ends in name and source_id tie-breakers, compares no pointers; ReadSet::add rejects duplicates of that pair; get_positions sorts. "
    "R4 -- no pointer-keyed container or pointer comparison in the C++ sources setup.py builds (address order is the only run-to-run variable on the C++ side)."
)
EXPLANATION += (
    " " + 'R8: no loop reads the variable that an earlier loop over the same collection left behind (it holds the last element of an iteration whose order, for the per-family sample lists, comes from a set).'
)
NOT_DECIDED = "Floating-point reproducibility, htslib's compression threads, and whether a reviewed order-insensitive sink is insensitive for every input (those instances are listed with their reason)."
ASSUMPTIONS = [
    "hash(int) and hash of tuples of ints do not depend on PYTHONHASHSEED; str / object hashes do",
    "dicts iterate in insertion order",
    "libstdc++ std::hash of integers and strings is unseeded",
]

NOT_DEMONSTRATED = (
    "the order only decides (a) the first-use numbering of NumericSampleIds and the index order of Pedigree.add_individual, which are labels used consistently "
    "(C05.R1 zips the same family sequence with the solver's result; read_comparator_t never looks at the sample id) and (b) the key insertion order of per-sample result "
    "dicts that are read by key; a sweep of 12-16 hash seeds on trio / quartet inputs for genotype (and polyphase) gave identical files. "
    "Not demonstrated for these commands, therefore not a finding (the one demonstrated consequence, the row order of phase --changed-genotype-list with --use-ped-samples, was repaired in 41cc603)"
)

# (function, how, source text) -> reason; each confirmed by reading
REVIEWED = {
    ("whatshap.cli.genotype.run_genotype", "for", "samples"): "per-sample results are stored under the sample's own key (set_genotypes_of / set_genotype_likelihoods_of); " + NOT_DEMONSTRATED,
    ("whatshap.cli.phase.setup_families", "for", "samples"): "family member order follows `samples`; since fix 41cc603 phase passes a list in VCF or sorted PED order, only genotype still passes a frozenset; " + NOT_DEMONSTRATED,
    ("whatshap.cli.polyphase.run_polyphase", "for", "samples"): "each sample is phased independently and its result stored under components[sample]/superreads[sample]; the writer sets every target call by sample name; " + NOT_DEMONSTRATED,
    ("whatshap.cli.polyphasegenetic.run_polyphasegenetic", "for", "samples"): "each sample is phased independently and stored under its own key",
    ("whatshap.cli.polyphasegenetic.determine_pedigree", "for", "samples"): "validation loop (raises for an offending sample) and construction of dicts keyed by the sample that are only read by key",
    ("whatshap.cli.split.process_haplotag_list_file", "comprehension", "selected_reads"): "builds a name->haplotype dict that is only used for lookups by read name",
    ("whatshap.graph.ComponentFinder.__init__", "comprehension", "values"): "builds the value->node dict that find/merge only access by key",
    ("whatshap.cli.haplotag.prepare_haplotag_information", "for", "reads_to_consider"): "body adds integer qualities into haplotype_costs[phaseset][hap] and marks names as processed: commutative",
}


# reviewed sinks that are order-insensitive only for the callers that were read: (callee, parameter) -> callers allowed to pass a
# hash-ordered value.  whatshap phase lost its frozenset in 41cc603 because the family order decided the row order of
# --changed-genotype-list (and the first-use numbering of sample ids the solver sees)
REVIEWED_CALLERS = {
    ("whatshap.cli.phase.setup_families", "samples"): {"whatshap.cli.genotype.run_genotype"},
}


def _reaching_set_def(ctx, fi, inst, ot):
    """For a plain Name source: does a definition that makes it a set actually reach the use?"""
    src = inst["src"]
    if not isinstance(src, ast.Name):
        return True
    cfg = ctx.cfg(fi)
    try:
        use = cfg.node_containing(inst["site"])
    except AnalysisError:
        return True
    k = ot.fk[fi.qual]
    defs = []
    for stmt, val in util.assignments_to(fi.node, src.id):
        if isinstance(stmt, ast.stmt) and id(stmt) in cfg.by_stmt:
            defs.append((cfg.node_of(stmt), val))
    if not defs:
        return True  # parameter
    def_nodes = {n for n, _ in defs}
    reach_any = False
    for n, val in defs:
        is_set = isinstance(val, ast.AST) and k.kind(val) is not None
        if not is_set:
            continue
        p = cfg.find_path(n, use, avoid_nodes=def_nodes - {n}, start_after=(n == use))
        if p is not None:
            reach_any = True
    # parameter kind reaches if the entry reaches the use without passing a definition
    if src.id in util.params_of(fi.node) and ot.param_kinds.get(fi.qual, {}).get(src.id):
        if cfg.find_path(cfg.entry, use, avoid_nodes=def_nodes) is not None:
            reach_any = True
    return reach_any


def r1(ctx):
    mods = None
    ot = OrderTaint(ctx.prog, mods)
    n = 0
    for fi in sorted(ot.funcs, key=lambda f: f.qual):
        if fi.module.name.endswith("#pxd") or fi.module.name in ("whatshap.testhelpers", "whatshap.polyphase.plots"):
            continue
        for inst in ot.instances(fi):
            kind, elem = inst["kind"]
            srctxt = u(inst["src"])
            if elem in ("?", "?unset"):
                h = hint_kind(srctxt)
                if h != "?":
                    elem = h
            if elem == "int":
                continue  # integer hashes do not depend on the seed
            n += 1
            ctx.analysed_functions.add(fi.qual)
            ctx.analysed_files.add(fi.module.relpath)
            why = None
            s = sanitized(inst["node"])
            if s:
                why = "sanitised by %s" % s
            if why is None and not _reaching_set_def(ctx, fi, inst, ot):
                why = "no set-valued definition of %s reaches this use" % srctxt
            if why is None:
                try:
                    cfg = ctx.cfg(fi)
                    ga = guard_atoms(cfg, cfg.node_containing(inst["site"]))
                    if ("1 == len(%s)" % srctxt, True) in ga:
                        why = "guarded by len(%s) == 1: a singleton has one order" % srctxt
                except AnalysisError:
                    pass
            if why is None and inst["how"] == "for" and commutative_body(inst["node"]):
                why = "loop body only accumulates commutatively / stores under the loop variable"
            if why is None:
                r = REVIEWED.get((fi.qual, inst["how"], srctxt))
                if r:
                    why = "reviewed: " + r
            ok = why is not None
            ctx.ob(
                fi.qual,
                "order:%s:%s" % (inst["how"], srctxt[:60]),
                ok,
                fi.loc(inst["site"]),
                "%s over %s (%s of %s) -- %s" % (inst["how"], srctxt, kind, elem, why) if ok else "hash-seed dependent order escapes: %s over `%s` (a %s of %s elements) reaches an order-sensitive use without sorted(); the result can differ between runs with different PYTHONHASHSEED" % (inst["how"], srctxt, kind, elem),
            )
    for (callee, param), allowed in sorted(REVIEWED_CALLERS.items()):
        for _, (cfi, call, arg, kd) in sorted(ot.param_sources.get((callee, param), {}).items(), key=lambda kv: (kv[1][0].qual, getattr(kv[1][1], "lineno", 0))):
            if kd[1] == "int":
                continue
            if not _reaching_set_def(ctx, cfi, {"src": arg, "site": call}, ot):
                continue
            ok = cfi.qual in allowed
            ctx.ob(cfi.qual, "hash-ordered-argument:%s.%s" % (callee.split(".")[-1], param), ok, cfi.loc(call), "%s passes a hash-ordered %s as `%s` of %s: a reviewed caller (results are stored and read by sample name)" % (cfi.qual.split(".")[-1], kd[0], param, callee.split(".")[-1]) if ok else "%s passes `%s`, a hash-ordered %s, as `%s` of %s, which iterates it to build the family lists: the order of the phased individuals (sample numbering, row order of per-sample outputs) changes with PYTHONHASHSEED" % (cfi.qual.split(".")[-1], u(arg), kd[0], param, callee.split(".")[-1]))
    ctx.note("order-taint scanned %d functions; %d non-integer set iterations classified" % (len(ot.funcs), n))
    # positive control: the analysis must see at least the known set-valued sources
    known = [q for q in ("whatshap.cli.haplotag.compute_shared_samples", "whatshap.cli.haplotag.compute_variant_file_samples_to_use") if ot.returns.get(q, (None,))[0] == "set"]
    ctx.require(len(known) == 2, "order-taint no longer recognises the set-valued sample helpers of haplotag (summaries broken)")


def r2(ctx):
    fi = ctx.func("whatshap.polyphase.algorithm.solve_polyphase_instance")
    cfg = ctx.cfg(fi)
    agg = [c for c in ctx.prog.calls_in(fi.node) if u(c.func) == "aggregate_results"]
    ctx.require(len(agg) == 1 and agg[0].args, "aggregate_results(results, ...) not found")
    rname = u(agg[0].args[0])
    defs = [(s, v) for s, v in util.assignments_to(fi.node, rname)]
    ctx.require(len(defs) >= 2, "expected at least two definitions of `%s`" % rname)
    for s, v in defs:
        if isinstance(v, ast.List) and not v.elts:
            # filled by append inside an enumerate loop
            apps = [c for c in ctx.prog.calls_in(fi.node) if isinstance(c.func, ast.Attribute) and c.func.attr == "append" and u(c.func.value) == rname]
            ok = bool(apps)
            for a in apps:
                lp = a
                while lp is not None and not isinstance(lp, ast.For):
                    lp = getattr(lp, "parent", None)
                it = lp.iter if lp is not None else None
                ok = ok and it is not None and isinstance(it, ast.Call) and u(it.func) == "enumerate" and isinstance(lp.target, ast.Tuple) and isinstance(a.args[0], ast.Call) and a.args[0].args and u(a.args[0].args[0]) == u(lp.target.elts[0])
                # the loop has no continue/break that could skip or reorder
                ok = ok and not util.lexical_loop_exits(lp)
            ctx.ob(fi.qual, "results-order:single-thread", ok, fi.loc(s), "single-threaded results are appended in enumerate (ascending block id) order, one per block" if ok else "single-threaded results are not appended once per block in enumerate order")
        elif isinstance(v, ast.Call) and u(v.func) == "sorted":
            key = [k.value for k in v.keywords if k.arg == "key"]
            ok = bool(key) and isinstance(key[0], ast.Lambda) and u(key[0].body).endswith(".block_id") and not any(k.arg == "reverse" for k in v.keywords)
            ctx.ob(fi.qual, "results-order:pool", ok, fi.loc(s), "pool results are re-sorted by block_id before aggregation" if ok else "pool results are not sorted by block_id: %s" % u(v))
        elif [c for c in ctx.prog.calls_in(fi.node) if isinstance(c.func, ast.Attribute) and c.func.attr == "sort" and u(c.func.value) == rname and cfg.dominates(cfg.node_of(s), cfg.node_containing(c))]:
            # collected in any order, then sorted in place before it is used
            srt = [c for c in ctx.prog.calls_in(fi.node) if isinstance(c.func, ast.Attribute) and c.func.attr == "sort" and u(c.func.value) == rname and cfg.dominates(cfg.node_of(s), cfg.node_containing(c))]
            key = [k.value for k in srt[0].keywords if k.arg == "key"]
            ok = len(srt) == 1 and not srt[0].args and bool(key) and isinstance(key[0], ast.Lambda) and u(key[0].body) == "%s.block_id" % key[0].args.args[0].arg and not any(k.arg == "reverse" for k in srt[0].keywords)
            sn, an = cfg.node_containing(srt[0]), cfg.node_containing(agg[0])
            # nothing touches the list between the sort and the aggregation, and the sort is not skipped
            touch = {cfg.node_containing(c) for c in ctx.prog.calls_in(fi.node) if isinstance(c.func, ast.Attribute) and u(c.func.value) == rname and c.func.attr in ("append", "extend", "insert", "reverse", "pop", "remove", "sort") and c is not srt[0]} | {cfg.node_of(s2) for s2, v2 in defs if s2 is not s}
            ok = ok and cfg.find_path(cfg.node_of(s), an, avoid_nodes=[sn]) is None and all(not (cfg.find_path(sn, t_) is not None and cfg.find_path(t_, an) is not None) for t_ in touch)
            ctx.ob(fi.qual, "results-order:pool", ok, fi.loc(s), "pool results are sorted by block_id (in place) before aggregation" if ok else "pool results are not sorted by block_id before aggregation: %s" % u(srt[0]))
        else:
            ctx.ob(fi.qual, "results-order:%s" % u(v)[:40], False, fi.loc(s), "`%s = %s` reaches aggregate_results without an ascending-block-id guarantee" % (rname, u(v)[:80]))
    # handles consumed in submission order
    gets = [n for n in walk_function(fi.node) if isinstance(n, (ast.ListComp, ast.GeneratorExp)) and isinstance(n.elt, ast.Call) and isinstance(n.elt.func, ast.Attribute) and n.elt.func.attr == "get"]
    ok = (None if not gets else (len(gets) == 1 and u(gets[0].generators[0].iter) == "process_results" and u(gets[0].elt.func.value) == u(gets[0].generators[0].target)))
    ctx.ob(fi.qual, "handles-consumed-in-submission-order", ok, fi.loc(gets[0]) if gets else fi.loc(), "every apply_async handle is waited for, in submission order" if ok else "pool handles are not collected as [res.get() for res in process_results]")
    # block id travels with the job
    mt = ctx.func("whatshap.polyphase.algorithm.phase_single_block_mt")
    params = util.params_of(mt.node)
    subs = [c for c in ctx.prog.calls_in(fi.node, include_nested=True) if isinstance(c.func, ast.Attribute) and c.func.attr == "apply_async"]
    ok = (None if not subs else (len(subs) == 1 and u(subs[0].args[0]) == "phase_single_block_mt" and isinstance(subs[0].args[1], ast.Tuple)))
    if ok:
        tup = subs[0].args[1].elts
        ok = (None if not tup else (len(tup) == len(params) and all((not isinstance(a, ast.Name)) or a.id == p for a, p in zip(tup, params))))
    ctx.ob(fi.qual, "job-arguments-match-parameters", ok, fi.loc(subs[0]) if subs else fi.loc(), "the argument tuple of apply_async lines up with phase_single_block_mt's parameters (block_id travels with its interval)" if ok else "apply_async argument tuple does not line up with phase_single_block_mt%s" % (tuple(params),))
    # sibling agreement: the single-threaded call and the pool wrapper hand phase_single_block the same job
    import copy

    class Subst(ast.NodeTransformer):
        def __init__(self, env):
            self.env = env

        def visit_Name(self, node):
            if isinstance(node.ctx, ast.Load) and node.id in self.env:
                return copy.deepcopy(self.env[node.id])
            return node

    def inline(fnode, expr, extra_env=None):
        """Replace local names that have a single definition in ``fnode`` (and parameters bound in extra_env)."""
        env = dict(extra_env or {})
        for _ in range(3):
            changed = False
            for n in list(ast.walk(expr)):
                if isinstance(n, ast.Name) and isinstance(n.ctx, ast.Load) and n.id not in env:
                    d = util.single_def(fnode, n.id)
                    if d is not None and not isinstance(d, ast.Call) or (d is not None and isinstance(d, ast.Call) and u(d.func).endswith("extractInterval")):
                        env[n.id] = d
                        changed = True
                    elif d is not None and isinstance(d, ast.IfExp):
                        env[n.id] = d
                        changed = True
            expr = Subst(env).visit(copy.deepcopy(expr))
            if not changed:
                break
        return expr

    st_calls = [c for c in ctx.prog.calls_in(fi.node, include_nested=True) if u(c.func) == "phase_single_block"]
    mt_inner = [c for c in ctx.prog.calls_in(mt.node) if u(c.func) == "phase_single_block"]
    ok = (None if not st_calls else (len(st_calls) == 1 and len(mt_inner) == 1 and len(subs) == 1 and isinstance(subs[0].args[1], ast.Tuple)))
    detail = "call sites not found"
    if ok:
        bind = dict(zip(params, subs[0].args[1].elts))
        st_args = [u(inline(fi.node, copy.deepcopy(a))) for a in st_calls[0].args[:4]]
        mt_args = [u(inline(fi.node, inline(mt.node, copy.deepcopy(a), bind))) for a in mt_inner[0].args[:4]]
        ok = st_args == mt_args
        detail = "single-threaded: %s; pool: %s" % (st_args, mt_args)
    ctx.ob(fi.qual, "single-thread-and-pool-build-the-same-job", ok, fi.loc(subs[0]) if subs else fi.loc(), "for a block the pool worker calls phase_single_block with the same (block id, matrix interval, genotype slice, pre-phasing interval) as the single-threaded branch" if ok else "the pool branch and the single-threaded branch hand phase_single_block different inputs, so the result depends on --threads: " + detail)
    # nowhere in the package: unordered pool APIs
    bad = []
    for f2 in ctx.prog.functions.values():
        if f2.module.kind not in ("py", "pyx"):
            continue
        for c in ctx.prog.calls_in(f2.node, include_nested=True):
            nm = (call_name(c) or "").split(".")[-1]
            if nm in ("imap_unordered", "as_completed"):
                bad.append((f2, c))
    ctx.ob("whatshap", "no-unordered-pool-api", not bad, bad[0][0].loc(bad[0][1]) if bad else "whatshap/", "no imap_unordered / as_completed anywhere in the package" if not bad else "unordered pool API %s used in %s" % (u(bad[0][1].func), bad[0][0].qual))


def r3(ctx):
    objs = clangq.dump(ctx.prog, "src/readset.cpp", "read_comparator_t")
    rec = [o for o in objs if o.get("kind") == "CXXRecordDecl" and o.get("name") == "read_comparator_t" and o.get("completeDefinition")]
    ctx.require(rec, "struct read_comparator_t not found by clang")
    ops = [m for m in clangq.find(rec[0], "CXXMethodDecl") if m.get("name") == "operator()"]
    ctx.require(len(ops) == 1, "read_comparator_t::operator() not found")
    op = ops[0]
    ctx.analysed_files.add("src/readset.h")
    rets = clangq.find(op, "ReturnStmt")
    ctx.require(len(rets) >= 4, "comparator has fewer than 4 return statements")
    # no pointer comparison anywhere in the comparator
    ptr_cmp = []
    for b in clangq.find(op, "BinaryOperator"):
        if b.get("opcode") in ("<", ">", "<=", ">="):
            for x in b.get("inner", []):
                if clangq.is_pointer_type(clangq.qual(clangq.strip_casts(x))) or clangq.is_pointer_type(clangq.qual(x)):
                    ptr_cmp.append(b)
    ctx.ob("ReadSet::read_comparator_t::operator()", "no-address-comparison", not ptr_cmp, "src/readset.h:%s" % clangq.line_of(op), "the comparator never orders by pointer value" if not ptr_cmp else "the comparator compares pointers: %s" % clangq.expr_text(ptr_cmp[0]))
    # single-assignment locals (`const int pos1 = r1->firstPosition();`) are expanded to their initialisers
    env_c = clangq.local_inits(op)
    texts = [clangq.expr_text(r["inner"][0], env_c) if r.get("inner") else "" for r in rets]
    last = texts[-1]
    ok_last = "getSourceID" in last and "<" in last
    name_cmp = any("compare" in clangq.expr_text(d) for d in clangq.find(op, "VarDecl")) or any("compare" in t for t in texts)
    pos_cmp = any("firstPosition" in t and "<" in t for t in texts)
    ctx.ob("ReadSet::read_comparator_t::operator()", "position-first", pos_cmp, "src/readset.h:%s" % clangq.line_of(op), "reads are ordered by first position first" if pos_cmp else "no `firstPosition() < firstPosition()` return")
    ctx.ob("ReadSet::read_comparator_t::operator()", "tie-breakers-name-then-source-id", ok_last and name_cmp, "src/readset.h:%s" % clangq.line_of(rets[-1]), "ties are broken by name (compare) and finally by source id: a total order on distinct (name, source_id)" if ok_last and name_cmp else "the comparator does not end in name / source_id tie-breakers (last return: %s)" % last)
    # duplicates of (name, source_id) are rejected, so the order is total on the set's reads
    objs2 = clangq.dump(ctx.prog, "src/readset.cpp", "ReadSet::add")
    adds = [m for o in objs2 for m in clangq.find(o, "CXXMethodDecl") if m.get("name") == "add" and any(x.get("kind") == "CompoundStmt" for x in m.get("inner", []))]
    ctx.require(adds, "ReadSet::add definition not found")
    throws = clangq.find(adds[0], "CXXThrowExpr")
    finds = [c for c in clangq.find(adds[0], "CXXMemberCallExpr") if clangq.callee_name(c) == "find"]
    ok = bool(throws) and bool(finds)
    ctx.ob("ReadSet::add", "duplicates-rejected", ok, "src/readset.cpp:%s" % clangq.line_of(adds[0]), "add() throws when (name, source_id) is already present" if ok else "ReadSet::add no longer rejects duplicate (name, source_id)")
    objs3 = clangq.dump(ctx.prog, "src/readset.cpp", "ReadSet::get_positions")
    gp = [m for o in objs3 for m in clangq.find(o, "CXXMethodDecl") if m.get("name") == "get_positions" and any(x.get("kind") == "CompoundStmt" for x in m.get("inner", []))]
    ctx.require(gp, "ReadSet::get_positions definition not found")
    sorts = [c for c in clangq.find(gp[0], "CallExpr") if clangq.callee_name(c) == "sort"]
    ctx.ob("ReadSet::get_positions", "positions-sorted", bool(sorts), "src/readset.cpp:%s" % clangq.line_of(gp[0]), "positions collected from the unordered set are sorted before they are returned" if sorts else "get_positions returns unordered_set iteration order")
    objs4 = clangq.dump(ctx.prog, "src/readset.cpp", "ReadSet::sort")
    st = [m for o in objs4 for m in clangq.find(o, "CXXMethodDecl") if m.get("name") == "sort" and any(x.get("kind") == "CompoundStmt" for x in m.get("inner", []))]
    ctx.require(st, "ReadSet::sort definition not found")
    uses = [c for c in clangq.find(st[0], "CallExpr") if clangq.callee_name(c) == "sort" and "read_comparator_t" in json_text(c)]
    ctx.ob("ReadSet::sort", "sorts-with-the-comparator", bool(uses), "src/readset.cpp:%s" % clangq.line_of(st[0]), "ReadSet::sort uses std::sort with read_comparator_t" if uses else "ReadSet::sort does not sort with read_comparator_t")


def json_text(n):
    import json

    return json.dumps(n)


CONTAINER_RE = re.compile(r"\b(unordered_map|unordered_set|unordered_multimap|unordered_multiset|map|set|multimap|multiset|priority_queue)\s*<")


def _template_first_arg(s, i):
    """s[i] is just after '<'; return the text of the first template argument."""
    depth = 0
    j = i
    while j < len(s):
        c = s[j]
        if c in "<([":
            depth += 1
        elif c in ">)]":
            if depth == 0:
                return s[i:j]
            depth -= 1
        elif c == "," and depth == 0:
            return s[i:j]
        j += 1
    return s[i:j]


def r4(ctx):
    files = set()
    for rel in ctx.prog.cpp_sources:
        files.add(rel)
        d = os.path.dirname(rel)
    for d in sorted({os.path.dirname(r) for r in ctx.prog.cpp_sources}):
        full = os.path.join(ctx.prog.root, d)
        if os.path.isdir(full):
            for fn in sorted(os.listdir(full)):
                if fn.endswith((".h", ".hpp")):
                    files.add(os.path.join(d, fn))
    n_decl = 0
    bad = []
    for rel in sorted(files):
        try:
            src = open(ctx.prog.real(rel), encoding="utf-8", errors="replace").read()
        except OSError:
            raise AnalysisError("setup.py names %s but it cannot be read" % rel)
        ctx.analysed_files.add(rel)
        # strip comments and string literals
        code = re.sub(r"//[^\n]*", "", src)
        code = re.sub(r"/\*.*?\*/", lambda m: "\n" * m.group(0).count("\n"), code, flags=re.S)
        code = re.sub(r'"(?:\\.|[^"\\\n])*"', '""', code)
        for m in CONTAINER_RE.finditer(code):
            pre = code[max(0, m.start() - 1) : m.start()]
            if pre and (pre.isalnum() or pre == "_"):
                continue
            arg = _template_first_arg(code, m.end()).strip()
            if not arg or arg.startswith("#"):
                continue
            n_decl += 1
            if arg.endswith("*") or re.search(r"\*\s*(const)?\s*$", arg):
                line = code.count("\n", 0, m.start()) + 1
                bad.append((rel, line, "%s<%s,...>" % (m.group(1), arg)))
    ctx.ob("src/", "no-pointer-keyed-containers", not bad, "%s:%s" % (bad[0][0], bad[0][1]) if bad else "src/", "%d associative container / priority queue declarations in %d C++ files, none keyed or ordered by a pointer" % (n_decl, len(files)) if not bad else "container keyed by an address: %s (iteration / ordering then depends on the allocator)" % bad[0][2], ["%s:%s %s" % b for b in bad])
    ctx.require(n_decl >= 40, "fewer than 40 container declarations seen in the C++ sources (%d): the scan is broken" % n_decl)
    # comparators handed to std::sort / containers: checked with clang on the one comparator that orders reads (R3);
    # lexical scan for '<' between two identifiers that were declared as pointers is not attempted -- stated in DESIGN.md


# attribute stores on a function's own parameters (objects shared with the caller); each confirmed by reading
REVIEWED_PARAM_STORES = {
    ("whatshap.__main__.NiceFormatter.format", "record.msg"): "logging only: decorates the message of a log record",
    ("whatshap.cli.haplotag.main", "args.reference"): "normalises the argparse namespace once, before the run starts",
    ("whatshap.cli.phase.main", "args.reference"): "normalises the argparse namespace once, before the run starts",
    ("whatshap.cli.phase.validate", "args.row_limit"): "fills an argparse default once, before the run starts",
    ("whatshap.vcf.PhasedVcfWriter._set_PS", "call.phased"): "the per-call phase encoding (C04.R2), not shared state",
}


def r5(ctx):
    """Shared objects are not mutated by the code that is run per sample / per block / per chromosome:
    a store to an attribute of a parameter changes the caller's object, so later iterations (whose order may
    depend on the hash seed or on the thread schedule) see a different configuration."""
    n = 0
    for q, fi in sorted(ctx.prog.functions.items()):
        if fi.module.kind not in ("py", "pyx") or fi.module.name.endswith("#pxd") or fi.module.name in ("whatshap.testhelpers",):
            continue
        params = set(util.params_of(fi.node)) - {"self", "cls"}
        for st in util.store_sites(fi.node):
            if st.kind not in ("attr", "del-attr") or st.root not in params:
                continue
            if st.root == "args" and fi.name in ("main", "validate"):
                # argparse namespace clean-up, once, before the command runs (idiom of every cli module)
                n += 1
                continue
            n += 1
            key = (q, u(st.target))
            reason = REVIEWED_PARAM_STORES.get(key)
            ctx.analysed_functions.add(q)
            ctx.ob(q, "param-store:%s" % u(st.target), reason is not None, fi.loc(st.stmt), "%s -- reviewed: %s" % (st.text()[:60], reason) if reason else "%s mutates an object owned by the caller (parameter `%s`): every later sample / block / chromosome sees the changed value, so the result depends on the visiting order" % (st.text()[:60], st.root))
    ctx.require(n >= 4, "fewer than 4 parameter attribute stores seen (%d): scan broken" % n)
    # sub-instances of polyphase work on a private copy of the parameters
    pb = ctx.func("whatshap.polyphase.algorithm.phase_single_block")
    sp = util.single_def(pb.node, "sub_param")
    ok = sp is not None and u(sp) in ("copy(param)", "copy.copy(param)", "deepcopy(param)", "copy.deepcopy(param)")
    stores = [s for s in util.store_sites(pb.node) if s.kind == "attr" and s.root == "sub_param"]
    ctx.ob(pb.qual, "sub-instance-parameters-are-a-copy", ok and len(stores) >= 1, pb.loc(), "sub-instances modify sub_param = copy(param), never param itself" if ok else "sub_param is not a copy of param")


def _table_mutators(ctx):
    """VariantTable methods that store through self, directly or through another method of the table"""
    vt = {q.rsplit(".", 1)[1]: f for q, f in ctx.prog.functions.items() if q.startswith("whatshap.vcf.VariantTable.") and q.count(".") == 3}
    mutating = {n_ for n_, f in vt.items() if n_ != "__init__" and any(util.root_name(s_.target) == "self" for s_ in util.store_sites(f.node))}
    grew = True
    while grew:
        grew = False
        for n_, f in vt.items():
            if n_ not in mutating and n_ != "__init__" and any(isinstance(c_.func, ast.Attribute) and u(c_.func.value) == "self" and c_.func.attr in mutating for c_ in ctx.prog.calls_in(f.node)):
                mutating.add(n_)
                grew = True
    return mutating


def r7(ctx):
    """A per-sample (per-iteration) working copy of the chromosome's variant table that is edited must share nothing with the
    table the other iterations read: `copy(table)` shares the row lists, so rows deleted for one sample are gone for the next,
    and which sample comes first depends on the hash seed (frozenset of sample names)."""
    muts = _table_mutators(ctx)
    n = 0
    for q, fi in sorted(ctx.prog.functions.items()):
        if not q.startswith("whatshap.cli.") or fi.module.kind != "py":
            continue
        for st in walk_function(fi.node):
            if not (isinstance(st, ast.Assign) and len(st.targets) == 1 and isinstance(st.targets[0], ast.Name) and isinstance(st.value, ast.Call) and u(st.value.func) in ("copy", "copy.copy", "deepcopy", "copy.deepcopy") and len(st.value.args) == 1):
                continue
            name = st.targets[0].id
            edited = [c for c in ctx.prog.calls_in(fi.node) if isinstance(c.func, ast.Attribute) and u(c.func.value) == name and c.func.attr in muts]
            if not edited:
                continue
            n += 1
            deep = u(st.value.func).endswith("deepcopy")
            ctx.analysed_functions.add(q)
            ctx.ob(q, "edited-table-copy-is-deep:%s" % name, deep, fi.loc(st), "%s = deepcopy(%s) is edited (%s) without touching the original" % (name, u(st.value.args[0]), edited[0].func.attr) if deep else "%s = %s is a shallow copy that is then edited with %s(): the row lists are shared, so the table of the following samples shrinks, and the sample order depends on PYTHONHASHSEED" % (name, u(st.value), edited[0].func.attr))
    ctx.require(n >= 1, "no edited copy of a variant table found in whatshap.cli (scan broken)")


def r6(ctx):
    """Repetition: an output that the C++ side opens in append mode must be truncated by the Python side first."""
    src = open(ctx.prog.real("src/caller.cpp"), encoding="utf-8", errors="replace").read()
    ctx.analysed_files.add("src/caller.cpp")
    appends = re.search(r"\.open\s*\([^;]*ios::app", src) is not None
    fi = ctx.func("whatshap.cli.learn.run_learn")
    cfg = ctx.cfg(fi)
    truncs = [c for c in ctx.prog.calls_in(fi.node) if u(c.func) == "open" and len(c.args) >= 2 and u(c.args[0]) == "output" and isinstance(c.args[1], ast.Constant) and str(c.args[1].value).startswith("w")]
    users = [c for c in ctx.prog.calls_in(fi.node) if isinstance(c.func, ast.Attribute) and c.func.attr in ("add_read", "final_pop")]
    if not appends:
        ctx.ob(fi.qual, "learn-output-not-appended", True, fi.loc(), "the C++ caller does not open its output in append mode")
        return
    ok = bool(truncs) and bool(users) and all(cfg.dominates(cfg.node_containing(truncs[0]), cfg.node_containing(c)) for c in users)
    loops = [n for n in walk_function(fi.node) if isinstance(n, ast.For) and truncs and any(x is truncs[0] for x in ast.walk(n))]
    ok = ok and not loops
    ctx.ob(fi.qual, "learn-output-truncated-before-append", ok, fi.loc(truncs[0]) if truncs else fi.loc(), "src/caller.cpp appends to the output file; run_learn truncates it once before the first append, so a repeated run gives the same file" if ok else "src/caller.cpp opens the output with ios::app but run_learn does not truncate it first: running the command twice with the same -o doubles the file")


def _stale_loop_variable_reads(fnode):
    """[(earlier loop, later loop, Name node)]: a later loop over the SAME collection (same iterable expression, not nested in
    the earlier one) reads the loop variable of the earlier loop, and nothing rebinds that name in between.  What is read is
    whichever element the earlier loop ended on."""
    order = util.preorder_index(fnode)
    loops = [x for x in walk_function(fnode) if isinstance(x, ast.For)]
    comp_bound = set()
    for x in ast.walk(fnode):
        if isinstance(x, (ast.ListComp, ast.SetComp, ast.DictComp, ast.GeneratorExp)):
            for g in x.generators:
                comp_bound |= {id(t) for t in ast.walk(g.target) if isinstance(t, ast.Name)}
    stores = {}
    for x in walk_function(fnode):
        if isinstance(x, ast.Name) and isinstance(x.ctx, ast.Store) and id(x) not in comp_bound:
            stores.setdefault(x.id, []).append(x)

    def bound_by_enclosing_comprehension(x):
        p_ = getattr(x, "parent", None)
        while p_ is not None and p_ is not fnode:
            if isinstance(p_, (ast.ListComp, ast.SetComp, ast.DictComp, ast.GeneratorExp)) and any(isinstance(t, ast.Name) and t.id == x.id for g in p_.generators for t in ast.walk(g.target)):
                return True
            if isinstance(p_, ast.Lambda) and any(a.arg == x.id for a in p_.args.args):
                return True
            p_ = getattr(p_, "parent", None)
        return False

    out = []
    for L1 in loops:
        in1 = {id(x) for x in ast.walk(L1)}
        for L2 in loops:
            if L2 is L1 or id(L2) in in1 or order[id(L2)] < order[id(L1)] or u(L2.iter) != u(L1.iter) or any(y is L1 for y in ast.walk(L2)):
                continue
            for t in [t for t in ast.walk(L1.target) if isinstance(t, ast.Name)]:
                for x in ast.walk(L2):
                    if isinstance(x, ast.Name) and x.id == t.id and isinstance(x.ctx, ast.Load) and not bound_by_enclosing_comprehension(x):
                        prev = [s_ for s_ in stores.get(t.id, []) if order.get(id(s_), 1 << 30) < order.get(id(x), -1)]
                        if prev and max(prev, key=lambda s_: order[id(s_)]) is t:
                            out.append((L1, L2, x))
    return out


def r8(ctx):
    """A loop over a collection must not read the variable an EARLIER loop over the same collection left behind: it holds the
    last element of that iteration -- for the per-family lists of the pedigree commands, whose order comes from a set of
    sample names, the element the hash order happened to end on -- and every iteration of the later loop uses it."""
    from sa.model import set_parents

    # the detector must see the construct it is looking for (zero instances are expected in the package)
    probe = ast.parse("def f(family, t):\n    for sample in family:\n        t.add(sample)\n    for s in family:\n        g = t.genotypes_of(sample)\n        h = [sample for sample in g]\n").body[0]
    set_parents(probe)
    ctx.require(len(_stale_loop_variable_reads(probe)) == 1, "the stale-loop-variable detector no longer recognises its own example")
    n = 0
    for q, fi in sorted(ctx.prog.functions.items()):
        if fi.module.kind not in ("py", "pyx") or not q.startswith("whatshap."):
            continue
        n += 1
        for L1, L2, x in _stale_loop_variable_reads(fi.node):
            ctx.ob(fi.qual, "loop-reads-the-variable-of-an-earlier-loop:%s" % x.id, False, fi.loc(x), "the loop over `%s` at line %s reads `%s`, the variable of the earlier loop over the same collection (line %s): every iteration uses the element that loop ended on, which for a collection ordered by a set of names depends on the hash seed" % (u(L2.iter)[:40], L2.lineno, x.id, L1.lineno))
    ctx.ob("whatshap", "no-loop-reads-an-earlier-loops-variable", True, "whatshap/", "%d functions scanned: sibling loops over one collection each use their own loop variable" % n)


RULES = [
    ("C16.R1", "order-taint: hash-ordered iteration must not reach an order-sensitive use", r1),
    ("C16.R2", "polyphase pool results aggregated in block order", r2),
    ("C16.R3", "total order on reads; duplicates rejected; positions sorted (clang)", r3),
    ("C16.R4", "no pointer-keyed containers in the C++ sources", r4),
    ("C16.R5", "shared configuration objects are not mutated per sample/block", r5),
    ("C16.R6", "append-mode outputs are truncated first (repetition)", r6),
    ("C16.R7", "edited per-sample copies of the variant table are deep copies", r7),
    ("C16.R8", "sibling loops over one collection do not read each other's loop variable", r8),
]
# instance floors: about 60% of the instances confirmed by hand on the reference tree -- a rule that suddenly matches far fewer
# sites fails the run (exit 2); a clean-up that merges two sites into one does not
FLOORS = {"C16.R1": 6, "C16.R2": 3, "C16.R3": 3, "C16.R4": 1, "C16.R5": 1, "C16.R6": 1, "C16.R7": 1, "C16.R8": 1}
