"""Rule families shared by several properties (and swept over the whole package in the thorough tier)."""
import ast

from sa.model import walk_function
from sa.norm import u, atoms, guard_atoms
from sa import util

# ---------------------------------------------------------------------------------------------
# none-before-hom: Genotype::is_homozygous() is false for the missing genotype, so a site that
# uses it to separate homozygous from heterozygous calls must first exclude the missing genotype.
# Instances without a syntactic is_none() guard were each confirmed by reading and are frozen here
# with the reason why a missing genotype cannot reach them.
REVIEWED_HOM_SITES = {
    ("whatshap.cli.haplotag.get_variant_information", "gt"): "dominated by `phase is None -> continue`: VcfReader produces a phase only for calls that carry a GT tuple, a fully missing genotype has none",
    ("whatshap.vcf.VariantTable.phased_blocks_as_reads", "genotype"): "dominated by the ploidy test `len(genotype.as_vector()) != target_ploidy -> continue`; the missing genotype has ploidy 0",
    ("whatshap.vcf.PhasedVcfWriter.write", "gt_type"): "the result is only used under `pos in phases`; phases exist only for positions the solver saw, and variants with a missing genotype are removed before phasing (C05.R2 / C15.R1)",
    ("whatshap.vcf.PhasedVcfWriter.write", "genotypes[pos]"): "genotypes[pos] is built from a super-read allele pair and is never the missing genotype",
    ("whatshap.cli.haplotagphase.run_haplotagphase", "genotype"): "feeds compute_votes, which indexes allele_to_id built from the same genotype's as_vector(); reads carry no allele for a call without alleles (restricted_genotypes)",
    ("whatshap.polyphase.variantselection.compute_phasable_variants", "gt1"): "dominated by `gt1.is_none() or gt2.is_none() -> continue`",
}


# what the reviewed test is used FOR (not how the statement is spelled): a reviewed instance is one use of the receiver,
# not every use of it in the function.  Kinds: "skip" (decides a continue / is part of such a condition), "flag:<name>"
# (its value, possibly negated, is assigned / added to that name), "filter" (comprehension filter)
REVIEWED_HOM_USES = {
    ("whatshap.cli.haplotag.get_variant_information", "gt"): {"guarded-append:variants", "filter:variants"},
    ("whatshap.vcf.VariantTable.phased_blocks_as_reads", "genotype"): {"skip"},
    ("whatshap.vcf.PhasedVcfWriter.write", "gt_type"): {"flag:is_het"},
    ("whatshap.vcf.PhasedVcfWriter.write", "genotypes[pos]"): {"flag:is_het"},
    ("whatshap.cli.haplotagphase.run_haplotagphase", "genotype"): {"flag:homozygous", "flag:homozygous_number"},
    ("whatshap.polyphase.variantselection.compute_phasable_variants", "gt1"): {"skip", "branch"},
    ("whatshap.cli.compare.collect_common_variants", "gt"): {"filter:het_variants"},
    ("whatshap.cli.compare.run_compare", "gt"): {"filter:het_variants"},
}


# A receiver that is an entry of a local table (possibly a field of a record kept in the table) is judged by what the
# function stores into that table: (function, text of the stored value) -> the reviewed receiver it stands for
REVIEWED_HOM_SOURCES = {
    ("whatshap.vcf.PhasedVcfWriter.write", "Genotype(list(phasing))"): "genotypes[pos]",
    ("whatshap.vcf.PhasedVcfWriter.write", "genotype_code(call['GT'])"): "gt_type",
}

# The review of the two receivers in PhasedVcfWriter.write says what the result may be used for: it decides nothing unless
# the solver produced a phase for the position.  A flag named is_het is one way to carry it there; testing it directly in
# the condition that also tests membership in the phase table is the other.
REVIEWED_HOM_USES_WITH = {
    "whatshap.vcf.PhasedVcfWriter.write": "pos in <phase table>",
}


def table_entry_sources(fi, expr):
    """Texts of the values the function stores into the table entry that ``expr`` reads (T[a][b], T[a][b].field, with
    locals standing for sub-tables resolved); None if ``expr`` is not such a lookup or a store cannot be read."""
    # tables are named by the local they are created under
    tables = {t_.id for s_ in walk_function(fi.node) if isinstance(s_, (ast.Assign, ast.AnnAssign)) and s_.value is not None and isinstance(s_.value, (ast.Dict, ast.List, ast.Call)) and not getattr(s_.value, "keys", None) and not getattr(s_.value, "elts", None) and (not isinstance(s_.value, ast.Call) or u(s_.value.func) in ("dict", "list", "defaultdict", "collections.defaultdict", "OrderedDict")) for t_ in (s_.targets if isinstance(s_, ast.Assign) else [s_.target]) if isinstance(t_, ast.Name)}

    def _g(e_):
        e_ = util.expand_single_defs(fi.node, e_, keep=tables)
        for x_ in list(ast.walk(e_)):
            if isinstance(x_, ast.Call) and isinstance(x_.func, ast.Attribute) and x_.func.attr == "get" and len(x_.args) == 1 and not x_.keywords:
                x_.__class__ = ast.Subscript
                x_.value, x_.slice, x_.ctx = x_.func.value, x_.args[0], ast.Load()
                x_._fields = ast.Subscript._fields
        return e_

    e = _g(expr)
    fields = []
    while isinstance(e, ast.Attribute):
        fields.append(e.attr)
        e = e.value
    depth = 0
    while isinstance(e, ast.Subscript):
        depth += 1
        e = e.value
    if not isinstance(e, ast.Name) or depth == 0:
        return None
    root = e.id
    out = []
    for st in util.store_sites(fi.node):
        if st.kind != "subscript":
            continue
        t = _g(st.target)
        d = 0
        while isinstance(t, ast.Subscript):
            d += 1
            t = t.value
        if not (isinstance(t, ast.Name) and t.id == root):
            continue
        if d < depth:
            if isinstance(st.value, (ast.Dict, ast.Call)) and not getattr(st.value, "keys", None) and not getattr(st.value, "args", None) and not getattr(st.value, "keywords", None):
                continue  # an empty sub-table
            return None
        if d > depth:
            return None
        v = st.value
        for f in reversed(fields):
            if isinstance(v, ast.Tuple):
                # a record written as a plain tuple (or normalised to one): the field's index comes from the record class
                idx = set()
                for c in ast.walk(fi.module.tree):
                    if isinstance(c, ast.ClassDef):
                        names = [b.target.id for b in c.body if isinstance(b, ast.AnnAssign) and isinstance(b.target, ast.Name)]
                        if f in names and len(names) == len(v.elts):
                            idx.add(names.index(f))
                if len(idx) != 1:
                    return None
                v = v.elts[idx.pop()]
                continue
            if not isinstance(v, ast.Call):
                return None
            kw = [k.value for k in v.keywords if k.arg == f]
            if kw:
                v = kw[0]
                continue
            cls = [c for c in ast.walk(fi.module.tree) if isinstance(c, ast.ClassDef) and c.name == u(v.func)]
            names = [b.target.id for b in cls[0].body if isinstance(b, ast.AnnAssign) and isinstance(b.target, ast.Name)] if len(cls) == 1 else []
            if f in names and names.index(f) < len(v.args):
                v = v.args[names.index(f)]
            else:
                return None
        out.append(u(v))
    return out or None


def hom_use_kind(n):
    """What an `X.is_homozygous()` call is used for (see REVIEWED_HOM_USES)."""
    stmt = util.stmt_of(n)
    # comprehension filter
    p = getattr(n, "parent", None)
    child = n
    while p is not None and p is not stmt:
        if isinstance(p, ast.comprehension) and any(child is x or any(child is y for y in ast.walk(x)) for x in p.ifs):
            tgt = util.root_name(stmt.targets[0]) if isinstance(stmt, ast.Assign) else "?"
            return "filter:%s" % tgt
        child, p = p, getattr(p, "parent", None)
    if isinstance(stmt, ast.If) and any(x is n for x in ast.walk(stmt.test)):
        body_kinds = {type(x).__name__ for x in stmt.body}
        if body_kinds <= {"Continue"} or (not stmt.body and False):
            return "skip"
        apps = [c for c in ast.walk(stmt) if isinstance(c, ast.Call) and isinstance(c.func, ast.Attribute) and c.func.attr in ("append", "add")]
        if len(stmt.body) == 1 and apps and not stmt.orelse:
            return "guarded-append:%s" % util.root_name(apps[0].func.value)
        # an if whose other branch is the continue
        if stmt.orelse and {type(x).__name__ for x in stmt.orelse} <= {"Continue"}:
            return "skip"
        return "branch"
    if isinstance(stmt, (ast.Assign, ast.AnnAssign)):
        t = stmt.targets[0] if isinstance(stmt, ast.Assign) else stmt.target
        return "flag:%s" % util.root_name(t)
    if isinstance(stmt, ast.AugAssign):
        return "flag:%s" % util.root_name(stmt.target)
    return "other"


def _short_circuit_atoms(node):
    """Facts that hold whenever ``node`` is evaluated because of short-circuit and/or,
    conditional expressions and comprehension filters that enclose it."""
    out = set()
    child = node
    n = getattr(node, "parent", None)
    while n is not None and not isinstance(n, (ast.stmt,)):
        if isinstance(n, ast.BoolOp):
            idx = None
            for i, v in enumerate(n.values):
                if v is child:
                    idx = i
            if idx:
                for v in n.values[:idx]:
                    out |= atoms(v, isinstance(n.op, ast.And))
        elif isinstance(n, ast.IfExp):
            if child is n.body:
                out |= atoms(n.test, True)
            elif child is n.orelse:
                out |= atoms(n.test, False)
        elif isinstance(n, ast.comprehension):
            if child in n.ifs:
                for v in n.ifs[: n.ifs.index(child)]:
                    out |= atoms(v, True)
        elif isinstance(n, (ast.ListComp, ast.SetComp, ast.GeneratorExp, ast.DictComp)):
            if child is getattr(n, "elt", None) or child is getattr(n, "key", None) or child is getattr(n, "value", None):
                for g in n.generators:
                    for v in g.ifs:
                        out |= atoms(v, True)
        child = n
        n = getattr(n, "parent", None)
    return out


def hom_sites(fnode):
    return [n for n in walk_function(fnode) if isinstance(n, ast.Call) and isinstance(n.func, ast.Attribute) and n.func.attr == "is_homozygous" and not n.args]


def check_none_before_hom(ctx, fi):
    """One obligation per `X.is_homozygous()` call in function ``fi``."""
    sites = hom_sites(fi.node)
    if not sites:
        return 0
    cfg = ctx.cfg(fi)
    for n in sites:
        recv = u(n.func.value)
        facts = set(_short_circuit_atoms(n))
        try:
            facts |= guard_atoms(cfg, cfg.node_containing(n))
        except Exception:
            pass
        guarded = ("%s.is_none()" % recv, False) in facts
        # an `else` after `if X.is_none()` / `elif not X.is_homozygous()` chain is covered by the CFG atoms
        reason = None
        if guarded:
            reason = "dominated by `not %s.is_none()`" % recv
        else:
            # the receiver may be a local that stands for reviewed expressions (final_gt = gt_type / genotypes[pos])
            origins = [recv]
            if isinstance(n.func.value, ast.Name) and (fi.qual, recv) not in REVIEWED_HOM_SITES:
                ds = [v for s_, v in util.assignments_to(fi.node, recv) if isinstance(v, ast.AST)]
                if ds:
                    origins = [u(v) for v in ds]

            def canon(txt):
                """receiver spelling made canonical: single-definition locals resolved, d.get(k) read as d[k]"""
                try:
                    e_ = ast.parse(txt, mode="eval").body
                except SyntaxError:
                    return txt
                e_ = util.expand_single_defs(fi.node, e_)
                for x_ in list(ast.walk(e_)):
                    if isinstance(x_, ast.Call) and isinstance(x_.func, ast.Attribute) and x_.func.attr == "get" and len(x_.args) == 1 and not x_.keywords:
                        x_.__class__ = ast.Subscript
                        x_.value, x_.slice, x_.ctx = x_.func.value, x_.args[0], ast.Load()
                        x_._fields = ast.Subscript._fields
                try:
                    return u(e_)
                except Exception:
                    return txt

            by_canon = {canon(k_[1]): k_[1] for k_ in REVIEWED_HOM_SITES if k_[0] == fi.qual}
            origins = [by_canon.get(canon(o), o) if (fi.qual, o) not in REVIEWED_HOM_SITES else o for o in origins]
            # an entry of a local table stands for what the function stores there
            import os as _os
            for i_, o in enumerate(origins):
                if (fi.qual, o) in REVIEWED_HOM_SITES:
                    continue
                try:
                    srcs = table_entry_sources(fi, ast.parse(o, mode="eval").body)
                except SyntaxError:
                    srcs = None
                if _os.environ.get("VERIF_DEBUG"): print("DBG srcs", o, srcs, [(u(st.target), u(st.value)[:80]) for st in util.store_sites(fi.node) if st.kind == "subscript"])
                for (q_, src_), key_ in REVIEWED_HOM_SOURCES.items():
                    if q_ == fi.qual and canon(o) == canon(src_):
                        origins[i_] = key_
                if (fi.qual, origins[i_]) in REVIEWED_HOM_SITES:
                    continue
                if srcs and all((fi.qual, s_) in REVIEWED_HOM_SOURCES for s_ in srcs) and len({REVIEWED_HOM_SOURCES[(fi.qual, s_)] for s_ in srcs}) == 1:
                    origins[i_] = REVIEWED_HOM_SOURCES[(fi.qual, srcs[0])]
            reasons = [REVIEWED_HOM_SITES.get((fi.qual, o)) for o in origins]
            if _os.environ.get("VERIF_DEBUG"): print("DBG hom", fi.qual, recv, origins, reasons, hom_use_kind(n))
            reason = "; ".join(sorted(set(reasons))) if reasons and all(r is not None for r in reasons) else None
            if reason is not None:
                # a reviewed instance is one USE of the receiver, not every use of it in the function
                kind = hom_use_kind(n)
                for o in origins:
                    allowed = REVIEWED_HOM_USES.get((fi.qual, o))
                    if allowed is not None and kind not in allowed:
                        w_ = REVIEWED_HOM_USES_WITH.get(fi.qual)
                        st_ = util.stmt_of(n)
                        if not (w_ is not None and kind == "branch" and isinstance(st_, ast.If) and any(isinstance(c_, ast.Compare) and len(c_.ops) == 1 and isinstance(c_.ops[0], (ast.In, ast.NotIn)) and u(c_.left) == "pos" and u(c_.comparators[0]) != "components" for c_ in ast.walk(st_.test))):
                            reason = None
        ok = reason is not None
        ctx.ob(
            fi.qual,
            "hom-test:%s" % recv,
            ok,
            fi.loc(n),
            "%s.is_homozygous() %s" % (recv, ("-- " + reason) if ok else "separates homozygous from heterozygous without excluding the missing genotype first (Genotype::is_homozygous() is false for ./.), so a missing call is treated as heterozygous"),
        )
    return len(sites)


# ---------------------------------------------------------------------------------------------
# string/list kinds for haplotype operands (C11.R1)

def infer_str_kinds(fnode, param_kinds=None):
    """Flow-insensitive kinds for local names: 'str', 'list[str]' or None (unknown)."""
    env = dict(param_kinds or {})

    def kind(e):
        if isinstance(e, ast.Constant) and isinstance(e.value, str):
            return "str"
        if isinstance(e, ast.JoinedStr):
            return "str"
        if isinstance(e, ast.Name):
            return env.get(e.id)
        if isinstance(e, ast.Call):
            f = e.func
            if isinstance(f, ast.Attribute) and f.attr == "join":
                return "str"
            if isinstance(f, ast.Name) and f.id in ("str", "complement", "switch_encoding"):
                return "str"
            if isinstance(f, ast.Name) and f.id in ("list", "tuple", "sorted") and e.args:
                return kind(e.args[0])
            if isinstance(f, ast.Name) and f.id == "permutations" and e.args:
                k = kind(e.args[0])
                return "iter[list[str]]" if k == "list[str]" else None
        if isinstance(e, (ast.List, ast.Tuple)):
            ks = {kind(x) for x in e.elts}
            if ks == {"str"}:
                return "list[str]"
            if not e.elts:
                return "list[?]"
            return None
        if isinstance(e, ast.ListComp):
            return "list[str]" if kind_in_comp(e) == "str" else None
        if isinstance(e, ast.Subscript):
            k = kind(e.value)
            if isinstance(e.slice, ast.Slice):
                return k
            if k == "list[str]":
                return "str"
            if k == "str":
                return "str"
            return None
        if isinstance(e, ast.BinOp) and isinstance(e.op, ast.Add):
            a, b = kind(e.left), kind(e.right)
            if a == b:
                return a
        return None

    def kind_in_comp(c):
        saved = dict(env)
        for g in c.generators:
            k = kind(g.iter)
            if isinstance(g.target, ast.Name):
                if k == "list[str]":
                    env[g.target.id] = "str"
                elif k == "iter[list[str]]":
                    env[g.target.id] = "list[str]"
        r = kind(c.elt)
        env.clear()
        env.update(saved)
        return r

    for _ in range(4):
        for n in walk_function(fnode):
            if isinstance(n, ast.Assign) and len(n.targets) == 1 and isinstance(n.targets[0], ast.Name):
                k = kind(n.value)
                name = n.targets[0].id
                if k == "list[?]":
                    env.setdefault(name, "list[?]")
                elif k:
                    if env.get(name) in (None, "list[?]") or env.get(name) == k:
                        env[name] = k
                    else:
                        env[name] = "conflict"
            elif isinstance(n, ast.Expr) and isinstance(n.value, ast.Call) and isinstance(n.value.func, ast.Attribute) and n.value.func.attr == "append" and isinstance(n.value.func.value, ast.Name) and n.value.args:
                name = n.value.func.value.id
                k = kind(n.value.args[0])
                if env.get(name) == "list[?]" and k == "str":
                    env[name] = "list[str]"
            elif isinstance(n, ast.For) and isinstance(n.target, ast.Name):
                k = kind(n.iter)
                if k == "list[str]":
                    env[n.target.id] = "str"
                elif k == "iter[list[str]]":
                    env[n.target.id] = "list[str]"
    return env, kind

REVIEWED_HOM_SITES.update(
    {
        ("whatshap.cli.compare.collect_common_variants", "gt"): "a missing genotype has no complete phase and is dropped by compare()'s phase-present filter (C11.R4) before any error count; only compare's informational heterozygous count includes it",
        ("whatshap.cli.compare.run_compare", "gt"): "feeds only the informational 'VARIANT COUNTS (heterozygous / all)' lines and het_variants0; no error count of C11 depends on it",
    }
)


class _Unknown(Exception):
    pass


def _tt_eval(e, env):
    if isinstance(e, ast.Constant) and isinstance(e.value, (bool, int)) and e.value in (0, 1, True, False):
        return bool(e.value)
    if isinstance(e, ast.BoolOp):
        vals = [_tt_eval(v, env) for v in e.values]
        return all(vals) if isinstance(e.op, ast.And) else any(vals)
    if isinstance(e, ast.UnaryOp) and isinstance(e.op, ast.Not):
        return not _tt_eval(e.operand, env)
    if isinstance(e, ast.IfExp):
        return _tt_eval(e.body, env) if _tt_eval(e.test, env) else _tt_eval(e.orelse, env)
    if isinstance(e, ast.Call) and u(e.func) == "bool" and len(e.args) == 1:
        return _tt_eval(e.args[0], env)
    t = u(e)
    if t in env:
        return env[t]
    a = atoms(e, True)
    if len(a) == 1:
        (ct, pol), = a
        if ct in env:
            return env[ct] if pol else not env[ct]
    raise _Unknown(t)


def _tt_block(stmts, env):
    """Interpret a block of if / constant-assignment / return statements over boolean atoms.
    Returns ('return', value) or ('fall', None)."""
    for s in stmts:
        if isinstance(s, ast.Expr) and isinstance(s.value, ast.Constant):
            continue  # docstring
        if isinstance(s, ast.Pass):
            continue
        if isinstance(s, ast.If):
            r = _tt_block(s.body if _tt_eval(s.test, env) else s.orelse, env)
            if r[0] == "return":
                return r
            continue
        if isinstance(s, ast.Assign) and len(s.targets) == 1 and isinstance(s.targets[0], ast.Name):
            env[s.targets[0].id] = _tt_eval(s.value, env)
            continue
        if isinstance(s, ast.Return) and s.value is not None:
            return ("return", _tt_eval(s.value, env))
        raise _Unknown("statement `%s`" % u(s)[:60])
    return ("fall", None)


def boolean_truth_table(fnode, atom_texts):
    """Truth table {valuation tuple: returned bool} of a function that is a pure decision over the given
    boolean atoms (if / elif / else, constant or boolean-expression assignments, return).  The function's
    statements are interpreted abstractly over every valuation; nothing of whatshap is executed.
    Raises ValueError naming the construct when the body is not of that shape."""
    import itertools

    table = {}
    for vals in itertools.product((False, True), repeat=len(atom_texts)):
        env = dict(zip(atom_texts, vals))
        try:
            r = _tt_block(fnode.body, env)
        except _Unknown as e:
            raise ValueError(str(e))
        if r[0] != "return":
            raise ValueError("falls off the end")
        table[vals] = r[1]
    return table


ID_ATTRS = ("id", "block_id")


def _truth_leaves(e):
    """Operands whose *truthiness* decides a test (through and / or / not / bool())."""
    if isinstance(e, ast.BoolOp):
        for v in e.values:
            for x in _truth_leaves(v):
                yield x
    elif isinstance(e, ast.UnaryOp) and isinstance(e.op, ast.Not):
        for x in _truth_leaves(e.operand):
            yield x
    elif isinstance(e, ast.Call) and u(e.func) == "bool" and len(e.args) == 1:
        for x in _truth_leaves(e.args[0]):
            yield x
    else:
        yield e


def id_truthiness_tests(fnode, id_attrs=ID_ATTRS):
    """Tests that use a phase-set / block id as a boolean.  Ids are integers and 0 is a legal id (VcfReader gives
    block id 0 to '|'-phased calls without PS), so `if x.id:` confuses phase set 0 with "no phase set".
    Returns [(node, text)]."""
    out = []
    for n in walk_function(fnode):
        tests = []
        if isinstance(n, (ast.If, ast.While, ast.IfExp, ast.Assert)):
            tests.append(n.test)
        elif isinstance(n, ast.comprehension):
            tests.extend(n.ifs)
        elif isinstance(n, ast.BoolOp):
            tests.append(n)
        for t in tests:
            for leaf in _truth_leaves(t):
                if isinstance(leaf, ast.Attribute) and leaf.attr in id_attrs:
                    out.append((leaf, u(leaf)))
                elif isinstance(leaf, ast.Name) and leaf.id in id_attrs:
                    out.append((leaf, leaf.id))
    seen, uniq = set(), []
    for node, txt in out:
        if id(node) not in seen:
            seen.add(id(node))
            uniq.append((node, txt))
    return uniq


def tt_eval(expr, env):
    """Value of a boolean expression under a valuation of its atoms (keys: canonical atom texts of sa.norm.atoms).
    Raises ValueError naming the atom that is not in the valuation."""
    try:
        return _tt_eval(expr, env)
    except _Unknown as e:
        raise ValueError(str(e))


def path_decision_table(cfg, atom_texts):
    """{valuation: set of returned booleans} of a function that decides a boolean from the given atoms, computed from
    the path summaries of its CFG (sa.pathfx): shape-independent (if/elif chains, guard clauses, one boolean
    expression, temporaries).  Atom texts are given AFTER substitution of locals by their defining expressions.
    Raises ValueError when a path tests something outside the atoms or returns a non-boolean expression."""
    import itertools
    from sa import pathfx

    table = {}
    sums = pathfx.summaries(cfg)
    if not sums:
        raise ValueError("no feasible path")
    idx = {t: i for i, t in enumerate(atom_texts)}
    for ps in sums:
        conds = []
        for t, pol in ps.atoms:
            if t.startswith("<iter>"):
                continue
            if t in idx:
                conds.append((None, t, pol))
            else:
                # a compound atom (e.g. the negation of a conjunction): evaluated under each valuation
                try:
                    conds.append((ast.parse(t, mode="eval").body, t, pol))
                except SyntaxError:
                    raise ValueError("a path tests `%s`" % t)
        rets = ps.returns()
        if len(rets) != 1 or rets[0][1] is None:
            raise ValueError("a path does not end in `return <value>`")
        rexpr = rets[0][1]
        for vals in itertools.product((False, True), repeat=len(atom_texts)):
            env = dict(zip(atom_texts, vals))
            consistent = True
            for e_, t, pol in conds:
                v = env[t] if e_ is None else tt_eval(e_, env)
                if v != pol:
                    consistent = False
                    break
            if consistent:
                table.setdefault(vals, set()).add(tt_eval(rexpr, env))
    return table


def dispatch_table(expr, selector):
    """{constant: text of the chosen value, '<else>': ...} for an expression that picks a value by a selector:
    `A if sel == 'x' else B`, `{'x': A, 'y': B}[sel]`, `{'x': A}.get(sel, B)` (nested conditionals are followed).
    None when the expression is not of that kind."""
    if isinstance(expr, ast.IfExp):
        at = atoms(expr.test, True)
        if len(at) != 1:
            return None
        (t, pol), = at
        const = None
        for pat in ("%s == " + selector, selector + " == %s"):
            pass
        import re

        m = re.fullmatch(r"(.+) == (.+)", t)
        if not m:
            return None
        a, b = m.group(1), m.group(2)
        other = a if b == selector else (b if a == selector else None)
        if other is None:
            return None
        try:
            const = ast.literal_eval(other)
        except Exception:
            return None
        yes, no = (expr.body, expr.orelse) if pol else (expr.orelse, expr.body)
        out = {const: u(yes)}
        rest = dispatch_table(no, selector)
        if rest is None:
            out["<else>"] = u(no)
        else:
            for k, v in rest.items():
                out.setdefault(k, v)
        return out
    if isinstance(expr, ast.Subscript) and isinstance(expr.value, ast.Dict) and u(expr.slice) == selector:
        if all(isinstance(k, ast.Constant) for k in expr.value.keys):
            return {k.value: u(v) for k, v in zip(expr.value.keys, expr.value.values)}
    if isinstance(expr, ast.Call) and isinstance(expr.func, ast.Attribute) and expr.func.attr == "get" and isinstance(expr.func.value, ast.Dict) and expr.args and u(expr.args[0]) == selector:
        d = expr.func.value
        if all(isinstance(k, ast.Constant) for k in d.keys):
            out = {k.value: u(v) for k, v in zip(d.keys, d.values)}
            out["<else>"] = u(expr.args[1]) if len(expr.args) > 1 else "None"
            return out
    return None


def path_implies(path_atoms, base, formula):
    """Do the branch facts of a path imply ``formula``?  ``base`` lists canonical atom texts; every valuation of them that is
    consistent with the path's atoms (compound atoms such as the negation of a conjunction are evaluated; atoms that
    mention anything else are ignored) must satisfy ``formula(valuation dict)``."""
    import itertools

    conds = []
    for t, pol in path_atoms:
        if t.startswith("<"):
            continue
        if t in base:
            conds.append((None, t, pol))
            continue
        try:
            e = ast.parse(t, mode="eval").body
        except SyntaxError:
            continue
        conds.append((e, t, pol))
    any_consistent = False
    for vals in itertools.product((False, True), repeat=len(base)):
        env = dict(zip(base, vals))
        ok = True
        for e, t, pol in conds:
            try:
                v = env[t] if e is None else _tt_eval(e, env)
            except _Unknown:
                continue  # talks about something else
            if v != pol:
                ok = False
                break
        if not ok:
            continue
        any_consistent = True
        if not formula(env):
            return False
    return any_consistent
