"""C13 -- unphase accepts every VCF, removes all phase information and nothing else."""
import ast

from sa.model import walk_function, AnalysisError
from sa.norm import u, guard_atoms, atoms
from sa import util

PROPERTY = "C13"
NEEDS_PYX = False
MOD = "whatshap.cli.unphase"

EXPLANATION = (
    "Decides four structural clauses of C13 on whatshap/cli/unphase.py for every input at once: "
    "R1 totality -- every read of a pysam genotype tuple is guarded against the shapes the property quantifies over "
    "(no GT key, unknown ploidy, missing alleles); R2 -- the removed tag set covers every per-call phase carrier the VCF decoders "
    "in whatshap/vcf.py consult, is removed from header and every record, and the phased flag is cleared for every call; "
    "R3 -- the effect summary of unphase (all attribute/subscript stores, deletes and mutator calls) contains only the phase removal; "
    "R4 -- every record read reaches the writer (no early exit, no skipping path); "
    "R5 -- every reader-to-writer copy of VCF records in the package makes sure the writer's header knows each record's contig "
    "(a VCF need not declare its contigs; pysam refuses a record whose contig its header copy lacks)."
)
NOT_DECIDED = "Idempotence and unphase(phase(x)) = unphase(x) as equalities of files; htslib serialisation."
ASSUMPTIONS = [
    "pysam: call['GT'] raises KeyError when the record has no GT FORMAT key, returns a tuple of any length with None for '.'",
    "pysam: `'GT' in call` tests FORMAT membership",
]

DECODERS = ["whatshap.vcf.VcfReader._extract_HP_phase", "whatshap.vcf.VcfReader._extract_GT_PS_phase"]


def carrier_set(ctx):
    """Per-call FORMAT keys other than GT that the phase decoders read."""
    D = {}
    for q in DECODERS:
        fi = ctx.func(q)
        for n in walk_function(fi.node):
            key = None
            if isinstance(n, ast.Subscript) and isinstance(n.slice, ast.Constant) and isinstance(n.slice.value, str):
                key = n.slice.value
            elif isinstance(n, ast.Call) and isinstance(n.func, ast.Attribute) and n.func.attr == "get" and n.args and isinstance(n.args[0], ast.Constant) and isinstance(n.args[0].value, str):
                key = n.args[0].value
            if key and key != "GT":
                D.setdefault(key, fi.loc(n))
    ctx.require(D, "no phase carrier found in the decoders %s" % DECODERS)
    return D


def is_gt_read(e):
    if isinstance(e, ast.Subscript) and isinstance(e.slice, ast.Constant) and e.slice.value == "GT" and isinstance(e.ctx, ast.Load):
        return True
    if isinstance(e, ast.Call) and isinstance(e.func, ast.Attribute) and e.func.attr == "get" and e.args and isinstance(e.args[0], ast.Constant) and e.args[0].value == "GT":
        return True
    return False


def gt_names(fnode):
    """Local names all of whose definitions are GT reads."""
    names = {}
    for n in walk_function(fnode):
        if isinstance(n, ast.Assign) and len(n.targets) == 1 and isinstance(n.targets[0], ast.Name) and is_gt_read(n.value):
            names.setdefault(n.targets[0].id, []).append(n.value)
    out = {}
    for name, vals in names.items():
        defs = util.assignments_to(fnode, name)
        if len(defs) == len(vals):
            out[name] = vals
    return out


def is_gt_expr(e, gnames):
    return is_gt_read(e) or (isinstance(e, ast.Name) and e.id in gnames)


def _parse(text):
    try:
        return ast.parse(text, mode="eval").body
    except SyntaxError:
        return None


def has_len_guard(ga, gtxt):
    for text, pol in ga:
        if "len(%s)" % gtxt in text:
            return True
    return False


def none_free_guard(ga, gtexts, fnode=None):
    """True if the guards establish that no element of the genotype is None."""
    for text, pol in ga:
        e = _parse(text)
        if e is None:
            continue
        # the list of missing alleles is empty:  M = [a for a in gt if a is None] ; not M  (any spelling of emptiness)
        if isinstance(e, (ast.Name, ast.ListComp)) and not pol:
            d_ = e if isinstance(e, ast.ListComp) else (util.single_def(fnode, e.id) if fnode is not None else None)
            if isinstance(d_, ast.ListComp) and len(d_.generators) == 1 and u(d_.generators[0].iter) in gtexts and len(d_.generators[0].ifs) == 1 and atoms(d_.generators[0].ifs[0], True) == {("None is %s" % u(d_.generators[0].target), True)}:
                return True
        # all(a is not None for a in gt) is True   /  any(a is None for a in gt) is False
        if isinstance(e, ast.Call) and isinstance(e.func, ast.Name) and e.func.id in ("all", "any") and len(e.args) == 1 and isinstance(e.args[0], (ast.GeneratorExp, ast.ListComp)):
            gen = e.args[0]
            if len(gen.generators) != 1 or gen.generators[0].ifs:
                continue
            if u(gen.generators[0].iter) not in gtexts:
                continue
            tgt = u(gen.generators[0].target)
            at = atoms(gen.elt, True)
            if e.func.id == "all" and pol and at == {("None is %s" % tgt, False)}:
                return True
            if e.func.id == "any" and not pol and at == {("None is %s" % tgt, True)}:
                return True
        # None in gt  is False
        if isinstance(e, ast.Compare) and len(e.ops) == 1 and isinstance(e.ops[0], ast.In) and u(e.left) == "None" and u(e.comparators[0]) in gtexts and not pol:
            return True
    return False


def inside_iteration_over(node, gtexts):
    """The expression sits inside a comprehension / generator / for that iterates the same tuple."""
    n = getattr(node, "parent", None)
    while n is not None and not isinstance(n, (ast.FunctionDef, ast.AsyncFunctionDef)):
        if isinstance(n, (ast.GeneratorExp, ast.ListComp, ast.SetComp, ast.DictComp)):
            if any(u(g.iter) in gtexts for g in n.generators):
                return True
        if isinstance(n, ast.For) and u(n.iter) in gtexts:
            return True
        n = getattr(n, "parent", None)
    return False


def check_totality(ctx, fi):
    """C13.R1 on one function; also used by the thorough sweep (other modules)."""
    fnode = fi.node
    gnames = gt_names(fnode)
    cfg = None
    n_ob = 0
    for n in walk_function(fnode):
        # (a) subscript read of the GT key needs a membership guard
        if isinstance(n, ast.Subscript) and isinstance(n.slice, ast.Constant) and n.slice.value == "GT" and isinstance(n.ctx, ast.Load):
            cfg = cfg or ctx.cfg(fi)
            ga = guard_atoms(cfg, cfg.node_containing(n))
            base = u(n.value)
            ok = ("'GT' in %s" % base, True) in ga or any(t.startswith("'GT' in ") and p for t, p in ga)
            ctx.ob(fi.qual, "gt-key-read:%s" % u(n), ok, fi.loc(n), "read of %s %s" % (u(n), "is guarded by FORMAT membership" if ok else "is not dominated by a `'GT' in %s` test: KeyError on records without GT" % base))
            n_ob += 1
        # (b) constant index into a genotype tuple
        if isinstance(n, ast.Subscript) and isinstance(n.slice, ast.Constant) and isinstance(n.slice.value, int) and not isinstance(n.slice.value, bool) and is_gt_expr(n.value, gnames):
            cfg = cfg or ctx.cfg(fi)
            gtexts = {u(n.value)}
            ga = guard_atoms(cfg, cfg.node_containing(n))
            ok = has_len_guard(ga, u(n.value)) or inside_iteration_over(n, gtexts)
            ctx.ob(fi.qual, "gt-const-index:%s" % u(n), ok, fi.loc(n), "constant index %s into a genotype tuple %s" % (u(n), "with its length established" if ok else "whose ploidy is not established (IndexError on haploid calls, elements beyond the index unchecked on polyploid ones)"))
            n_ob += 1
        # (c) ordering a genotype tuple needs 'no None element'
        if isinstance(n, ast.Call):
            arg = None
            if isinstance(n.func, ast.Name) and n.func.id in ("sorted", "min", "max") and len(n.args) >= 1 and is_gt_expr(n.args[0], gnames):
                arg = n.args[0]
            elif isinstance(n.func, ast.Attribute) and n.func.attr == "sort" and is_gt_expr(n.func.value, gnames):
                arg = n.func.value
            elif isinstance(n.func, ast.Attribute) and n.func.attr == "sort" and isinstance(n.func.value, ast.Name):
                # sorting a local copy of a genotype: L = list(gt); L.sort()
                d_ = util.single_def(fnode, n.func.value.id)
                if isinstance(d_, ast.Call) and isinstance(d_.func, ast.Name) and d_.func.id in ("list", "sorted") and len(d_.args) == 1 and is_gt_expr(d_.args[0], gnames):
                    arg = d_.args[0]
            if arg is not None:
                cfg = cfg or ctx.cfg(fi)
                gtexts = {u(arg)}
                if isinstance(arg, ast.Name):
                    gtexts |= {u(v) for v in gnames.get(arg.id, [])}
                else:
                    gtexts |= {name for name, vals in gnames.items() if any(u(v) == u(arg) for v in vals)}
                ga = guard_atoms(cfg, cfg.node_containing(n))
                ok = none_free_guard(ga, gtexts, fnode)
                ctx.ob(fi.qual, "gt-order:%s" % u(n), ok, fi.loc(n), "%s %s" % (u(n), "is guarded by 'no allele is None'" if ok else "orders a genotype that may contain None (TypeError on partially missing genotypes such as 0/1/.)"))
                n_ob += 1
    return n_ob


def r1(ctx):
    for fi in ctx.prog.funcs_in(MOD):
        ctx.analysed_functions.add(fi.qual)
        check_totality(ctx, fi)


def tags_constant(ctx):
    m = ctx.prog.module(MOD)
    for n in m.tree.body:
        if isinstance(n, ast.Assign) and len(n.targets) == 1 and isinstance(n.targets[0], ast.Name) and n.targets[0].id == "TAGS_TO_REMOVE":
            vals = [c.value for c in ast.walk(n.value) if isinstance(c, ast.Constant) and isinstance(c.value, str)]
            return set(vals), n
    raise AnalysisError("anchor vanished: TAGS_TO_REMOVE not found in %s" % MOD)


def _tag_loops(fnode):
    # in whatever order: sorted(TAGS_TO_REMOVE), list(...), the set itself
    return [n for n in walk_function(fnode) if isinstance(n, ast.For) and u(util.strip_order_wrappers(n.iter)) == "TAGS_TO_REMOVE" and isinstance(n.target, ast.Name)]


def r2(ctx):
    D = carrier_set(ctx)
    T, tnode = tags_constant(ctx)
    m = ctx.prog.module(MOD)
    for key, where in sorted(D.items()):
        ok = key in T
        ctx.ob(MOD + ".TAGS_TO_REMOVE", "covers:%s" % key, ok, "%s:%s" % (m.relpath, tnode.lineno), "decoder reads %s (%s); TAGS_TO_REMOVE %s it" % (key, where, "contains" if ok else "does not contain"))
    run = ctx.func(MOD + ".run_unphase")
    cfg = ctx.cfg(run)
    rec_loops = record_loops(run)
    ctx.require(rec_loops, "no record loop with a writer.write(record) found in run_unphase")
    for loop in rec_loops:
        rec = loop.target.id
        # every tag deleted from the record's FORMAT on every path
        dels = []
        for tl in _tag_loops(loop):
            for s in ast.walk(tl):
                if isinstance(s, ast.Delete):
                    for t in s.targets:
                        if isinstance(t, ast.Subscript) and u(t.value) == "%s.format" % rec and u(t.slice) == tl.target.id:
                            dels.append(tl)
        ok = False
        msg = "no loop `for tag in TAGS_TO_REMOVE: del %s.format[tag]` in the record loop" % rec
        if dels:
            heads = {cfg.node_of(tl) for tl in dels}
            probs = util.check_loop_conservation(cfg, loop, lambda n: n in heads)
            skips = [p for k, p in probs if k == "skip"]
            ok = not skips
            msg = "FORMAT keys of TAGS_TO_REMOVE are deleted from every record" if ok else "a path through the record loop skips the FORMAT tag removal"
        ctx.ob(run.qual, "record-format-tags-removed", ok, run.loc(loop), msg)
        # phased flag cleared for every call that has a GT
        call_loops = [n for n in walk_function(loop) if isinstance(n, ast.For) and "samples" in u(n.iter) and isinstance(n.target, (ast.Name, ast.Tuple))]
        ctx.require(call_loops, "no loop over the record's samples in run_unphase")
        for cl in call_loops:
            names = [t.id for t in ast.walk(cl.target) if isinstance(t, ast.Name)]
            # a loop over sample names or indices reaches the call through a subscript of the record's samples
            for n_ in ast.walk(cl):
                if isinstance(n_, ast.Assign) and len(n_.targets) == 1 and isinstance(n_.targets[0], ast.Name) and isinstance(n_.value, ast.Subscript) and u(n_.value.value) == "%s.samples" % rec and u(n_.value.slice) in names:
                    names.append(n_.targets[0].id)
            whole = u(cl.iter) in ("%s.samples.values()" % rec, "%s.samples.items()" % rec, "%s.samples" % rec, "%s.samples.keys()" % rec, "range(len(%s.samples))" % rec, "list(%s.samples.values())" % rec, "enumerate(%s.samples.values())" % rec)
            ctx.ob(run.qual, "every-call-of-the-record-visited", True if whole else None, run.loc(cl), "the loop runs over all calls of the record" if whole else "cannot tell whether `%s` covers every call of the record" % u(cl.iter)[:60])
            head = cfg.node_of(cl)

            def clears(n):
                s = cfg.ast(n)
                if cfg.kind(n) == "stmt" and isinstance(s, ast.Assign) and len(s.targets) == 1:
                    t = s.targets[0]
                    return isinstance(t, ast.Attribute) and t.attr == "phased" and isinstance(t.value, ast.Name) and t.value.id in names and isinstance(s.value, ast.Constant) and s.value.value is False
                return False

            sinks = {n for n in cfg.g.nodes if clears(n)}
            # edges on which the call is known to have no GT at all need no clearing
            free_edges = set()
            for t in cfg.g.nodes:
                if cfg.kind(t) != "test":
                    continue
                for s in cfg.g.successors(t):
                    lab = cfg.g[t][s]["label"]
                    if lab in ("true", "false"):
                        at = atoms(cfg.ast(t), lab == "true")
                        if any(txt == "'GT' in %s" % nm and not pol for nm in names for txt, pol in at):
                            free_edges.add((t, s))
            bad = None
            for b in cfg.succ(head, "loop"):
                if b in sinks:
                    continue
                p = cfg.find_path(b, head, avoid_nodes=sinks, avoid_edges=free_edges)
                if p is not None:
                    bad = [head] + p
            ctx.ob(run.qual, "phased-flag-cleared", bad is None, run.loc(cl), "`.phased = False` is reached for every call that has a GT" if bad is None else "a call with a GT can leave the loop body with its phased flag untouched", cfg.describe_path(bad))
    # header
    hdr = ctx.func(MOD + ".unphase_header")
    ok = False
    for tl in _tag_loops(hdr.node):
        for c in util.calls_in_node(tl, attr="remove_header"):
            if c.args and u(c.args[0]) == tl.target.id:
                ok = True
    ctx.ob(hdr.qual, "header-format-tags-removed", ok, hdr.loc(), "header FORMAT definitions of TAGS_TO_REMOVE are removed" if ok else "no `for tag in TAGS_TO_REMOVE: header.formats.remove_header(tag)`")
    # header is unphased before the writer copies it
    calls = [c for c in ctx.prog.calls_in(run.node) if isinstance(c.func, ast.Name) and c.func.id == "unphase_header"]
    writers = [n for n in walk_function(run.node) if isinstance(n, ast.Call) and u(n.func).endswith("VariantFile") and any(k.arg == "header" for k in n.keywords)]
    ok = bool(calls) and bool(writers) and all(cfg.dominates(cfg.node_containing(calls[0]), cfg.node_containing(w)) for w in writers)
    ctx.ob(run.qual, "header-unphased-before-writer", ok, run.loc(calls[0]) if calls else run.loc(), "unphase_header(...) dominates the creation of the output VariantFile" if ok else "output header is created without / before unphase_header")


def record_loops(run):
    out = []
    for n in walk_function(run.node):
        if isinstance(n, ast.For) and isinstance(n.target, ast.Name):
            for c in util.calls_in_node(n, attr="write"):
                if c.args and isinstance(c.args[0], ast.Name) and c.args[0].id == n.target.id:
                    out.append(n)
                    break
    return out


def _loop_var_over_tags(store_node, name):
    n = getattr(store_node, "parent", None)
    while n is not None:
        if isinstance(n, ast.For) and isinstance(n.target, ast.Name) and n.target.id == name and u(util.strip_order_wrappers(n.iter)) == "TAGS_TO_REMOVE":
            return True
        n = getattr(n, "parent", None)
    return False


def r3(ctx):
    """Effect summary: everything unphase stores, deletes or mutates."""
    todo = [ctx.func(MOD + ".run_unphase")]
    seen = set()
    while todo:
        fi = todo.pop()
        if fi.qual in seen:
            continue
        seen.add(fi.qual)
        cfg = ctx.cfg(fi)
        gnames = gt_names(fi.node)
        fresh = fresh_locals(fi.node)
        for st in util.store_sites(fi.node):
            if st.root in fresh:
                continue
            tgt = st.target
            ok, why = False, "store outside the phase-removal effect set"
            if st.kind == "del-subscript" and u(tgt.value).endswith(".format") and isinstance(tgt.slice, ast.Name) and _loop_var_over_tags(st.stmt, tgt.slice.id):
                ok, why = True, "FORMAT key of TAGS_TO_REMOVE deleted"
            elif st.kind == "subscript" and util.const_key(tgt) == "GT":
                v = st.value
                same = False
                a = None
                if isinstance(v, ast.Call) and isinstance(v.func, ast.Name) and v.func.id == "sorted" and len(v.args) == 1 and not v.keywords:
                    a = v.args[0]
                elif isinstance(v, ast.Name):
                    # a local copy put in ascending order: L = list(gt) ; L.sort()   /   L = sorted(gt)
                    od = util.ordering_of(fi.node, v.id)
                    if od is not None and od[1] is None and od[2] is False:
                        a = od[0]
                if a is not None:
                    if u(a) == "%s['GT']" % u(tgt.value):
                        same = True
                    elif isinstance(a, ast.Name) and a.id in gnames and all(u(x) in ("%s['GT']" % u(tgt.value), "%s.get('GT')" % u(tgt.value)) for x in gnames[a.id]):
                        same = True
                ok, why = same, ("GT replaced by a permutation of itself (sorted)" if same else "GT assigned something other than sorted(<the same call's GT>)")
            elif st.kind == "attr" and tgt.attr == "phased" and isinstance(st.value, ast.Constant) and st.value.value is False:
                ok, why = True, "phased flag cleared"
            elif st.kind == "call" and st.method == "remove" and not st.call.args:
                ga = guard_atoms(cfg, cfg.node_containing(st.call))
                recv = u(st.target)
                ok = ("'phasing' == %s.key" % recv, True) in ga
                if not ok and isinstance(st.target, ast.Name):
                    # the receiver was picked by a filter on the key: x = next((r for r in H.records if r.key == 'phasing'), None)
                    d_ = util.single_def(fi.node, st.target.id)
                    if isinstance(d_, ast.Call) and isinstance(d_.func, ast.Name) and d_.func.id == "next" and d_.args and isinstance(d_.args[0], ast.GeneratorExp) and len(d_.args[0].generators) == 1:
                        g_ = d_.args[0].generators[0]
                        tv = u(g_.target)
                        conds_ = set()
                        for c_ in g_.ifs:
                            conds_ |= atoms(c_, True)
                        ok = u(d_.args[0].elt) == tv and ("'phasing' == %s.key" % tv, True) in conds_
                why = "header record removed under key == 'phasing'" if ok else "header record removed without the key == 'phasing' guard"
            elif st.kind == "call" and st.method == "remove_header" and st.call.args and isinstance(st.call.args[0], ast.Name) and _loop_var_over_tags(st.stmt, st.call.args[0].id) and u(st.target).endswith(".formats"):
                ok, why = True, "FORMAT definition of TAGS_TO_REMOVE removed from the header"
            elif st.kind == "call" and st.method == "add" and u(st.target).endswith(".header.contigs") and _is_writer(fi.node, u(st.target)[: -len(".header.contigs")]) and len(st.call.args) == 1:
                ok, why = True, "a contig is declared to the OUTPUT header (no record or call is changed)"
            ctx.ob(fi.qual, "effect:%s" % st.text(), ok, fi.loc(st.stmt), "%s -- %s" % (st.text(), why))
        for c in ctx.prog.calls_in(fi.node):
            targets, how = ctx.resolve(c, fi)
            if how in ("local", "import", "self"):
                todo.extend(targets)


def fresh_locals(fnode):
    """Local names bound only to freshly built containers (their mutation is not an effect on the input)."""
    out = set()
    names = {}
    for n in walk_function(fnode):
        if isinstance(n, ast.Assign) and len(n.targets) == 1 and isinstance(n.targets[0], ast.Name):
            names.setdefault(n.targets[0].id, []).append(n.value)
    for name, vals in names.items():
        if all(isinstance(v, (ast.List, ast.Dict, ast.Set, ast.ListComp, ast.DictComp, ast.SetComp)) or (isinstance(v, ast.Call) and isinstance(v.func, ast.Name) and v.func.id in ("list", "dict", "set", "defaultdict", "Counter", "deque", "OrderedDict")) for v in vals):
            if len(util.assignments_to(fnode, name)) == len(vals):
                out.add(name)
    return out


def _writer_ctor(v):
    """VariantFile(out, mode='w', header=H): returns H (or None)"""
    if isinstance(v, ast.Call) and u(v.func).endswith("VariantFile"):
        kw = {k.arg: k.value for k in v.keywords if k.arg}
        mode = kw.get("mode") or (v.args[1] if len(v.args) > 1 else None)
        if isinstance(mode, ast.Constant) and isinstance(mode.value, str) and mode.value.startswith("w"):
            return kw.get("header") or (v.args[3] if len(v.args) > 3 else None) or ast.Constant(value=None)
    return None


def _writers(fnode):
    """{local name: (constructor call, header expression)} for the output VariantFiles of a function (assignment or with-item)"""
    out = {}
    for n in walk_function(fnode):
        if isinstance(n, ast.Assign) and len(n.targets) == 1 and isinstance(n.targets[0], (ast.Name, ast.Attribute)) and _writer_ctor(n.value) is not None:
            out[u(n.targets[0])] = (n.value, _writer_ctor(n.value))
        elif isinstance(n, (ast.With, ast.AsyncWith)):
            for it in n.items:
                if it.optional_vars is not None and _writer_ctor(it.context_expr) is not None:
                    out[u(it.optional_vars)] = (it.context_expr, _writer_ctor(it.context_expr))
    return out


def _is_writer(fnode, name):
    return name in _writers(fnode)


def _is_record_contig(fnode, e):
    """record.contig / record.chrom of the loop variable of a record loop"""
    if not (isinstance(e, ast.Attribute) and e.attr in ("contig", "chrom") and isinstance(e.value, ast.Name)):
        return False
    return any(isinstance(n, ast.For) and isinstance(n.target, ast.Name) and n.target.id == e.value.id for n in walk_function(fnode))


def r5(ctx):
    """A record can only be written if its contig is in the WRITER's header.  htslib adds a contig that has no ##contig line
    to the reader's header while it parses the record; a writer built from `reader.header` holds a copy taken before that and
    refuses the record (whatshap.vcf.missing_headers documents this; pysam issue 771).  ##contig lines are optional in VCF,
    so every site that copies records from a VariantFile reader to a VariantFile writer must either repair the reader's
    header from a scan of the file before the writer is built (the VcfAugmenter way), or declare the contig of each record
    to the writer's header before writing it."""
    sites = 0
    for q, fi in sorted(ctx.prog.functions.items()):
        if not q.startswith("whatshap."):
            continue
        ws = _writers(fi.node)
        for wname, (ctor, hdr) in sorted(ws.items()):
            if not (isinstance(hdr, ast.Attribute) and hdr.attr == "header"):
                continue  # a header built from scratch declares what it writes (or is not a copy of a reader's)
            sites += 1
            rd = u(hdr.value)
            cfg = ctx.cfg(fi)
            # (a) repaired from a scan before the writer exists
            aug = [c for c in ctx.prog.calls_in(fi.node) if u(c.func).endswith("augment_header") and c.args and u(c.args[0]) == "%s.header" % rd]
            scanned = False
            for c in aug:
                srcs = set()
                for a in c.args[1:]:
                    if isinstance(a, ast.Name):
                        for n_ in walk_function(fi.node):
                            if isinstance(n_, ast.Assign) and any(isinstance(x_, ast.Name) and x_.id == a.id and isinstance(x_.ctx, ast.Store) for t_ in n_.targets for x_ in ast.walk(t_)):
                                srcs.add(u(n_.value.func) if isinstance(n_.value, ast.Call) else u(n_.value))
                    elif isinstance(a, ast.Starred) and isinstance(a.value, ast.Call):
                        srcs.add(u(a.value.func))
                if srcs and all(x.endswith("missing_headers") for x in srcs) and cfg.dominates(cfg.node_containing(c), cfg.node_containing(ctor)):
                    scanned = True
            # (b) each record's contig is declared to the writer before the record is written
            declared = None
            writes = [c for c in ctx.prog.calls_in(fi.node) if isinstance(c.func, ast.Attribute) and c.func.attr == "write" and u(c.func.value) == wname and c.args and isinstance(c.args[0], ast.Name)]
            if not scanned and writes:
                declared = True
                for wcall in writes:
                    rec = wcall.args[0].id
                    lp = wcall
                    while lp is not None and not (isinstance(lp, ast.For) and isinstance(lp.target, ast.Name) and lp.target.id == rec):
                        lp = getattr(lp, "parent", None)
                    if lp is None:
                        declared = False
                        break
                    adds = [c for c in ast.walk(lp) if isinstance(c, ast.Call) and isinstance(c.func, ast.Attribute) and c.func.attr == "add" and u(c.func.value) == "%s.header.contigs" % wname and len(c.args) == 1 and u(c.args[0]) in ("%s.contig" % rec, "%s.chrom" % rec)]
                    wn = cfg.node_containing(wcall)
                    okp = False
                    for a in adds:
                        an = cfg.node_containing(a)
                        # the only way round the declaration is the branch that found the contig already declared
                        p_ = cfg.find_path(cfg.node_of(lp), wn, avoid_nodes={an}, start_after=True)
                        if p_ is None:
                            okp = True
                        else:
                            ga = guard_atoms(cfg, an)
                            known = {("%s.%s in %s.header.contigs" % (rec, f_, wname), False) for f_ in ("contig", "chrom")}
                            others = [g for g in ga if g not in known and g not in guard_atoms(cfg, cfg.node_of(lp))]
                            inner = [g for g in others if g not in guard_atoms(cfg, wn)]
                            okp = bool(ga & known) and not inner
                    if not okp:
                        other = [c for c in ast.walk(fi.node) if isinstance(c, ast.Call) and isinstance(c.func, ast.Attribute) and c.func.attr == "add" and u(c.func.value) == "%s.header.contigs" % wname]
                        declared = None if other and not adds else False  # declared, but not in a form this rule reads
            ok = True if (scanned or declared) else (None if declared is None and writes else False)
            how = "the reader's header is completed from a scan of the file (missing_headers) before the writer copies it" if scanned else "every record's contig is declared to the writer's header before the record is written"
            ctx.ob(fi.qual, "writer-knows-every-contig:%s" % wname, ok, fi.loc(ctor), how if ok else "%s copies %s.header before any record is read and nothing declares the records' contigs to it: on a VCF without ##contig lines (they are optional) htslib adds the contig to the reader's header only while parsing, the writer's copy lacks it and %s.write(record) fails" % (wname, rd, wname))
    ctx.require(sites >= 2, "fewer than two reader-to-writer copies (VcfAugmenter, unphase) found")


def r4(ctx):
    run = ctx.func(MOD + ".run_unphase")
    cfg = ctx.cfg(run)
    loops = record_loops(run)
    ctx.require(loops, "no record loop with a writer.write(record) found in run_unphase")
    for loop in loops:
        rec = loop.target.id

        def is_write(n):
            a = cfg.ast(n)
            if cfg.kind(n) != "stmt" or a is None:
                return False
            return any(c.args and isinstance(c.args[0], ast.Name) and c.args[0].id == rec for c in util.calls_in_node(a, attr="write"))

        probs = util.check_loop_conservation(cfg, loop, is_write)
        ctx.ob(run.qual, "every-record-written", not probs, run.loc(loop), "every record of the input reaches writer.write(record)" if not probs else "a record can be %s" % ("skipped" if probs[0][0] == "skip" else "lost by an early exit from the loop"), cfg.describe_path(probs[0][1]) if probs else None)
        # the loop iterates the reader itself (the whole file)
        reader_defs = util.assignments_to(run.node, u(loop.iter)) if isinstance(loop.iter, ast.Name) else []
        ok = bool(reader_defs) and all(isinstance(v, ast.Call) and u(v.func).endswith("VariantFile") for _, v in reader_defs if isinstance(v, ast.AST))
        ctx.ob(run.qual, "iterates-whole-input", ok, run.loc(loop), "the record loop iterates the input VariantFile itself" if ok else "the record loop does not iterate the input VariantFile directly")


RULES = [
    ("C13.R1", "totality on genotype shapes (GT key, ploidy, missing alleles)", r1),
    ("C13.R2", "removed tag set covers the decoders' carrier set; flag cleared", r2),
    ("C13.R3", "effect summary contains only the phase removal", r3),
    ("C13.R4", "every record is written; no early exit", r4),
    ("C13.R5", "the output header knows the contig of every record it is given (##contig lines are optional)", r5),
]
# instance floors: about 60% of the instances confirmed by hand on the reference tree -- a rule that suddenly matches far fewer
# sites fails the run (exit 2); a clean-up that merges two sites into one does not
FLOORS = {"C13.R1": 1, "C13.R2": 4, "C13.R3": 3, "C13.R4": 1, "C13.R5": 2}
