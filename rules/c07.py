"""C07 -- read selection respects the coverage cap and is maximal (structural clauses)."""
import ast

from sa.model import walk_function, AnalysisError
from sa.norm import u, atoms, guard_atoms, linear
from sa import util

PROPERTY = "C07"
NEEDS_PYX = True
RS = "whatshap.readselect"
PH = "whatshap.cli.phase"

EXPLANATION = (
    "Decides: R1 check-before-add -- each coverages.add_read(b, e) is dominated by the false edge of `coverages.max_coverage_in_range(b, e) >= max_cov` over the same (un-reassigned) span; "
    "`>=` after normalisation (a `>` would let coverage reach k+1); R2 span convention -- begin = index(first covered variant), end = index(last covered) + 1, consumed half-open by CovMonitor.add_read "
    "(range(begin, end), += 1 once per index) and max_coverage_in_range (coverage[begin:end]); R3 maximality discipline -- reads leave `undecided_reads` only when selected (paired with add_read) or under a "
    "dominating 'coverage test rejected' guard, and the outer loop runs while undecided reads remain; R4 subset -- the returned indices only come from queues built from range(len(readset)) and "
    "select_reads returns readset.subset(those indices); R5 family budget -- with a non-heuristic algorithm every sample's reads pass select_reads with max(1, max_coverage // len(family)), and validate "
    "rejects --internal-downsampling above 23."
)
EXPLANATION += (
    " " + 'R4 also: in readselection the selection set starts empty and only ever receives results of readselection_helper (which registers every selected read with the coverage monitor).'
)
NOT_DECIDED = "The scoring heuristic and which maximal selection is chosen; that coverage of a span only grows is assumed from CovMonitor having no decrement (checked)."
ASSUMPTIONS = ["vcf_indices maps every covered position to its rank among the read set's positions", "a read's variants are sorted, so first/last covered variant are index 0 / count-1"]


def _cov_atom(begin, end, pol):
    return ("coverages.max_coverage_in_range(%s, %s) < max_cov" % (begin, end), pol)


def _ga(cfg, fnode, node):
    """Guard atoms of a node, where a flag local stands for the coverage test it holds (`has_room = not cov(b, e) >= cap`,
    later `if has_room and ...` / `elif not has_room`) as long as the flag is fresh: no add_read can run between the
    statement that computes it and the test that reads it (coverage only changes through add_read)."""
    out = set(guard_atoms(cfg, node))
    adds = [m for m in cfg.g.nodes if cfg.kind(m) == "stmt" and cfg.ast(m) is not None and any(isinstance(c, ast.Call) and isinstance(c.func, ast.Attribute) and c.func.attr == "add_read" for c in ast.walk(cfg.ast(m)))]
    for t, lab in cfg.dominating_edges(node):
        if cfg.kind(t) != "test" or lab not in ("true", "false"):
            continue
        for at, pol in atoms(cfg.ast(t), lab == "true"):
            if not at.isidentifier():
                continue
            d = util.single_def(fnode, at)
            if d is None or "max_coverage_in_range" not in u(d):
                continue
            dn = cfg.node_of(util.stmt_of(d))
            if not cfg.dominates(dn, t):
                continue
            stale = any(cfg.find_path(dn, m, avoid_nodes=[t]) is not None and cfg.find_path(m, t, avoid_nodes=[dn]) is not None for m in adds)
            if not stale:
                out |= atoms(d, pol)
    return out


def r1(ctx):
    n = 0
    for q in (RS + "._slice_read_selection", RS + ".readselection_helper"):
        fi = ctx.func(q)
        cfg = ctx.cfg(fi)
        for c in ctx.prog.calls_in(fi.node):
            if u(c.func) != "coverages.add_read":
                continue
            n += 1
            b, e = [u(a) for a in c.args]
            node = cfg.node_containing(c)
            ga = _ga(cfg, fi.node, node)
            ok = _cov_atom(b, e, True) in ga
            off_by_one = ("max_cov < coverages.max_coverage_in_range(%s, %s)" % (b, e), False) in ga
            ctx.ob(fi.qual, "check-before-add:%s" % u(c), ok, fi.loc(c), "add_read(%s, %s) only where max_coverage_in_range(%s, %s) < max_cov was established" % (b, e, b, e) if ok else ("add_read is guarded by `not (coverage > max_cov)`: coverage can reach max_cov + 1" if off_by_one else "add_read(%s, %s) is not dominated by the rejection test `max_coverage_in_range(%s, %s) >= max_cov`" % (b, e, b, e)))
            # the span is not reassigned between the test and the add
            tests = [t for t in cfg.g.nodes if cfg.kind(t) == "test" and (_cov_atom(b, e, True) in atoms(cfg.ast(t), False) or _cov_atom(b, e, True) in atoms(cfg.ast(t), True))]
            re_ = False
            for t in tests:
                for s in cfg.g.nodes:
                    a = cfg.ast(s)
                    if cfg.kind(s) == "stmt" and isinstance(a, ast.Assign) and any(u(x) in (b, e) for x in a.targets):
                        if cfg.find_path(t, s, avoid_nodes=[node]) is not None and cfg.find_path(s, node, avoid_nodes=[t]) is not None:
                            re_ = True
            ctx.ob(fi.qual, "span-not-reassigned:%s" % u(c), not re_, fi.loc(c), "begin/end are the values that were tested" if not re_ else "begin/end are reassigned between the coverage test and add_read")
            # at most one add_read per tested read: no second add on the way
            others = {cfg.node_containing(x) for x in ctx.prog.calls_in(fi.node) if u(x.func) == "coverages.add_read" and x is not c}
            twice = any(cfg.find_path(node, o, avoid_nodes=tests) is not None for o in others)
            ctx.ob(fi.qual, "one-add-per-test:%s" % u(c), not twice, fi.loc(c), "no second add_read is reachable without a new coverage test" if not twice else "a second add_read is reachable without re-testing the coverage")
    ctx.require(n == 2, "expected two add_read sites in readselect.pyx, found %d" % n)
    other = [fi for fi in ctx.prog.functions.values() if fi.module.kind in ("py", "pyx") and not fi.qual.startswith(RS) and any(isinstance(c.func, ast.Name) and c.func.id == "CovMonitor" for c in ctx.prog.calls_in(fi.node))]
    ctx.ob(RS, "coverage-monitor-owned-by-readselect", not other, "whatshap/", "no coverage monitor is created (and hence filled) outside readselect.pyx" if not other else "a CovMonitor is also created in %s" % other[0].qual)
    rsf = ctx.func(RS + ".readselection")
    cm = util.single_def(rsf.node, "coverages")
    ok = cm is not None and u(cm) == "CovMonitor(len(positions))"
    ctx.ob(rsf.qual, "one-monitor-over-all-positions", ok, rsf.loc(), "one CovMonitor over all variant positions is shared by both selection rounds" if ok else "coverages is %s" % (u(cm) if cm is not None else "?"))


def r2(ctx):
    n = 0
    for q in (RS + "._slice_read_selection", RS + ".readselection_helper"):
        fi = ctx.func(q)
        for name in ("begin", "end"):
            defs = [v for s, v in util.assignments_to(fi.node, name) if isinstance(v, ast.AST)]
            for v in defs:
                n += 1
                v = util.expand_single_defs(fi.node, v, keep=("read", "extracted_read", "vcf_indices"))
                lf = linear(v)
                if name == "begin":
                    ok = lf is not None and len(lf) == 1 and list(lf.values()) == [1] and list(lf)[0].startswith("vcf_indices.get(") and list(lf)[0].endswith(".getPosition(0))")
                    msg = "begin is the index of the read's first covered variant"
                else:
                    keys = [k for k in (lf or {}) if k]
                    ok = lf is not None and lf.get("", 0) == 1 and len(keys) == 1 and keys[0].startswith("vcf_indices.get(") and ".getVariantCount() - 1))" in keys[0]
                    msg = "end is the index of the read's last covered variant + 1"
                ctx.ob(fi.qual, "span:%s=%s" % (name, u(v)[:50]), ok, fi.loc(), msg if ok else "%s = %s breaks the half-open [first, last+1) convention" % (name, u(v)))
    ctx.require(n == 4, "expected 4 span definitions, found %d" % n)
    add = ctx.func("whatshap.coverage.CovMonitor.add_read")
    loops = [x for x in walk_function(add.node) if isinstance(x, ast.For)]
    ok = (None if not loops else (len(loops) == 1 and u(loops[0].iter) == "range(begin, end)" and len(loops[0].body) == 1 and isinstance(loops[0].body[0], ast.AugAssign) and u(loops[0].body[0].target) == "self.coverage[%s]" % u(loops[0].target) and isinstance(loops[0].body[0].op, ast.Add) and u(loops[0].body[0].value) == "1"))
    ctx.ob(add.qual, "add-increments-half-open-span-once", ok, add.loc(), "coverage[i] += 1 for i in range(begin, end)" if ok else "CovMonitor.add_read does not add 1 to exactly range(begin, end)")
    mx = ctx.func("whatshap.coverage.CovMonitor.max_coverage_in_range")
    ret = [x for x in walk_function(mx.node) if isinstance(x, ast.Return)]
    ok = (None if not ret else (len(ret) == 1 and u(ret[0].value) == "max(self.coverage[begin:end])"))
    ctx.ob(mx.qual, "max-over-the-same-span", ok, mx.loc(), "max_coverage_in_range = max(coverage[begin:end])" if ok else "max_coverage_in_range is %s" % (u(ret[0].value) if ret else "?"))
    # coverage never decreases (needed for 'rejected once, rejected forever')
    cls = ctx.prog.cls("whatshap.coverage.CovMonitor")
    dec = []
    for name, m in cls.methods.items():
        for st in util.store_sites(m.node):
            if "coverage" in u(st.target) and name != "__init__" and not (name == "add_read" and isinstance(st.stmt, ast.AugAssign) and isinstance(st.stmt.op, ast.Add)):
                dec.append((m, st))
    ctx.ob(cls.qual, "coverage-only-grows", not dec, "whatshap/coverage.py", "coverage counters are only ever incremented" if not dec else "coverage is also modified by %s" % dec[0][1].text())


def r3(ctx):
    h = ctx.func(RS + ".readselection_helper")
    cfg = ctx.cfg(h)
    und = util.params_of(h.node)[6]
    ctx.require(und == "undecided_reads", "7th parameter of readselection_helper is not undecided_reads")
    outer = [n for n in walk_function(h.node) if isinstance(n, ast.While) and atoms(n.test, True) == {(und, True)}]
    ctx.ob(h.qual, "loops-while-undecided-reads-remain", len(outer) == 1, h.loc(outer[0]) if outer else h.loc(), "the selection loop runs until no read is undecided" if outer else "outer loop is not `while len(undecided_reads) > 0`")
    sl = ctx.func(RS + "._slice_read_selection")
    scfg = ctx.cfg(sl)
    removals = 0
    for n in walk_function(h.node):
        if isinstance(n, ast.AugAssign) and u(n.target) == und and isinstance(n.op, ast.Sub):
            removals += 1
            src = u(n.value)
            # provenance: which of _slice_read_selection's results
            res = [(s, v) for s, v in util.assignments_to(h.node, src) if isinstance(v, tuple) and v[0] == "unpack" and u(v[1].func) == "_slice_read_selection"]
            ok = len(res) == 1
            why = "unknown set"
            if ok:
                idx = res[0][1][2]
                ret = [r for r in walk_function(sl.node) if isinstance(r, ast.Return)][0]
                inner = u(ret.value.elts[idx])
                adds = [c for c in ctx.prog.calls_in(sl.node) if u(c.func) == "%s.add" % inner]
                ok = len(adds) == 1
                if ok:
                    ga = _ga(scfg, sl.node, scfg.node_containing(adds[0]))
                    blk = util.stmt_of(adds[0]).parent
                    paired = any(u(c.func) == "coverages.add_read" and util.stmt_of(c).parent is blk for c in ctx.prog.calls_in(sl.node))
                    rejected = any(t.startswith("coverages.max_coverage_in_range(") and t.endswith("< max_cov") and not p for t, p in ga)
                    ok = paired or rejected
                    why = "reads selected together with add_read" if paired else ("reads whose coverage test was rejected" if rejected else "reads removed without selection or rejection")
            ctx.ob(h.qual, "leaves-undecided:%s" % src, ok, h.loc(n), "undecided_reads -= %s: %s" % (src, why) if ok else "undecided_reads -= %s removes reads that were neither selected nor rejected by the coverage test (%s)" % (src, why))
    for c in ctx.prog.calls_in(h.node):
        if u(c.func) in ("%s.remove" % und, "%s.discard" % und):
            removals += 1
            node = cfg.node_containing(c)
            ga = _ga(cfg, h.node, node)
            rejected = any(t.startswith("coverages.max_coverage_in_range(") and t.endswith("< max_cov") and not p for t, p in ga)
            adds = [cfg.node_containing(x) for x in ctx.prog.calls_in(h.node) if u(x.func) == "coverages.add_read"]
            selected = any(cfg.dominates(a, node) and cfg.find_path(a, node) is not None for a in adds) and any(u(x.func) == "selected_reads.add" and u(x.args[0]) == u(c.args[0]) for x in ctx.prog.calls_in(h.node))
            ok = rejected or selected
            ctx.ob(h.qual, "leaves-undecided:%s@%s" % (u(c), "rejected" if rejected else "selected" if selected else "?"), ok, h.loc(c), "%s under %s" % (u(c), "a rejected coverage test (coverage only grows, so the rejection is permanent)" if rejected else "selection as bridging read (after add_read)") if ok else "%s drops a read that was neither rejected by the coverage test nor selected: the selection is no longer maximal" % u(c))
    ctx.require(removals >= 3, "expected at least 3 places where reads leave undecided_reads, found %d" % removals)
    # a read selected in the bridging phase is taken out of `undecided` in the same iteration
    for c in ctx.prog.calls_in(h.node):
        if u(c.func) == "selected_reads.add":
            node = cfg.node_containing(c)
            lp = c
            while lp is not None and not isinstance(lp, ast.While):
                lp = getattr(lp, "parent", None)
            inner_head = cfg.node_of(lp) if lp is not None else None
            rem = {cfg.node_containing(x) for x in ctx.prog.calls_in(h.node) if u(x.func) in ("%s.remove" % und, "%s.discard" % und) and u(x.args[0]) == u(c.args[0])}
            bad = cfg.find_path(node, inner_head, avoid_nodes=rem, start_after=True) if inner_head is not None else [node]
            ctx.ob(h.qual, "selected-bridging-read-leaves-undecided", bad is None, h.loc(c), "a read selected as bridging read is removed from undecided_reads before the next read is considered" if bad is None else "a selected bridging read stays undecided: it is selected and counted in the coverage monitor again in the next round, so admissible reads are rejected", cfg.describe_path(bad))
    # bridging: skipped single-block reads stay undecided
    conts = [n for n in cfg.g.nodes if cfg.kind(n) == "continue"]
    for cn in conts:
        ga = guard_atoms(cfg, cn)
        if any("len(covered_blocks)" in t for t, p in ga):
            removed_before = any(u(c.func).startswith("%s.remove" % und) and cfg.dominates(cfg.node_containing(c), cn) for c in ctx.prog.calls_in(h.node))
            ctx.ob(h.qual, "non-bridging-read-stays-undecided", not removed_before, h.loc(cfg.ast(cn)), "a read that bridges nothing is left undecided for the next slice" if not removed_before else "a non-bridging read is dropped")
    # the helper consumes its `undecided_reads` argument in place (-=, remove): a set handed to it must not be
    # needed afterwards by the caller, or a copy has to be passed
    rsf = ctx.func(RS + ".readselection")
    rcfg = ctx.cfg(rsf)
    hparams = util.params_of(h.node)
    uidx = hparams.index(und)
    for c in ctx.prog.calls_in(rsf.node):
        if u(c.func) != "readselection_helper" or len(c.args) <= uidx:
            continue
        a = c.args[uidx]
        node = rcfg.node_containing(c)
        later = None
        if isinstance(a, ast.Name):
            for m in rcfg.reachable(node) - {node}:
                am = rcfg.ast(m)
                if am is None:
                    continue
                uses = [x for x in ast.walk(am) if isinstance(x, ast.Name) and x.id == a.id and isinstance(x.ctx, ast.Load)]
                # a further call that again passes it as the consumable argument is the same role
                if uses and not all(any(x is cc.args[uidx] for cc in ctx.prog.calls_in(rsf.node) if u(cc.func) == "readselection_helper" and len(cc.args) > uidx) for x in uses):
                    later = m
        ok = later is None
        ctx.ob(rsf.qual, "consumed-set-not-reused:%s" % u(a)[:40], ok, rsf.loc(c), "the set handed to the helper as `undecided_reads` (%s) is not read by the caller afterwards" % u(a) if ok else "`%s` is emptied in place by readselection_helper and then used again (%s): the reads it held are not taken out of the next round, get counted in the coverage monitor twice and crowd out admissible reads" % (u(a), rcfg.describe(later)))
    # slice: a read that is neither rejected nor selected stays in the caller's undecided set (not in either result set)
    res_adds = [c for c in ctx.prog.calls_in(sl.node) if u(c.func) in ("reads_in_slice.add", "reads_violating_coverage.add")]
    ctx.ob(sl.qual, "two-result-sets", len(res_adds) == 2 and all(u(c.args[0]) == "max_item" for c in res_adds), sl.loc(), "the popped read goes to exactly one of reads_in_slice / reads_violating_coverage or stays undecided" if len(res_adds) == 2 else "result set bookkeeping of _slice_read_selection changed")


def r4(ctx):
    rs = ctx.func(RS + ".readselection")
    ud = [v for s, v in util.assignments_to(rs.node, "undecided_reads") if isinstance(v, ast.AST)]
    pyr = util.params_of(rs.node)[0]
    ok = (None if not ud else (len(ud) == 1 and u(ud[0]) == "set(range(len(%s)))" % pyr))
    ctx.ob(rs.qual, "candidates-are-the-read-indices", ok, rs.loc(), "undecided_reads = set(range(len(readset)))" if ok else "undecided_reads is %s" % [u(v) for v in ud])
    rets = [n for n in walk_function(rs.node) if isinstance(n, ast.Return)]
    ok = (None if not rets else (len(rets) == 1 and u(rets[0].value) == "selected_reads"))
    ctx.ob(rs.qual, "returns-selected", ok, rs.loc(), "readselection returns selected_reads" if ok else "readselection returns %s" % (u(rets[0].value) if rets else "?"))
    # in the caller, the selection only ever receives what the helper returned (the helper counts every read it selects)
    bad = []
    n_in = 0
    for st in util.store_sites(rs.node):
        if st.kind == "call" and u(st.target) == "selected_reads":
            n_in += 1
            a = st.call.args[0] if st.call.args else None
            d = util.single_def(rs.node, u(a)) if isinstance(a, ast.Name) else a
            if not (st.method in ("update", "__ior__") and isinstance(d, ast.Call) and u(d.func) == "readselection_helper"):
                bad.append("selected_reads.%s(%s)" % (st.method, u(a) if a is not None else ""))
    for s_, v in util.assignments_to(rs.node, "selected_reads"):
        n_in += 1
        if isinstance(v, tuple) and v[0] == "aug":
            d = util.single_def(rs.node, u(v[2])) if isinstance(v[2], ast.Name) else v[2]
            if not (isinstance(d, ast.Call) and u(d.func) == "readselection_helper"):
                bad.append("selected_reads %s= %s" % (type(v[1]).__name__, u(v[2])))
        elif isinstance(v, ast.AST):
            if not (u(v) == "set()" or (isinstance(v, ast.Call) and u(v.func) == "readselection_helper")):
                bad.append("selected_reads = %s" % u(v)[:60])
        else:
            bad.append("selected_reads bound by %s" % (v[0],))
    # the helper adds to the set it is given as `selected_reads` (and returns that same set): handing the set over counts too
    hparams = util.params_of(ctx.func(RS + ".readselection_helper").node)
    if "selected_reads" in hparams:
        k_sel = hparams.index("selected_reads")
        for c_ in ctx.prog.calls_in(rs.node):
            if u(c_.func) == "readselection_helper" and len(c_.args) > k_sel and u(c_.args[k_sel]) == "selected_reads":
                n_in += 1
    ctx.ob(rs.qual, "selection-only-receives-helper-results", not bad and n_in >= 2, rs.loc(), "selected_reads starts empty and only receives results of readselection_helper, which registers every selected read with the coverage monitor" if not bad else "%s puts reads into the selection that never passed the coverage test / monitor" % bad[0])
    h = ctx.func(RS + ".readselection_helper")
    grow = [c for c in ctx.prog.calls_in(h.node) if u(c.func) in ("selected_reads.update", "selected_reads.add")]
    okg = len(grow) == 2
    for c in grow:
        a = u(c.args[0])
        if u(c.func).endswith("update"):
            okg = okg and a == "reads_in_slice"
        else:
            d = [v for s, v in util.assignments_to(h.node, a) if isinstance(v, tuple) and v[0] == "unpack"]
            okg = okg and len(d) == 1 and u(d[0][1]) == "pq.pop()" and d[0][2] == 1
    ctx.ob(h.qual, "selected-only-from-queue", okg, h.loc(), "selected_reads only receives slice results and items popped from the queue" if okg else "selected_reads receives something that did not come from the queue")
    pqs = [c for c in ctx.prog.calls_in(h.node) if u(c.func) == "_construct_priorityqueue"]
    ok = (None if not pqs else (len(pqs) == 2 and all(u(c.args[1]) == "undecided_reads" for c in pqs)))
    ctx.ob(h.qual, "queues-built-from-undecided", ok, h.loc(), "both queues are built from undecided_reads" if ok else "a queue is built from something other than undecided_reads")
    sl = ctx.func(RS + "._slice_read_selection")
    mi = [v for s, v in util.assignments_to(sl.node, "max_item") if isinstance(v, ast.AST)]
    ok = (None if not mi else (len(mi) == 1 and u(mi[0]) == "entry.second" and u(util.single_def(sl.node, "entry")) == "pq.c_pop()"))
    ctx.ob(sl.qual, "slice-items-popped-from-queue", ok, sl.loc(), "the slice only handles items popped from the queue" if ok else "max_item does not come from pq.c_pop()")
    cp = ctx.func(RS + "._construct_priorityqueue")
    loops = [n for n in walk_function(cp.node) if isinstance(n, ast.For)]
    ok = (None if not loops else (len(loops) == 1 and u(loops[0].iter) == util.params_of(cp.node)[1] and any(u(c.func) == "priorityqueue.c_push" and u(c.args[1]) == u(loops[0].target) for c in ctx.prog.calls_in(cp.node))))
    ctx.ob(cp.qual, "queue-items-are-the-given-indices", ok, cp.loc(), "every given index is pushed as item" if ok else "queue construction changed")
    sr = ctx.func(PH + ".select_reads")
    rets = [n for n in walk_function(sr.node) if isinstance(n, ast.Return)]
    fulle = util.expand_single_defs(sr.node, rets[0].value) if len(rets) == 1 and rets[0].value is not None else None
    ok = False
    if isinstance(fulle, ast.Call) and u(fulle.func) == "readset.subset" and len(fulle.args) == 1:
        # ReadSet.subset collects the indices in an ordered C++ set: order and duplicates of the argument do not matter
        inner = util.strip_order_wrappers(fulle.args[0])
        rsel = ctx.func(RS + ".readselection")
        if isinstance(inner, ast.Call) and u(inner.func) == "readselection":
            b = util.bound_args(inner, rsel.node, skip_self=False)
            rp = util.params_of(rsel.node)
            ok = b is not None and u(b.get(rp[0])) == "readset" and u(b.get("max_cov")) == "max_coverage" and u(b.get("preferred_source_ids")) == "preferred_source_ids" and u(b.get("bridging")) == "True"
    ctx.ob(sr.qual, "returns-subset-of-the-input", ok, sr.loc(), "select_reads returns readset.subset(readselection(readset, max_coverage, ...))" if ok else "select_reads does not return the subset of its input chosen by readselection with the given cap")


def r5(ctx):
    run = ctx.func(PH + ".run_whatshap")
    cfg = ctx.cfg(run)
    st = [s for s in util.store_sites(run.node) if s.kind == "subscript" and u(s.target.value) == "readsets"]
    ctx.require(len(st) == 1, "store into readsets not found")
    v = u(st[0].value)
    defs = [(s, d) for s, d in util.assignments_to(run.node, v) if isinstance(d, ast.AST)]
    for s, d in defs:
        ga = guard_atoms(cfg, cfg.node_of(s))
        if isinstance(d, ast.Call) and u(d.func) == "select_reads":
            ok = u(d.args[1]) == "max_coverage_per_sample" and ("'heuristic' == algorithm", False) in ga
            ctx.ob(run.qual, "budgeted-selection", ok, run.loc(s), "for every non-heuristic algorithm the sample's reads pass select_reads(..., max_coverage_per_sample, ...)" if ok else "select_reads is not called with max_coverage_per_sample on the non-heuristic branch")
        else:
            ok = ("'heuristic' == algorithm", True) in ga
            ctx.ob(run.qual, "unselected-only-for-heuristic:%s" % u(d), ok, run.loc(s), "reads bypass selection only with --algorithm heuristic" if ok else "`%s = %s` bypasses read selection outside the heuristic branch: the exact solver can get more than the cap" % (v, u(d)))
    ctx.require(len(defs) == 2, "expected two definitions of %s" % v)
    mc = util.single_def(run.node, "max_coverage_per_sample")
    ok = mc is not None and isinstance(mc, ast.Call) and u(mc.func) == "max" and {u(a) for a in mc.args} == {"1", "max_coverage // len(family)"}
    ctx.ob(run.qual, "per-sample-cap-is-floor-share", ok, run.loc(), "max_coverage_per_sample = max(1, max_coverage // len(family))" if ok else "max_coverage_per_sample = %s" % (u(mc) if mc is not None else "?"))
    # the value stored is the one selected in this iteration: the store is after both definitions in the sample loop
    ok = all(cfg.find_path(cfg.node_of(s), cfg.node_of(st[0].stmt)) is not None for s, d in defs)
    ctx.ob(run.qual, "stored-after-selection", ok, run.loc(st[0].stmt), "readsets[sample] is assigned after the selection" if ok else "readsets[sample] can be assigned before the selection")
    val = ctx.func(PH + ".validate")
    vcfg = ctx.cfg(val)
    errs = [c for c in ctx.prog.calls_in(val.node) if u(c.func) == "parser.error" and ("23" in u(c) or "ownsampling" in u(c))]
    ok = False
    for c in errs:
        ga = guard_atoms(vcfg, vcfg.node_containing(c))
        if ("23 < args.max_coverage", True) in ga:
            ok = True
    ctx.ob(val.qual, "cap-limited-to-23", ok, val.loc(), "validate rejects --internal-downsampling above 23" if ok else "validate no longer rejects max_coverage > 23")
    # ... and nothing overrides it afterwards: no function of the phase command assigns args.max_coverage
    for q_, f_ in sorted(ctx.prog.functions.items()):
        if not q_.startswith(PH + "."):
            continue
        for s_ in util.store_sites(f_.node):
            if s_.kind == "attr" and s_.target.attr == "max_coverage" and isinstance(s_.target.value, ast.Name) and s_.target.value.id in ("args", "namespace", "options"):
                ctx.ob(f_.qual, "cap-not-overridden:%s" % s_.text()[:40], False, f_.loc(s_.stmt), "`%s` replaces the value of --internal-downsampling after it was validated: the solver can get more reads per variant than the cap (and more than 23)" % s_.text()[:80])
    aa = ctx.func(PH + ".add_arguments")
    dest = [c for c in ctx.prog.calls_in(aa.node) if any(k.arg == "dest" and isinstance(k.value, ast.Constant) and k.value.value == "max_coverage" for k in c.keywords)]
    ok = (None if not dest else (len(dest) == 1 and any(isinstance(a, ast.Constant) and a.value == "--internal-downsampling" for a in dest[0].args) and any(k.arg == "type" and u(k.value) == "int" for k in dest[0].keywords)))
    ctx.ob(aa.qual, "option-feeds-max_coverage", ok, aa.loc(), "--internal-downsampling is the integer option stored as max_coverage" if ok else "--internal-downsampling no longer maps to max_coverage")


RULES = [
    ("C07.R1", "check-before-add: add_read only after the cap test failed to reject", r1),
    ("C07.R2", "half-open span convention agrees between producer and CovMonitor", r2),
    ("C07.R3", "maximality discipline: reads leave 'undecided' only selected or rejected", r3),
    ("C07.R4", "selected indices come from the input's index range", r4),
    ("C07.R5", "family budget: per-sample cap and the 23 limit", r5),
]
# instance floors: about 60% of the instances confirmed by hand on the reference tree -- a rule that suddenly matches far fewer
# sites fails the run (exit 2); a clean-up that merges two sites into one does not
FLOORS = {"C07.R1": 4, "C07.R2": 4, "C07.R3": 5, "C07.R4": 4, "C07.R5": 3}
