"""C12 -- stats counts add up (structural clauses)."""
import ast
import re

from sa.model import walk_function, AnalysisError
from sa.norm import u, atoms, guard_atoms, linear
from sa import util
from rules import common

PROPERTY = "C12"
NEEDS_PYX = False
MOD = "whatshap.cli.stats"

EXPLANATION = (
    "Decides, on whatshap/cli/stats.py (and the genotype classification sites of the package): R1 none-before-hom -- every use of "
    "Genotype.is_homozygous() as the homozygous/heterozygous split excludes the missing genotype first (is_homozygous() is false for ./.), or is a reviewed, "
    "frozen instance with the reason a missing genotype cannot reach it; R2 one bucket per heterozygous call -- in get_phase_blocks every call is counted as a variant, "
    "and after the heterozygous counter every path performs exactly one of {add_unphased, blocks[id].add}; blocks split into phased (len>1) and singletons (len==1) "
    "without gap or overlap, and the DetailedStats fields are wired to those counts; R3 aggregation exhaustiveness -- every attribute initialised in PhasingStats.__init__ "
    "is combined in __iadd__, and the per-chromosome stats reach the total on every path; R4 block list -- one line per key of blocks with leftmost+1, rightmost+1, len; R5 -- the worklist of get_nonoverlapping_blocks is re-sorted with its defining key after every insertion (necessary for splitting interleaved blocks into disjoint pieces)."
)
EXPLANATION += (
    " " + 'R2 also: phased_snvs sums count_snvs() over self.blocks with the same size filter as block_sizes (not over the split pieces) and is wired to DetailedStats.phased_snvs; R4 also: no function of stats.py uses a block / phase-set id as a bare condition (phase set 0 exists).'
)
EXPLANATION += (
    " " + 'R5 also: PhasedBlock.split fills the left piece only under position < split_left and the right piece only under position > split_right, on every path of its loop.'
)
NOT_DECIDED = "The non-overlapping split of interleaved blocks and NG50 arithmetic (value-level)."
ASSUMPTIONS = ["Genotype::is_homozygous() returns false for the missing genotype (src/genotype.cpp, checked by C12.R1's C++ probe)"]


def r1(ctx):
    mods = [MOD, "whatshap.vcf"] if ctx.tier == "quick" else sorted(m for m in ctx.prog.modules if ctx.prog.modules[m].kind == "py")
    for m in mods:
        for fi in ctx.prog.funcs_in(m):
            common.check_none_before_hom(ctx, fi)
    # the premise itself: is_homozygous() answers false for a missing genotype
    import os, re

    src = open(ctx.prog.real(os.path.join("src", "genotype.cpp"))).read()
    mm = re.search(r"bool\s+Genotype::is_homozygous\s*\(\s*\)\s*const\s*\{(.*?)\n\}", src, re.S)
    ctx.require(mm is not None, "Genotype::is_homozygous not found in src/genotype.cpp")
    body = re.sub(r"//[^\n]*", "", mm.group(1))
    premise = re.search(r"if\s*\(\s*is_none\s*\(\s*\)\s*\)\s*return\s+false", body) is not None
    if not premise:
        ctx.note("Genotype::is_homozygous() no longer returns false for the missing genotype first; the none-before-hom premise should be re-read")


def _calls(node, recv, meth):
    return [c for c in ast.walk(node) if isinstance(c, ast.Call) and isinstance(c.func, ast.Attribute) and c.func.attr == meth and (recv is None or u(c.func.value) == recv)]


def r2(ctx):
    fi = ctx.func(MOD + ".get_phase_blocks")
    cfg = ctx.cfg(fi)
    loops = [n for n in walk_function(fi.node) if isinstance(n, ast.For) and _calls(n, None, "add_variants")]
    ctx.require(len(loops) == 1, "per-call loop of get_phase_blocks not found")
    loop = loops[0]
    head = cfg.node_of(loop)

    def nodes_with(pred):
        out = set()
        for n in cfg.g.nodes:
            a = cfg.ast(n)
            if cfg.kind(n) == "stmt" and a is not None and pred(a):
                out.add(n)
        return out

    n_var = nodes_with(lambda a: bool(_calls(a, None, "add_variants")))
    probs = util.check_loop_conservation(cfg, loop, lambda n: n in n_var)
    ok = not probs
    ctx.ob(fi.qual, "every-call-counted-as-variant", ok, fi.loc(loop), "add_variants(1) is reached for every call of the sample" if ok else "a call can pass the loop without being counted as a variant", cfg.describe_path(probs[0][1]) if probs else None)
    n_het = nodes_with(lambda a: bool(_calls(a, None, "add_heterozygous_variants")))
    n_unph = nodes_with(lambda a: bool(_calls(a, None, "add_unphased")))
    def block_key(c):
        """X in `blocks[X].add(..)` -- or in `b.add(..)` where every definition of the local b is blocks[X] / blocks.get(X) /
        a fresh PhasedBlock stored under blocks[X] (get-or-create)"""
        r = c.func.value
        if isinstance(r, ast.Subscript) and u(r.value) == "blocks":
            return u(r.slice)
        if isinstance(r, ast.Name):
            keys = set()
            for s_, v_ in util.assignments_to(fi.node, r.id):
                if isinstance(v_, ast.Subscript) and u(v_.value) == "blocks":
                    keys.add(u(v_.slice))
                elif isinstance(v_, ast.Call) and u(v_.func) == "blocks.get" and len(v_.args) == 1:
                    keys.add(u(v_.args[0]))
                elif isinstance(v_, ast.Call) and u(v_.func) in ("blocks.setdefault",) and v_.args:
                    keys.add(u(v_.args[0]))
                elif isinstance(v_, ast.Call) and u(v_.func) == "PhasedBlock" and isinstance(s_, ast.Assign) and any(isinstance(t_, ast.Subscript) and u(t_.value) == "blocks" for t_ in s_.targets):
                    keys |= {u(t_.slice) for t_ in s_.targets if isinstance(t_, ast.Subscript) and u(t_.value) == "blocks"}
                else:
                    return None
            return keys.pop() if len(keys) == 1 else None
        return None

    n_blk = nodes_with(lambda a: any(block_key(c) is not None for c in _calls(a, None, "add")))
    ctx.require(n_het and n_unph and n_blk, "heterozygous / unphased / block bucket statements not found in get_phase_blocks")
    bad = None
    for h in n_het:
        for s in cfg.g.successors(h):
            p = cfg.find_path(s, head, avoid_nodes=n_unph | n_blk)
            if p is not None:
                bad = [h] + p
    ctx.ob(fi.qual, "het-call-gets-a-bucket", bad is None, fi.loc(loop), "after the heterozygous counter every path reaches add_unphased() or blocks[id].add(...)" if bad is None else "a heterozygous call can be counted without landing in the unphased count or a block", cfg.describe_path(bad))
    both = None
    for a in n_unph:
        for b in n_blk:
            p = cfg.find_path(a, b, avoid_nodes=[head]) or cfg.find_path(b, a, avoid_nodes=[head])
            if p is not None:
                both = p
    ctx.ob(fi.qual, "buckets-exclusive", both is None, fi.loc(loop), "no path counts a call both as unphased and as block member" if both is None else "one call can be counted as unphased and as block member", cfg.describe_path(both))
    # buckets only after the het counter
    pre = None
    for s in cfg.succ(head, "loop"):
        for t in n_unph | n_blk:
            p = cfg.find_path(s, t, avoid_nodes=n_het | {head})
            if p is not None:
                pre = p
    ctx.ob(fi.qual, "buckets-only-for-het", pre is None, fi.loc(loop), "a call reaches a bucket only after being counted heterozygous" if pre is None else "a call can reach a bucket without being counted heterozygous", cfg.describe_path(pre))
    # the block key is the call's own phase set and the block is told its variant
    ok = all(any(block_key(c) == "phase.block_id" and c.args and u(c.args[0]) == u(loop.target.elts[0]) for c in _calls(cfg.ast(n), None, "add")) for n in n_blk)
    ctx.ob(fi.qual, "block-keyed-by-phase-set", ok, fi.loc(loop), "the call is added to blocks[phase.block_id] with its own variant" if ok else "block membership is not keyed by the call's own phase.block_id / variant")

    # split into phased / singletons
    gd = ctx.func(MOD + ".PhasingStats.get_detailed_stats")
    preds = {}
    for n in walk_function(gd.node):
        if isinstance(n, ast.Assign) and len(n.targets) == 1 and isinstance(n.targets[0], ast.Name) and n.targets[0].id in ("block_sizes", "n_singletons"):
            for g in ast.walk(n.value):
                if isinstance(g, ast.comprehension) and u(g.iter) == "self.blocks" and len(g.ifs) == 1:
                    preds[n.targets[0].id] = (g.ifs[0], u(g.target))
    ctx.require(set(preds) == {"block_sizes", "n_singletons"}, "block_sizes / n_singletons definitions over self.blocks not found")

    def ev(test, var, k):
        src = u(test).replace("len(%s)" % var, str(k))
        try:
            tree = ast.parse(src, mode="eval")
        except SyntaxError:
            return None
        for x in ast.walk(tree):
            if not isinstance(x, (ast.Expression, ast.Compare, ast.Constant, ast.cmpop, ast.BoolOp, ast.boolop, ast.UnaryOp, ast.unaryop, ast.Load)):
                return None
        return bool(eval(compile(tree, "<pred>", "eval"), {"__builtins__": {}}))

    vals = [(ev(preds["block_sizes"][0], preds["block_sizes"][1], k), ev(preds["n_singletons"][0], preds["n_singletons"][1], k)) for k in range(1, 8)]
    ok = all(a is not None and b is not None and (a != b) for a, b in vals) and vals[0] == (False, True) and all(v == (True, False) for v in vals[1:])
    ctx.ob(gd.qual, "phased-singleton-partition", ok, gd.loc(), "blocks are split by `%s` / `%s`: every non-empty block is exactly one of phased block, singleton" % (u(preds["block_sizes"][0]), u(preds["n_singletons"][0])) if ok else "the filters `%s` / `%s` do not partition block sizes 1..7 into singleton / phased" % (u(preds["block_sizes"][0]), u(preds["n_singletons"][0])))
    # counts are taken over the real phase sets (self.blocks); only lengths use the split pieces
    ps = util.single_def(gd.node, "phased_snvs")
    ok = False
    if ps is not None and isinstance(ps, ast.Call) and u(ps.func) == "sum" and ps.args and isinstance(ps.args[0], (ast.GeneratorExp, ast.ListComp)) and len(ps.args[0].generators) == 1:
        g = ps.args[0].generators[0]
        var = u(g.target)
        same_filter = len(g.ifs) == 1 and u(g.ifs[0]).replace(var, "_") == u(preds["block_sizes"][0]).replace(preds["block_sizes"][1], "_")
        ok = u(g.iter) == "self.blocks" and same_filter and u(ps.args[0].elt) == "%s.count_snvs()" % var
    ctx.ob(gd.qual, "phased-snvs-over-the-phase-sets", ok, gd.loc(), "phased_snvs sums count_snvs() over the same blocks (self.blocks, same size filter) that make up `phased`" if ok else "phased_snvs is %s: it is not counted over the phase sets that `phased` counts (self.blocks with `%s`)" % (u(ps)[:90] if ps is not None else "?", u(preds["block_sizes"][0])))
    # wiring of the DetailedStats fields
    want = {"phased": "sum(block_sizes)", "unphased": "self.unphased", "singletons": "n_singletons", "heterozygous_variants": "self.heterozygous_variants", "variants": "self.variants", "blocks": "len(block_sizes)", "variant_per_block_sum": "sum(block_sizes)", "phased_snvs": "phased_snvs", "heterozygous_snvs": "self.heterozygous_snvs"}
    ctors = [c for c in ctx.prog.calls_in(gd.node) if isinstance(c.func, ast.Name) and c.func.id == "DetailedStats"]
    ctx.require(len(ctors) >= 1, "DetailedStats(...) construction not found")
    for c in ctors:
        kw = {k.arg: u(k.value) for k in c.keywords}
        ga = guard_atoms(ctx.cfg(gd), ctx.cfg(gd).node_containing(c))
        empty_branch = ("block_sizes", False) in ga
        for f, expr in want.items():
            if empty_branch and f in ("phased", "blocks", "variant_per_block_sum", "phased_snvs"):
                # no non-singleton block: the dataclass default 0 is the right value
                ok = f not in kw or kw[f] in (expr, "0")
            else:
                ok = kw.get(f) == expr
            ctx.ob(gd.qual, "field:%s%s" % (f, ":empty" if empty_branch else ""), ok, gd.loc(c), "DetailedStats.%s = %s" % (f, kw.get(f, "<default>")) if ok else "DetailedStats.%s is %s, expected %s" % (f, kw.get(f, "<default>"), expr))


def r3(ctx):
    init = ctx.func(MOD + ".PhasingStats.__init__")
    iadd = ctx.func(MOD + ".PhasingStats.__iadd__")
    fields = []
    for n in walk_function(init.node):
        if isinstance(n, ast.Assign):
            for t in n.targets:
                if isinstance(t, ast.Attribute) and u(t.value) == "self":
                    fields.append((t.attr, n.value))
    ctx.require(len(fields) >= 5, "PhasingStats.__init__ initialises fewer than 5 attributes")
    other = util.params_of(iadd.node)[1]
    combined = {}
    for n in walk_function(iadd.node):
        if isinstance(n, ast.AugAssign) and isinstance(n.op, ast.Add) and isinstance(n.target, ast.Attribute) and u(n.target.value) == "self":
            combined[n.target.attr] = u(n.value)
        if isinstance(n, ast.Call) and isinstance(n.func, ast.Attribute) and n.func.attr == "extend" and isinstance(n.func.value, ast.Attribute) and u(n.func.value.value) == "self" and n.args:
            combined[n.func.value.attr] = u(n.args[0])
        # self.add_x(other.x) where the method is `self.x += <its parameter>`
        if isinstance(n, ast.Call) and isinstance(n.func, ast.Attribute) and u(n.func.value) == "self" and len(n.args) == 1 and not n.keywords:
            m_ = ctx.prog.functions.get(MOD + ".PhasingStats." + n.func.attr)
            if m_ is not None:
                mp_ = util.params_of(m_.node)
                body_ = [b_ for b_ in m_.node.body if not (isinstance(b_, ast.Expr) and isinstance(b_.value, ast.Constant))]
                if len(mp_) == 2 and len(body_) == 1 and isinstance(body_[0], ast.AugAssign) and isinstance(body_[0].op, ast.Add) and isinstance(body_[0].target, ast.Attribute) and u(body_[0].target.value) == "self" and u(body_[0].value) == mp_[1]:
                    combined[body_[0].target.attr] = u(n.args[0])
    for name, init_val in fields:
        ok = combined.get(name) == "%s.%s" % (other, name)
        ctx.ob(iadd.qual, "summed:%s" % name, ok, iadd.loc(), "self.%s is combined with %s.%s" % (name, other, name) if ok else "attribute %s initialised in __init__ is %s in __iadd__" % (name, "combined with %s" % combined[name] if name in combined else "not combined"))
    rets = [n for n in walk_function(iadd.node) if isinstance(n, ast.Return)]
    icfg = ctx.cfg(iadd)
    comb_nodes = [icfg.node_of(n) for n in walk_function(iadd.node) if (isinstance(n, ast.AugAssign) and isinstance(n.target, ast.Attribute)) or (isinstance(n, ast.Expr) and isinstance(n.value, ast.Call) and isinstance(n.value.func, ast.Attribute) and n.value.func.attr == "extend")]
    skipping = [r for r in rets if not all(icfg.dominates(c_, icfg.node_of(r)) for c_ in comb_nodes)]
    ctx.ob(iadd.qual, "combines-on-every-path", not skipping and bool(comb_nodes), iadd.loc(skipping[0]) if skipping else iadd.loc(), "every return of __iadd__ is dominated by all field combinations" if not skipping else "__iadd__ can return before all counters are combined: a chromosome's counts drop out of the ALL row")
    ok = bool(rets) and all(u(r.value) == "self" for r in rets)
    ctx.ob(iadd.qual, "returns-self", ok, iadd.loc(), "__iadd__ returns self" if ok else "__iadd__ does not return self on every return")
    # per-chromosome stats reach the total
    run = ctx.func(MOD + ".run_stats")
    cfg = ctx.cfg(run)
    loops = [n for n in walk_function(run.node) if isinstance(n, ast.For) and any(isinstance(c.func, ast.Name) and c.func.id == "get_phase_blocks" for c in ast.walk(n) if isinstance(c, ast.Call))]
    ctx.require(len(loops) == 1, "chromosome loop of run_stats not found")
    loop = loops[0]
    head = cfg.node_of(loop)
    gp = [n for n in cfg.g.nodes if cfg.kind(n) == "stmt" and any(isinstance(c.func, ast.Name) and c.func.id == "get_phase_blocks" for c in ast.walk(cfg.ast(n)) if isinstance(c, ast.Call))]
    inloop = {id(x) for x in ast.walk(loop)}
    adds = {n for n in cfg.g.nodes if cfg.kind(n) == "stmt" and isinstance(cfg.ast(n), ast.AugAssign) and isinstance(cfg.ast(n).op, ast.Add) and u(cfg.ast(n).target) == "total_stats" and id(cfg.ast(n)) in inloop}
    added_value = {n: u(cfg.ast(n).value) for n in adds}
    # collect-then-sum: the chromosome's object is appended to a list that a later loop adds, element by element, to total_stats
    for lp_ in [x for x in walk_function(run.node) if isinstance(x, ast.For) and id(x) not in inloop and isinstance(x.iter, ast.Name) and isinstance(x.target, ast.Name)]:
        if any(isinstance(b_, ast.AugAssign) and isinstance(b_.op, ast.Add) and u(b_.target) == "total_stats" and u(b_.value) == lp_.target.id for b_ in lp_.body) and not util.lexical_loop_exits(lp_):
            for n in cfg.g.nodes:
                a_ = cfg.ast(n)
                if cfg.kind(n) == "stmt" and isinstance(a_, ast.Expr) and isinstance(a_.value, ast.Call) and isinstance(a_.value.func, ast.Attribute) and a_.value.func.attr == "append" and u(a_.value.func.value) == lp_.iter.id and len(a_.value.args) == 1 and id(a_) in inloop:
                    adds.add(n)
                    added_value[n] = u(a_.value.args[0])
    blk = {n for n in cfg.g.nodes if cfg.kind(n) == "stmt" and any(c.func.attr == "add_blocks" for c in ast.walk(cfg.ast(n)) if isinstance(c, ast.Call) and isinstance(c.func, ast.Attribute))}
    bad = None
    for g in gp:
        for target in (head, cfg.exit):
            p = cfg.find_path(g, target, avoid_nodes=adds)
            if p is not None:
                bad = p
        p = cfg.find_path(g, list(adds)[0], avoid_nodes=blk) if adds else None
        if p is not None:
            bad = p
    ctx.ob(run.qual, "chromosome-stats-reach-total", bad is None and bool(adds), run.loc(loop), "every chromosome's stats get their blocks and are added to total_stats on every path" if bad is None and adds else "a chromosome's stats can miss add_blocks or the aggregation into total_stats", cfg.describe_path(bad))
    # the only way out of the chromosome loop before the file is exhausted: all requested chromosomes were seen
    exits = util.lexical_loop_exits(loop)
    for ex in exits:
        if not isinstance(ex, ast.Break):
            continue
        ga = guard_atoms(cfg, cfg.node_of(ex))
        # `requested <= seen` (canonical: not (seen < requested)), requested = set(given_chromosomes) directly or through a local
        def is_requested(txt):
            txt = txt.strip()
            forms = ("set(given_chromosomes)", "set(given_chromosomes or ())", "frozenset(given_chromosomes)", "set(given_chromosomes or [])")
            if txt in forms:
                return True
            if txt.isidentifier():
                d_ = util.single_def(run.node, txt)
                return d_ is not None and u(d_) in forms
            return False

        sub = False
        for t, p_ in ga:
            m_ = re.fullmatch(r"seen_chromosomes < (.+)", t)
            if m_ and not p_ and is_requested(m_.group(1)):
                sub = True
            m_ = re.fullmatch(r"(.+) <= seen_chromosomes", t)
            if m_ and p_ and is_requested(m_.group(1)):
                sub = True
            m_ = re.fullmatch(r"(.+) LtE seen_chromosomes", t)
            if m_ and p_ and is_requested(m_.group(1)):
                sub = True
        ok = ("given_chromosomes", True) in ga and sub
        ctx.ob(run.qual, "early-exit-only-when-all-requested-seen", ok, run.loc(ex), "the chromosome loop stops early only when every requested chromosome has been seen" if ok else "the chromosome loop can stop before all requested chromosomes were processed (guards: %s)" % sorted(t for t, p in ga if "chrom" in t))
        sd = [c_ for c_ in ctx.prog.calls_in(loop) if u(c_.func) == "seen_chromosomes.add"]
        ok2 = (None if not sd else (len(sd) == 1 and u(sd[0].args[0]) == "chromosome" and cfg.dominates(cfg.node_containing(sd[0]), cfg.node_of(ex))))
        ctx.ob(run.qual, "seen-set-tracks-every-chromosome", ok2, run.loc(ex), "seen_chromosomes records every chromosome of the file as it is met" if ok2 else "seen_chromosomes does not record every chromosome")
    # same operand: the stats object filled by get_phase_blocks is the one aggregated
    ok = False
    for g in gp:
        for c in ast.walk(cfg.ast(g)):
            if isinstance(c, ast.Call) and isinstance(c.func, ast.Name) and c.func.id == "get_phase_blocks":
                callee = ctx.func(MOD + ".get_phase_blocks")
                params = util.params_of(callee.node)
                argmap = dict(zip(params, [u(a) for a in c.args]))
                argmap.update({k.arg: u(k.value) for k in c.keywords})
                ok = all(added_value.get(a) == argmap.get("stats") for a in adds)
    ctx.ob(run.qual, "aggregated-object-is-the-filled-one", ok, run.loc(loop), "total_stats += the PhasingStats object that get_phase_blocks filled" if ok else "the object added to total_stats is not the one passed to get_phase_blocks")


def r4(ctx):
    fi = ctx.func(MOD + ".write_to_block_list")
    loops = [n for n in walk_function(fi.node) if isinstance(n, ast.For)]
    ctx.require(len(loops) == 1, "block list loop not found")
    loop = loops[0]
    params = util.params_of(fi.node)
    blocks = params[1]
    it = loop.iter
    src = util.single_def(fi.node, it.id) if isinstance(it, ast.Name) else it
    ok = src is not None and u(src) in ("sorted(%s.keys())" % blocks, "sorted(%s)" % blocks, "%s.keys()" % blocks, "%s" % blocks)
    ctx.ob(fi.qual, "one-line-per-phase-set", ok, fi.loc(loop), "the loop visits every key of the blocks map once" if ok else "the block list loop iterates %s, not every key of %s" % (u(src) if src is not None else "?", blocks))
    key = u(loop.target)
    prints = [c for c in ast.walk(loop) if isinstance(c, ast.Call) and isinstance(c.func, ast.Name) and c.func.id == "print"]
    ctx.require(len(prints) == 1, "print of the block list line not found")
    args = [u(a) for a in prints[0].args]
    b = "%s[%s]" % (blocks, key)
    want = {"leftmost+1": "%s.leftmost_variant.position + 1" % b, "rightmost+1": "%s.rightmost_variant.position + 1" % b, "size": "len(%s)" % b, "id": key}
    for k, w in want.items():
        ok = w in args
        ctx.ob(fi.qual, "column:%s" % k, ok, fi.loc(prints[0]), "block list prints %s" % w if ok else "block list does not print %s (columns: %s)" % (w, args))
    ok = any(k.arg == "file" and u(k.value) == params[0] for k in prints[0].keywords)
    ctx.ob(fi.qual, "printed-to-block-list-file", ok, fi.loc(prints[0]), "the line goes to the block list file" if ok else "the line is not printed to the block list file")
    # phase set 0 is a phase set: ids are compared with None, never used as booleans
    n_fn = 0
    for q, f2 in sorted(ctx.prog.functions.items()):
        if not q.startswith(MOD + "."):
            continue
        n_fn += 1
        for node, txt in common.id_truthiness_tests(f2.node):
            ctx.ob(f2.qual, "phase-set-id-not-used-as-boolean:%s" % txt, False, f2.loc(node), "`%s` is tested for truthiness: phase set 0 ('|'-phased calls without PS) is treated as 'no phase set', its extent is not reported" % txt)
    ctx.ob(MOD, "phase-set-id-not-used-as-boolean", True, "whatshap/cli/stats.py", "%d functions of stats.py scanned: block / phase-set ids only occur in comparisons (is None, ==, !=), never as a bare condition" % n_fn)
    # caller passes the map that get_phase_blocks returned
    run = ctx.func(MOD + ".run_stats")
    ok = False
    for c in ctx.prog.calls_in(run.node):
        if isinstance(c.func, ast.Name) and c.func.id == "write_to_block_list" and len(c.args) >= 2 and isinstance(c.args[1], ast.Name):
            d = util.single_def(run.node, c.args[1].id)
            ok = d is not None and isinstance(d, ast.Call) and u(d.func) == "get_phase_blocks"
    ctx.ob(run.qual, "block-list-gets-the-computed-blocks", ok, run.loc(), "write_to_block_list receives the map returned by get_phase_blocks" if ok else "write_to_block_list does not receive get_phase_blocks' result")
    # a phase block's extent is maintained by add(): min / max over its variants
    add = ctx.func(MOD + ".PhasedBlock.add")
    cfg = ctx.cfg(add)
    # per path: the extent is overwritten with the new variant exactly when the block was empty or the variant lies outside it
    from sa import pathfx
    from rules.common import path_implies

    sums = pathfx.summaries(cfg)
    EMPTY, LT, GT = "self.phases", "variant < self.leftmost_variant", "self.rightmost_variant < variant"
    bad = None
    for ps in sums:
        for attr, cmp_ in (("leftmost_variant", LT), ("rightmost_variant", GT)):
            st_ = [e_ for e_ in ps.effects if e_[0] == "store" and u(e_[1]) == "self.%s" % attr]
            if st_:
                okp = all(u(e_[2]) == "variant" for e_ in st_) and path_implies(ps.atoms, [EMPTY, cmp_], lambda env, c_=cmp_: (not env[EMPTY]) or env[c_])
            else:
                okp = path_implies(ps.atoms, [EMPTY, cmp_], lambda env, c_=cmp_: env[EMPTY] and not env[c_])
            if not okp and bad is None:
                bad = (ps, attr, bool(st_))
    ok = bad is None and len(sums) >= 3
    ctx.ob(add.qual, "extent-min-max", ok, add.loc(), "on all %d paths of PhasedBlock.add: leftmost/rightmost become the new variant exactly when the block was empty or the variant lies left/right of the extent" % len(sums) if ok else "PhasedBlock.add does not maintain leftmost as minimum and rightmost as maximum (%s is %s on a path where that is wrong)" % (bad[1] if bad else "?", "overwritten" if bad and bad[2] else "kept"), cfg.describe_path(bad[0].path) if bad else None)


def r5(ctx):
    """Sorted-worklist discipline of get_nonoverlapping_blocks: whoever adds to the worklist re-sorts it
    with the key/direction that defines it (the loop pops from the end and peeks at [-1])."""
    fi = ctx.func(MOD + ".PhasingStats.get_nonoverlapping_blocks")
    cfg = ctx.cfg(fi)
    wl = "pos_sorted_blocks"
    sorts = [(s, v) for s, v in util.assignments_to(fi.node, wl) if isinstance(v, ast.Call) and u(v.func) == "sorted"]
    ctx.require(len(sorts) >= 1, "initial sort of the worklist not found")

    def sig(call):
        key = [u(k.value) for k in call.keywords if k.arg == "key"]
        rev = [u(k.value) for k in call.keywords if k.arg == "reverse"]
        return (key[0] if key else None, rev[0] if rev else "False")

    first = sorts[0][1]
    base = sig(first)
    ok = base[0] is not None and "leftmost_variant.position" in base[0] and "chromosome" in base[0] and base[1] == "True"
    ctx.ob(fi.qual, "worklist-sorted-by-chromosome-and-start", ok, fi.loc(sorts[0][0]), "the worklist is sorted by (chromosome, start) descending; pop() takes the leftmost block" if ok else "the initial sort key/direction of the worklist changed: %s" % (base,))
    grows = [c for c in ctx.prog.calls_in(fi.node) if isinstance(c.func, ast.Attribute) and u(c.func.value) == wl and c.func.attr in ("append", "insert", "extend", "appendleft")]
    for c in grows:
        node = cfg.node_containing(c)
        resorts = {cfg.node_of(s) for s, v in sorts[1:] if sig(v) == base and u(v.args[0]) == wl} | {cfg.node_containing(x) for x in ctx.prog.calls_in(fi.node) if u(x.func) == "%s.sort" % wl and sig(x) == base}
        users = {n for n in cfg.g.nodes if n != node and cfg.ast(n) is not None and cfg.kind(n) in ("stmt", "test") and any(isinstance(x, ast.Call) and u(x.func) == "%s.pop" % wl or (isinstance(x, ast.Subscript) and u(x.value) == wl) for x in ast.walk(cfg.ast(n)))}
        bad = None
        for t in users:
            p = cfg.find_path(node, t, avoid_nodes=resorts, start_after=True)
            if p is not None:
                bad = p
        ctx.ob(fi.qual, "resorted-after:%s" % u(c)[:50], bad is None, fi.loc(c), "after %s the worklist is re-sorted with the defining key before it is popped or peeked again" % u(c)[:50] if bad is None else "%s adds a block without re-sorting the worklist by its defining key: overlapping phase sets can both be emitted whole" % u(c)[:50], cfg.describe_path(bad))
    ctx.require(len(grows) >= 1, "no insertion into the worklist found")
    # a block is split exactly when the next block starts before it ends: the overlap test compares the end of the popped block
    # with the START of the next one (with its end, staggered sets -- second starts inside the first and ends behind it --
    # are emitted whole and the lengths add up to more than the covered span)
    splits = [c for c in ctx.prog.calls_in(fi.node) if isinstance(c.func, ast.Attribute) and c.func.attr == "split"]
    if len(splits) == 1:
        ga = util.expanded_guard_atoms(cfg, fi.node, cfg.node_containing(splits[0]), keep=(wl,))
        cmps = [(t_, p_) for t_, p_ in ga if "rightmost_variant.position" in t_ and (" < " in t_ or " <= " in t_)]
        with_start = [(t_, p_) for t_, p_ in cmps if "leftmost_variant.position" in t_]
        okv = None
        if with_start:
            t_, p_ = with_start[0]
            l_, r_ = re.split(r" <=? ", t_, 1)
            strict = " < " in t_
            # next.start < cur.end (True)  or  cur.end <= next.start (False)
            okv = (("leftmost" in l_ and "rightmost" in r_ and strict and p_) or ("rightmost" in l_ and "leftmost" in r_ and not strict and not p_))
        elif cmps:
            okv = False
        ctx.ob(fi.qual, "overlap-test-end-against-next-start", okv, fi.loc(splits[0]), "a block is split when the next block starts before it ends" if okv else ("the split is guarded by %s: the popped block's end is not compared with the next block's start, so staggered phase sets are not separated and block lengths add up to more than the covered span" % [t_ for t_, _ in cmps] if okv is False else "cannot read the overlap test that guards block.split(...)"))
    else:
        ctx.ob(fi.qual, "overlap-test-end-against-next-start", None, fi.loc(), "block.split(...) call not found")
    filt = [(s, v) for s, v in util.assignments_to(fi.node, wl) if isinstance(v, ast.ListComp)]
    ok = (None if not filt else (len(filt) == 1 and not filt[0][1].generators[0].ifs == [] and u(filt[0][1].generators[0].iter) == wl))
    ctx.ob(fi.qual, "filter-keeps-order", ok, fi.loc(), "singleton filtering keeps the sorted order (list comprehension over the sorted list)" if ok else "the singleton filter no longer preserves the sorted order")


def r6(ctx):
    """The SNV count: a variant is an SNV only if every allele is a single base."""
    fis = [f for q, f in sorted(ctx.prog.functions.items()) if q.startswith("whatshap.vcf.") and q.endswith(".is_snv")]
    fis = [f for f in fis if not all(isinstance(b, ast.Pass) or (isinstance(b, ast.Expr) and isinstance(b.value, ast.Constant)) for b in f.node.body)]
    ctx.require(len(fis) >= 1, "no is_snv implementation in whatshap.vcf")
    for fi in fis:
        rets = [n for n in walk_function(fi.node) if isinstance(n, ast.Return) and n.value is not None]
        if len(rets) != 1:
            ctx.ob(fi.qual, "snv-means-single-base-alleles", None, fi.loc(), "is_snv has %d return statements" % len(rets))
            continue
        e = util.expand_single_defs(fi.node, rets[0].value) if hasattr(util, "expand_single_defs") else rets[0].value
        conj = []

        def flat(x):
            if isinstance(x, ast.BoolOp) and isinstance(x.op, ast.And):
                for v in x.values:
                    flat(v)
            else:
                conj.append(x)

        flat(e)
        parent = {}

        def find(a):
            parent.setdefault(a, a)
            while parent[a] != a:
                a = parent[a]
            return a

        allone = set()  # sequences every element of which has length 1
        for c in conj:
            if isinstance(c, ast.Compare) and all(isinstance(o, ast.Eq) for o in c.ops):
                terms = [u(c.left)] + [u(x) for x in c.comparators]
                for a, b in zip(terms, terms[1:]):
                    parent[find(a)] = find(b)
            elif isinstance(c, ast.Call) and u(c.func) == "all" and len(c.args) == 1 and isinstance(c.args[0], (ast.GeneratorExp, ast.ListComp)) and len(c.args[0].generators) == 1 and not c.args[0].generators[0].ifs:
                g = c.args[0].generators[0]
                el = c.args[0].elt
                if isinstance(el, ast.Compare) and len(el.ops) == 1 and isinstance(el.ops[0], ast.Eq) and {u(el.left), u(el.comparators[0])} == {"len(%s)" % u(g.target), "1"}:
                    allone.add(u(g.iter))
        unknown = [c for c in conj if not (isinstance(c, ast.Compare) and all(isinstance(o, (ast.Eq, ast.NotEq)) for o in c.ops) and not any(isinstance(x, ast.Call) and u(x.func) != "len" for x in ast.walk(c))) and not (isinstance(c, ast.Call) and u(c.func) in ("all", "any") and any(("len(%s)" % u(g_.target)) in u(c) or u(c.func) == "any" for g_ in getattr(c.args[0], "generators", [])[:1]))]
        missing = []
        for attr in ("reference_allele", "alternative_allele", "alternative_alleles"):
            if not any(isinstance(x, ast.Attribute) and x.attr == attr for x in ast.walk(fi.node)) and attr != "reference_allele":
                continue
            t = "self.%s" % attr
            single = find("len(%s)" % t) == find("1")
            if attr == "alternative_alleles":
                single = t in allone
            if not single:
                missing.append(attr)
        ok = not missing
        if missing and unknown:
            ok = None  # a condition this rule cannot read may be what bounds the lengths
        ctx.ob(fi.qual, "snv-means-single-base-alleles", ok, fi.loc(rets[0]), "is_snv requires length 1 of the reference and of every alternative allele" if ok else "is_snv does not require length 1 of %s: a multi-base substitution is counted as SNV by `whatshap stats` (and kept by --only-snvs)" % ", ".join(missing))


def r5_split(ctx):
    """PhasedBlock.split(split_left, split_right): the left piece keeps the variants strictly left of split_left, the right
    piece those strictly right of split_right -- so the pieces of a cut phase set stay clear of the span [split_left,
    split_right] of the set that cuts it, and the emitted pieces do not overlap."""
    sp = ctx.func(MOD + ".PhasedBlock.split")
    cfg = ctx.cfg(sp)
    ps_ = util.params_of(sp.node)
    lo, hi = ps_[1], ps_[2]
    rets = [n for n in walk_function(sp.node) if isinstance(n, ast.Return) and isinstance(n.value, ast.Tuple) and len(n.value.elts) == 2]
    loops = [n for n in walk_function(sp.node) if isinstance(n, ast.For)]
    if len(rets) != 1 or len(loops) != 1:
        ctx.ob(sp.qual, "split-pieces-clear-of-the-cutting-span", None, sp.loc(), "cannot read how split() fills its two pieces")
        return
    left, right = u(rets[0].value.elts[0]), u(rets[0].value.elts[1])
    from sa import pathfx

    try:
        sums = pathfx.iteration_summaries(cfg, loops[0])
    except OverflowError:
        sums = []
    tg = loops[0].target
    var = u(tg.elts[0]) if isinstance(tg, ast.Tuple) and tg.elts else u(tg)
    pos = "%s.position" % var
    ok, why, seen = (True if sums else None), "cannot enumerate the paths of one iteration", set()
    for ps in sums:
        adds = [e_[1] for e_ in ps.effects if e_[0] == "call" and isinstance(e_[1].func, ast.Attribute) and e_[1].func.attr == "add" and len(e_[1].args) == 2]
        is_left, is_right = ps.has("%s < %s" % (pos, lo), True), ps.has("%s < %s" % (hi, pos), True)
        for c in adds:
            r_ = u(c.func.value)
            seen.add(r_)
            if r_ == left and not is_left:
                ok, why = False, "the left piece receives a variant without `%s < %s` having been established (%s)" % (pos, lo, sorted(t for t, p_ in ps.atoms if p_ and pos in t))
            elif r_ == right and not is_right:
                ok, why = False, "the right piece receives a variant without `%s > %s` having been established (%s)" % (pos, hi, sorted(t for t, p_ in ps.atoms if p_ and pos in t))
            elif r_ not in (left, right) and ok:
                ok, why = None, "a piece other than the two returned ones is filled (%s)" % r_
        if ok and ((is_left and not any(u(c.func.value) == left for c in adds)) or (is_right and not any(u(c.func.value) == right for c in adds))):
            ok, why = False, "a variant left of %s / right of %s is not put into its piece" % (lo, hi)
    if ok and seen != {left, right}:
        ok, why = None, "cannot read how split() fills its two pieces"
    ctx.ob(sp.qual, "split-pieces-clear-of-the-cutting-span", ok, sp.loc(), "left piece: position < %s, right piece: position > %s" % (lo, hi) if ok else why + ("" if ok is None else ": a piece of a cut phase set reaches into the set that cuts it, so the `non-overlapping` blocks overlap and the bp-per-block statistics are inflated"))

RULES = [
    ("C12.R1", "none-before-hom: missing genotype excluded before the hom/het split", r1),
    ("C12.R2", "one bucket per heterozygous call; phased/singleton partition; fields", r2),
    ("C12.R3", "aggregation exhaustiveness of PhasingStats.__iadd__ and total", r3),
    ("C12.R4", "block list: one line per phase set with 1-based extent and size", r4),
    ("C12.R5", "non-overlapping split: the sorted worklist is re-sorted after insertions; pieces stay clear of the cutting span", lambda ctx: (r5(ctx), r5_split(ctx))),
    ("C12.R6", "SNV classification requires single-base alleles", r6),
]
# instance floors: about 60% of the instances confirmed by hand on the reference tree -- a rule that suddenly matches far fewer
# sites fails the run (exit 2); a clean-up that merges two sites into one does not
FLOORS = {"C12.R1": 2, "C12.R2": 8, "C12.R3": 7, "C12.R4": 4, "C12.R5": 1, "C12.R6": 2}
