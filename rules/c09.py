"""C09 -- PS/HP encodings agree, round-trip, and old phase never survives re-phasing (structural clauses)."""
import ast

from sa.model import walk_function, AnalysisError
from sa.norm import u, atoms, guard_atoms, linear
from sa import util
from rules.c13 import carrier_set

PROPERTY = "C09"
NEEDS_PYX = True
V = "whatshap.vcf"
W = V + ".PhasedVcfWriter"
R = V + ".VcfReader"

EXPLANATION = (
    "Decides, on whatshap/vcf.py: R1 codec agreement -- the grammar written by _set_HP (items '<component+1>-<allele+1>' joined by ',', one per GT allele) and the one "
    "read by _extract_HP_phase (split('-'), block id = first field, haplotype = second field - 1, permutation applied to GT) agree in separators, offsets and item order; "
    "for PS, the value written (component + 1, GT order = phase tuple, phased flag set) is what _extract_GT_PS_phase returns; the setter slot is bound consistently with the header line; "
    "R2 kill set -- every per-call carrier of OLD phase that any decoder reads (HP, PS, PQ and the phased flag, computed from the decoders) is cleared for every target sample of every record "
    "on every path before it is written, independently of --tag; R3 -- the GT normalisation (sorted) that _set_HP's encoding presupposes is performed for both tags; "
    "R4 pseudo reads -- phased_blocks_as_reads adds allele phase[i] to read i of the call's own block in both branches, skips homozygous / unphased / wrong-ploidy / unrequested calls first, "
    "and yields only reads with more than one variant."
)
EXPLANATION += (
    " " + 'R4 also: PhasedInputReader.read (called once per sample) never modifies the per-chromosome tables of the phase-input VCFs or anything reached from them by plain attribute/subscript/iteration views.'
)
EXPLANATION += (
    " " + 'R6 = C07.R2: whether a pseudo read fits under the cap is tested on its own half-open span.'
)
NOT_DECIDED = "Equality of the decoded outputs of two whole runs; reproduction of input blocks under the coverage cap (solver behaviour)."
ASSUMPTIONS = ["pysam returns a String FORMAT field with Number=. as a tuple of its comma-separated items", "the target samples of a run are the keys of sample_superreads"]


def _fstring_parts(js):
    parts = []
    for v in js.values:
        if isinstance(v, ast.Constant):
            parts.append(("lit", v.value))
        elif isinstance(v, ast.FormattedValue):
            parts.append(("expr", v.value))
    return parts


def r1(ctx):
    hp = ctx.func(W + "._set_HP")
    dec = ctx.func(R + "._extract_HP_phase")
    st = [s for s in util.store_sites(hp.node) if s.kind == "subscript" and util.const_key(s.target) == "HP"]
    ctx.require(len(st) == 1, "store to call['HP'] not found in _set_HP")
    v = st[0].value
    ok_shape = isinstance(v, ast.Call) and isinstance(v.func, ast.Attribute) and v.func.attr == "join" and isinstance(v.func.value, ast.Constant) and isinstance(v.args[0], (ast.GeneratorExp, ast.ListComp))
    ctx.require(ok_shape, "HP value is not '<sep>'.join(<item> for allele in phase)")
    item_sep = v.func.value.value
    gen = v.args[0]
    params = util.params_of(hp.node)
    comp_p, phase_p = params[2], params[3]
    ok = u(gen.generators[0].iter) == phase_p and not gen.generators[0].ifs
    ctx.ob(hp.qual, "hp-one-item-per-allele-in-phase-order", ok, hp.loc(st[0].stmt), "one HP item per element of the phase tuple, in order" if ok else "HP items are not generated per element of `%s`" % phase_p)
    parts = _fstring_parts(gen.elt) if isinstance(gen.elt, ast.JoinedStr) else []
    ok = (None if not parts else (len(parts) == 3 and parts[0][0] == "expr" and parts[1][0] == "lit" and parts[2][0] == "expr"))
    ctx.require(ok, "HP item is not f'{a}<lit>{b}'")
    w_first, w_sep, w_second = parts[0][1], parts[1][1], parts[2][1]
    allele_v = u(gen.generators[0].target)
    lf1, lf2 = linear(w_first), linear(w_second)
    # decoder
    splits = [c for c in ctx.prog.calls_in(dec.node, include_nested=True) if isinstance(c.func, ast.Attribute) and c.func.attr == "split"]
    ctx.require(len(splits) == 1 and splits[0].args and isinstance(splits[0].args[0], ast.Constant), "split(<sep>) not found in _extract_HP_phase")
    r_sep = splits[0].args[0].value
    ok = r_sep == w_sep
    ctx.ob(dec.qual, "hp-field-separator", ok, dec.loc(splits[0]), "writer and reader use %r between block id and haplotype" % w_sep if ok else "writer separates with %r, reader splits on %r" % (w_sep, r_sep))
    ok = item_sep == ","
    ctx.ob(hp.qual, "hp-item-separator", ok, hp.loc(st[0].stmt), "items are joined with ',' (htslib's separator of Number=. values)" if ok else "items are joined with %r, not ','" % item_sep)
    # block id: first field; haplotype: second field - 1
    bid = util.single_def(dec.node, "block_id")
    order = util.single_def(dec.node, "order")
    ok = bid is not None and u(bid) == "fields[0][0]" and lf1 == {comp_p: 1, "": 1}
    ctx.ob(dec.qual, "hp-block-id-offset", ok, dec.loc(), "writer stores component + 1 as first field; reader takes fields[0][0] as block id (same convention as PS)" if ok else "first HP field: writer %s, reader block_id = %s" % (u(w_first), u(bid) if bid is not None else "?"))
    ok = False
    if isinstance(order, ast.ListComp):
        lfo = linear(order.elt)
        tgt = u(order.generators[0].target)
        ok = lfo == {"%s[1]" % tgt: 1, "": -1} and u(order.generators[0].iter) == "fields" and lf2 == {allele_v: 1, "": 1}
    ctx.ob(dec.qual, "hp-haplotype-offset", ok, dec.loc(), "writer stores allele + 1 as second field; reader subtracts 1" if ok else "second HP field: writer %s, reader %s" % (u(w_second), u(order) if order is not None else "?"))
    # permutation applied to GT: judged on what the decoder RETURNS (path summaries, temporaries substituted)
    def returned_kwargs(fn):
        from sa import pathfx

        kws = []
        for ps_ in pathfx.summaries(ctx.cfg(fn), value_only=True):
            for r_ in ps_.returns():
                v_ = r_[1]
                if isinstance(v_, ast.Call) and u(v_.func) == "VariantCallPhase":
                    kws.append({k.arg: k.value for k in v_.keywords})
        return kws

    hk = returned_kwargs(dec)
    from sa.pathfx import canon_comprehension_vars as _ccv

    want_perm = "tuple((call['GT'][order.index(_c0)]for_c0inrange(len(order))))"
    ok = bool(hk) and all("phase" in k and u(_ccv(k["phase"])).replace(" ", "") == want_perm for k in hk)
    ctx.ob(dec.qual, "hp-permutation-of-gt", ok, dec.loc(), "decoded phase[i] = GT[position of haplotype i in the item list]" if ok else "decoder does not apply the item order as a permutation of GT: phase = %s" % ([u(k.get("phase"))[:80] for k in hk] or "?"))
    # the encoder leaves GT alone
    gt = [s for s in util.store_sites(hp.node) if s.kind == "subscript" and util.const_key(s.target) == "GT"]
    ctx.ob(hp.qual, "hp-encoder-keeps-gt", not gt, hp.loc(), "_set_HP does not touch GT (its items describe GT's alleles in GT order)" if not gt else "_set_HP rewrites GT")
    # PS
    ps = ctx.func(W + "._set_PS")
    dps = ctx.func(R + "._extract_GT_PS_phase")
    stores = {util.const_key(s.target): s for s in util.store_sites(ps.node) if s.kind == "subscript"}
    pparams = util.params_of(ps.node)
    ok = "PS" in stores and linear(stores["PS"].value) == {pparams[2]: 1, "": 1}
    pk = returned_kwargs(dps)
    okb = bool(pk) and all(isinstance(k.get("block_id"), ast.Call) and u(k["block_id"].func).endswith(".get") and u(k["block_id"].args[0]) == "'PS'" for k in pk)
    ctx.ob(ps.qual, "ps-block-id-offset", ok and okb, ps.loc(), "PS = component + 1 is read back verbatim as block id" if ok and okb else "PS write/read offsets disagree")
    ok = "GT" in stores and u(stores["GT"].value) == pparams[3]
    okp = bool(pk) and all(u(k.get("phase")) == "call['GT']" for k in pk)
    ctx.ob(ps.qual, "ps-gt-order-is-the-phase", ok and okp, ps.loc(), "GT is written in phase-tuple order and read back verbatim" if ok and okp else "GT order is not the phase tuple on write or not taken verbatim on read")
    flag = [s for s in util.store_sites(ps.node) if s.kind == "attr" and s.target.attr == "phased" and isinstance(s.value, ast.Constant) and s.value.value is True]
    cfgd = ctx.cfg(dps)
    rets = [n for n in walk_function(dps.node) if isinstance(n, ast.Return) and n.value is not None and not (isinstance(n.value, ast.Constant) and n.value.value is None)]
    okf = bool(flag) and bool(rets) and all(("call.phased", True) in guard_atoms(cfgd, cfgd.node_of(r_)) for r_ in rets)
    ctx.ob(ps.qual, "ps-phased-flag", okf, ps.loc(), "the phased flag is set on write and required on read" if okf else "phased flag is not set by _set_PS or not required by _extract_GT_PS_phase")
    # the "no phase" value of HP: pysam writes None as an EMPTY string for this String field, which cannot be decoded
    wr = ctx.func(W + ".write")
    rmf = ctx.func(W + "._remove_existing_phasing")
    for f in (wr, rmf):
        for st_ in util.store_sites(f.node):
            if st_.kind != "subscript":
                continue
            k = util.const_key(st_.target)
            tagvar = u(st_.target.slice) == "self.tag"
            loopkeys = None
            if isinstance(st_.target.slice, ast.Name):
                from rules.c04 import _loop_literal_keys

                loopkeys = _loop_literal_keys(st_, st_.target.slice.id)
            may_be_hp = k == "HP" or tagvar or (loopkeys is not None and "HP" in loopkeys)
            if not may_be_hp:
                continue
            v = st_.value
            clears_with_none = isinstance(v, ast.Constant) and v.value is None
            if k == "HP" and not clears_with_none and not (isinstance(v, ast.Constant)):
                continue  # a real HP value
            okm = not clears_with_none
            if loopkeys is not None and isinstance(v, ast.Name):
                # for tag, missing in (("HP", "."), ...): the value paired with HP must be "."
                lp = st_.stmt
                while lp is not None and not (isinstance(lp, ast.For) and isinstance(lp.iter, (ast.Tuple, ast.List))):
                    lp = getattr(lp, "parent", None)
                pairs = {e.elts[0].value: e.elts[1] for e in lp.iter.elts if isinstance(e, ast.Tuple) and len(e.elts) == 2 and isinstance(e.elts[0], ast.Constant)} if lp is not None else {}
                okm = "HP" in pairs and isinstance(pairs["HP"], ast.Constant) and pairs["HP"].value == "."
            elif tagvar and isinstance(v, ast.IfExp):
                okm = atoms(v.test, True) == {("'HP' == self.tag", True)} and isinstance(v.body, ast.Constant) and v.body.value == "."
            ctx.ob(f.qual, "hp-missing-value:%s" % st_.text()[:50], okm, f.loc(st_.stmt), "a cleared HP is written as '.', which the decoder maps to 'no phase'" if okm else "%s can store None into the String field HP: htslib writes an empty value that _extract_HP_phase cannot decode in multi-sample files" % st_.text()[:60])
    hpv = util.single_def(dec.node, "hp")
    tests = [n for n in walk_function(dec.node) if isinstance(n, ast.If) and any(isinstance(b, ast.Return) and (b.value is None or (isinstance(b.value, ast.Constant) and b.value.value is None)) for b in n.body)]
    okd = False
    if tests and hpv is not None:
        # values that send the decoder to `return None`: disjuncts `hp is X`, `hp == X`, `hp in (X, Y, ...)`
        cands = set()
        disj = tests[0].test.values if isinstance(tests[0].test, ast.BoolOp) and isinstance(tests[0].test.op, ast.Or) else [tests[0].test]
        for d_ in disj:
            if isinstance(d_, ast.Compare) and len(d_.ops) == 1:
                l_, r_ = d_.left, d_.comparators[0]
                if isinstance(d_.ops[0], (ast.Is, ast.Eq)):
                    if u(l_) == "hp":
                        cands.add(u(r_))
                    elif u(r_) == "hp":
                        cands.add(u(l_))
                elif isinstance(d_.ops[0], ast.In) and u(l_) == "hp" and isinstance(r_, (ast.Tuple, ast.List, ast.Set)):
                    cands |= {u(x) for x in r_.elts}
        okd = {"None", "('.',)"} <= cands
    ctx.ob(dec.qual, "hp-missing-value-decoded", okd, dec.loc(), "the decoder treats None and ('.',) as 'no HP phase'" if okd else "the decoder does not map a missing HP value to 'no phase'")
    # slot binding
    init = ctx.func(W + ".__init__")
    slot = [s for s in util.store_sites(init.node) if s.kind == "attr" and s.target.attr == "_set_phasing_tags"]
    from rules.common import dispatch_table

    table = dispatch_table(slot[0].value, "tag") if len(slot) == 1 else None
    if len(slot) > 1:
        # one store per branch of an if statement on the tag
        icfg = ctx.cfg(init)
        table = {}
        for s_ in slot:
            ga_ = guard_atoms(icfg, icfg.node_of(s_.stmt))
            keys_ = [k_ for k_ in ("HP", "PS") if ("%r == tag" % k_, True) in ga_]
            if len(keys_) == 1:
                key_ = keys_[0]
            elif not keys_ and (("'HP' == tag", False) in ga_ or ("'PS' == tag", False) in ga_):
                key_ = "<else>" if ("'HP' == tag", False) in ga_ else "<else-of-PS>"
            else:
                table = None
                break
            if key_ in table:
                table = None
                break
            table[key_] = u(s_.value)
        if table is not None and "<else-of-PS>" in table:
            table = None  # `everything but PS` is HP only if no other tag value can arrive here: not read by this rule
    if (len(slot) == 1 and table is None) or (len(slot) > 1 and table is None):
        ctx.ob(init.qual, "setter-slot-follows-tag", None, init.loc(slot[0].stmt), "cannot read `%s` as a choice by tag" % u(slot[0].value)[:80])
    else:
        ok = table is not None and table.get("HP") == "self._set_HP" and (table.get("PS", table.get("<else>")) == "self._set_PS") and set(table) <= {"HP", "PS", "<else>"}
        ctx.ob(init.qual, "setter-slot-follows-tag", ok, init.loc(slot[0].stmt) if slot else init.loc(), "_set_phasing_tags is _set_HP for tag 'HP' and _set_PS for 'PS'" if ok else "setter slot binding does not follow the tag: %s" % table)
    sh = ctx.func(W + ".setup_header")
    ok = any(isinstance(c, ast.Call) and isinstance(c.func, ast.Attribute) and c.func.attr == "add_line" and "PREDEFINED_FORMATS[self.tag]" in u(c) for c in ctx.prog.calls_in(sh.node))
    ctx.ob(sh.qual, "header-line-follows-tag", ok, sh.loc(), "the FORMAT definition of the written tag is added to the header" if ok else "header line for self.tag is not added")


def r2(ctx):
    D = carrier_set(ctx)  # {'HP': loc, 'PQ': loc, 'PS': loc}
    w = ctx.func(W + ".write")
    cfg = ctx.cfg(w)
    loops = [n for n in walk_function(w.node) if isinstance(n, ast.For) and "_record_modifier" in u(n.iter)]
    ctx.require(len(loops) == 1, "record loop of PhasedVcfWriter.write not found")
    loop = loops[0]
    rec = u(loop.target)
    calls = [c for c in ctx.prog.calls_in(loop) if isinstance(c.func, ast.Attribute) and c.func.attr == "_remove_existing_phasing" and u(c.func.value) == "self"]
    ok = (None if not calls else (len(calls) == 1 and u(calls[0].args[0]) == rec))
    probs = util.check_loop_conservation(cfg, loop, lambda n: cfg.kind(n) == "stmt" and calls and any(x is calls[0] for x in ast.walk(cfg.ast(n)))) if ok else [("skip", [])]
    skips = [p for k, p in probs if k == "skip"]
    ctx.ob(w.qual, "old-phase-removed-from-every-record", ok and not skips, w.loc(calls[0]) if calls else w.loc(loop), "_remove_existing_phasing(record, ...) is passed on every path through the record loop, including records that are skipped afterwards" if ok and not skips else "a record can be written without passing _remove_existing_phasing", cfg.describe_path(skips[0]) if skips else None)
    targ = u(calls[0].args[1]) if ok and len(calls[0].args) > 1 else None
    okt = targ in ("list(sample_superreads)", "sample_superreads", "sample_superreads.keys()", "list(sample_superreads.keys())")
    ctx.ob(w.qual, "removal-covers-all-target-samples", okt, w.loc(calls[0]) if calls else w.loc(loop), "the samples whose old phase is removed are exactly the target samples (keys of sample_superreads)" if okt else "old phase is removed for %s, not for the target samples" % targ)
    # the writer removes old phase for the KEYS of sample_superreads; every target sample of every family must become a key
    run = ctx.func("whatshap.cli.phase.run_whatshap")
    pcfg = ctx.cfg(run)
    fam = [n for n in walk_function(run.node) if isinstance(n, ast.For) and "families" in u(n.iter)]
    ctx.require(len(fam) == 1, "family loop of run_whatshap not found")
    def _is_zip(e):
        return u(util.expand_single_defs(run.node, e)) in ("zip(family, superreads_list)", "list(zip(family, superreads_list))", "tuple(zip(family, superreads_list))")

    # superreads[member] = ... in a loop over zip(family, <the solver's read sets>), or the whole zip handed to update()
    keyed = {pcfg.node_of(s_.stmt) for s_ in util.store_sites(fam[0]) if s_.kind == "subscript" and u(s_.target.value) == "superreads"}
    zipl = set()
    for n_ in walk_function(fam[0]):
        if isinstance(n_, ast.For) and _is_zip(n_.iter) and any(pcfg.node_of(s_.stmt) in keyed for s_ in util.store_sites(n_) if s_.kind == "subscript" and u(s_.target.value) == "superreads"):
            zipl.add(pcfg.node_of(n_))
    for c_ in ctx.prog.calls_in(fam[0]):
        if u(c_.func) == "superreads.update" and len(c_.args) == 1 and not c_.keywords and _is_zip(c_.args[0]):
            zipl.add(pcfg.node_containing(c_))
            keyed.add(pcfg.node_containing(c_))
    probs = util.check_loop_conservation(pcfg, fam[0], lambda n: n in zipl) if zipl and keyed else [("skip", [])]
    ctx.ob(run.qual, "every-family-member-becomes-a-writer-target", not probs, run.loc(fam[0]), "every processed family stores superreads[sample] for all its members, so the writer removes their old phase on this chromosome" if not probs else "a family can be skipped before superreads[sample] is stored: its members keep all pre-existing phase information on this chromosome", pcfg.describe_path(probs[0][1]) if probs and probs[0][1] else None)
    rm = ctx.func(W + "._remove_existing_phasing")
    rcfg = ctx.cfg(rm)
    params = util.params_of(rm.node)
    sloops = [n for n in walk_function(rm.node) if isinstance(n, ast.For) and u(n.iter) == params[2]]
    ctx.require(len(sloops) == 1, "sample loop of _remove_existing_phasing not found")
    sl = sloops[0]
    head = rcfg.node_of(sl)
    ga_loop = guard_atoms(rcfg, head)
    tagdep = [t for t, p in ga_loop if "self.tag" in t]
    ctx.ob(rm.qual, "removal-independent-of-tag", not tagdep, rm.loc(sl), "the sample loop runs for both values of --tag" if not tagdep else "the removal only runs under %s: with the other tag old phase information survives" % tagdep)
    # the call object
    callvar = None
    for s in sl.body:
        if isinstance(s, ast.Assign) and isinstance(s.value, ast.Subscript) and u(s.value.value) == "%s.samples" % params[1] and u(s.value.slice) == u(sl.target):
            callvar = u(s.targets[0])
    ctx.require(callvar is not None, "call = record.samples[sample] not found")
    nogt = set()
    for t in rcfg.g.nodes:
        if rcfg.kind(t) == "test":
            for lab in ("true", "false"):
                at = atoms(rcfg.ast(t), lab == "true")
                if ("'GT' in %s" % callvar, False) in at:
                    for s in rcfg.succ(t, lab):
                        nogt.add((t, s))

    def must_pass(nodes, what):
        bad = None
        for b in rcfg.succ(head, "loop"):
            p = rcfg.find_path(b, head, avoid_nodes=nodes, avoid_edges=nogt)
            if p is not None:
                bad = [head] + p
        return bad

    # phased flag
    flag_nodes = {n for n in rcfg.g.nodes if rcfg.kind(n) == "stmt" and isinstance(rcfg.ast(n), ast.Assign) and u(rcfg.ast(n).targets[0]) == "%s.phased" % callvar and isinstance(rcfg.ast(n).value, ast.Constant) and rcfg.ast(n).value.value is False}
    bad = must_pass(flag_nodes, "phased") if flag_nodes else [head]
    tagg = any("self.tag" in t for n in flag_nodes for t, p in guard_atoms(rcfg, n))
    ctx.ob(rm.qual, "kill:phased-flag", bad is None and not tagg, rm.loc(sl), "the phased flag of every target call with a GT is cleared, for both tags" if bad is None and not tagg else "the phased flag of a target call can survive", rcfg.describe_path(bad))
    # each carrier
    for key in sorted(D):
        kill_nodes = set()
        for st in util.store_sites(rm.node):
            if st.kind != "subscript" or u(st.target.value) != callvar:
                continue
            k = util.const_key(st.target)
            covers = k == key
            cond_key = None
            if not covers and isinstance(st.target.slice, ast.Name):
                # for tag[, missing] in (<literals>): call[tag] = ...
                lp = st.stmt.parent
                while lp is not None and not isinstance(lp, ast.For):
                    lp = getattr(lp, "parent", None)
                if lp is not None and isinstance(lp.iter, (ast.Tuple, ast.List)):
                    tnames = [x.id for x in ast.walk(lp.target) if isinstance(x, ast.Name)]
                    if st.target.slice.id in tnames:
                        pos = tnames.index(st.target.slice.id)
                        for e in lp.iter.elts:
                            lit = e.elts[pos] if isinstance(e, (ast.Tuple, ast.List)) and isinstance(lp.target, (ast.Tuple, ast.List)) else e
                            if isinstance(lit, ast.Constant) and lit.value == key:
                                covers = True
                                cond_key = st.target.slice.id
                        if covers:
                            # the store may be guarded by `tag in call` only
                            ga = guard_atoms(rcfg, rcfg.node_of(st.stmt)) - guard_atoms(rcfg, rcfg.node_of(lp))
                            extra = {(t, p) for t, p in ga if not t.startswith("<iter>") and (t, p) != ("%s in %s" % (cond_key, callvar), True)}
                            if extra:
                                covers = False
                            else:
                                kill_nodes.add(rcfg.node_of(lp))
                                continue
            if covers:
                ga = guard_atoms(rcfg, rcfg.node_of(st.stmt))
                if not any("self.tag" in t for t, p in ga):
                    kill_nodes.add(rcfg.node_of(st.stmt))
        bad = must_pass(kill_nodes, key) if kill_nodes else [head]
        ctx.ob(rm.qual, "kill:%s" % key, bad is None, rm.loc(sl), "old %s (read by the decoder at %s) is cleared for every target call on every path, for both tags" % (key, D[key]) if bad is None else "old %s of a target call survives re-phasing: the decoder at %s will read it next to the new phase" % (key, D[key]), rcfg.describe_path(bad) if kill_nodes else ["no tag-independent store to %s[%r] in _remove_existing_phasing" % (callvar, key)])


def r3(ctx):
    rm = ctx.func(W + "._remove_existing_phasing")
    rcfg = ctx.cfg(rm)
    sorts = [s for s in util.store_sites(rm.node) if s.kind == "subscript" and util.const_key(s.target) == "GT" and isinstance(s.value, ast.Call) and u(s.value.func) == "sorted"]
    ok = len(sorts) == 1
    tagdep = []
    if ok:
        ga = guard_atoms(rcfg, rcfg.node_of(sorts[0].stmt))
        # the only conditions the sort may depend on: the call has a GT and no allele of it is missing
        gtx = u(sorts[0].target)
        gtnames = {gtx} | {nm for nm in [x.id for x in ast.walk(rm.node) if isinstance(x, ast.Name)] if (lambda d_: d_ is not None and u(d_) == gtx)(util.single_def(rm.node, nm))}
        def about_gt_only(t):
            if t.startswith("<iter>") or t.startswith("'GT' in "):
                return True
            return any(g_ in t for g_ in gtnames) and not any(w_ in t for w_ in ("self.tag", ".phased", "self._"))
        tagdep = [t for t, p in ga if not about_gt_only(t)]
        ok = not tagdep and u(sorts[0].value.args[0]) == "%s['GT']" % u(sorts[0].target.value)
    ctx.ob(rm.qual, "gt-sorted-for-both-tags", ok, rm.loc(sorts[0].stmt) if sorts else rm.loc(), "GT is put in ascending order whenever it is complete, whatever tag is written and whether or not the input call was phased (the HP items are listed in GT order)" if ok else "GT is only normalised under %s: with --tag HP an input genotype such as 1/0 makes the HP value decode to the opposite phase" % (tagdep or "a missing sort"))
    # in write(), the setter is called after the removal on the same record
    w = ctx.func(W + ".write")
    cfg = ctx.cfg(w)
    setter = [c for c in ctx.prog.calls_in(w.node) if u(c.func) == "self._set_phasing_tags"]
    rmc = [c for c in ctx.prog.calls_in(w.node) if u(c.func) == "self._remove_existing_phasing"]
    ok = (None if not setter else (len(setter) == 1 and len(rmc) == 1 and cfg.dominates(cfg.node_containing(rmc[0]), cfg.node_containing(setter[0]))))
    ctx.ob(w.qual, "normalisation-dominates-setter", ok, w.loc(setter[0]) if setter else w.loc(), "the removal/normalisation dominates the tag setter" if ok else "the tag setter can run without the removal/normalisation before it")
    # ... and nothing re-writes GT in another order between the normalisation and the setter: _set_HP lists its items in
    # GT order and the decoder reads them as a permutation of an ascending GT (Genotype.as_vector() is DEscending)
    for st_ in util.store_sites(w.node):
        if st_.kind == "subscript" and util.const_key(st_.target) == "GT" and st_.value is not None:
            v_ = util.resolve_locals(w.node, st_.value)
            inner = v_.args[0] if isinstance(v_, ast.Call) and u(v_.func) in ("tuple", "list") and len(v_.args) == 1 else v_
            asc = isinstance(inner, ast.Call) and u(inner.func) == "sorted" and not any(k.arg == "reverse" for k in inner.keywords)
            reaches = len(setter) == 1 and cfg.find_path(cfg.node_of(st_.stmt), cfg.node_containing(setter[0])) is not None
            if reaches:
                ctx.ob(w.qual, "gt-rewritten-in-ascending-order:%s" % u(st_.value)[:50], asc, w.loc(st_.stmt), "GT is re-written in ascending allele order before the tag setter runs" if asc else "call['GT'] = %s re-writes GT without sorting it (as_vector() is descending, e.g. 1/0): with --tag HP the items written by _set_HP then decode to the opposite phase, and HP and PS outputs disagree" % u(st_.value)[:60])


def r4(ctx):
    fi = ctx.func(V + ".VariantTable.phased_blocks_as_reads")
    cfg = ctx.cfg(fi)
    loops = [n for n in walk_function(fi.node) if isinstance(n, ast.For) and isinstance(n.iter, ast.Call) and u(n.iter.func) == "zip" and isinstance(n.target, ast.Tuple) and len(n.target.elts) == 3]
    ctx.require(len(loops) == 1, "variant loop of phased_blocks_as_reads not found")
    loop = loops[0]
    var, gt, ph = [u(e) for e in loop.target.elts]
    adds = [c for c in ast.walk(loop) if isinstance(c, ast.Call) and isinstance(c.func, ast.Attribute) and c.func.attr == "add_variant"]
    ctx.require(len(adds) >= 1, "no add_variant site in phased_blocks_as_reads")
    # locals that are just another name for the list of reads of the call's block
    block_lists = set()
    for n_ in ast.walk(loop):
        if isinstance(n_, ast.Assign):
            vtxt = u(n_.value)
            names_ = [t.id for t in n_.targets if isinstance(t, ast.Name)]
            stores_block = any(u(t) == "read_map[%s.block_id]" % ph for t in n_.targets)
            if names_ and (vtxt in ("read_map.get(%s.block_id)" % ph, "read_map[%s.block_id]" % ph) or stores_block):
                block_lists.update(names_)
            if stores_block and isinstance(n_.value, ast.Name):
                block_lists.add(n_.value.id)  # built in a local first, then stored under the block (checked below)
    for nm in list(block_lists):
        stored = any(isinstance(n_, ast.Assign) and any(u(t) == "read_map[%s.block_id]" % ph for t in n_.targets) and u(n_.value) == nm for n_ in ast.walk(loop))
        for s_, v_ in util.assignments_to(fi.node, nm):
            fresh = isinstance(v_, ast.List) and not v_.elts and stored  # `reads = []` ... `read_map[block] = reads`
            if not (isinstance(v_, ast.AST) and (fresh or u(v_) in ("read_map.get(%s.block_id)" % ph, "read_map[%s.block_id]" % ph) or any(u(t) == "read_map[%s.block_id]" % ph for t in getattr(s_, "targets", [])))):
                block_lists.discard(nm)
    need = {("%s.is_homozygous()" % gt, False): "homozygous calls are skipped", ("%s in input_variant_set" % var, True): "variants not requested are skipped", ("None is %s" % ph, False): "unphased calls are skipped"}
    for c in adds:
        ga = guard_atoms(cfg, cfg.node_containing(c))
        inner = c
        while inner is not None and not (isinstance(inner, ast.For) and inner is not loop):
            inner = getattr(inner, "parent", None)
        ok_loop = inner is not None and isinstance(inner.iter, ast.Call) and u(inner.iter.func) == "enumerate" and u(inner.iter.args[0]) == "%s.phase" % ph and isinstance(inner.target, ast.Tuple)
        i_v, a_v = ([u(e) for e in inner.target.elts] if ok_loop else (None, None))
        args = [u(a) for a in c.args]
        recv = u(c.func.value)
        if "read_map" in recv or (isinstance(c.func.value, ast.Subscript) and isinstance(c.func.value.value, ast.Name) and c.func.value.value.id in block_lists):
            ok_recv = recv == "read_map[%s.block_id][%s]" % (ph, i_v) or (isinstance(c.func.value, ast.Subscript) and isinstance(c.func.value.value, ast.Name) and c.func.value.value.id in block_lists and u(c.func.value.slice) == i_v)
            branch = "existing-block" if "read_map" in recv else "block-list:" + c.func.value.value.id
        else:
            # r = Read(...); r.add_variant(...); read_map[block].append(r) in index order
            rdef = util.single_def(inner, recv) if ok_loop else None
            app = [x for x in ast.walk(inner) if isinstance(x, ast.Call) and isinstance(x.func, ast.Attribute) and x.func.attr == "append" and (u(x.func.value) == "read_map[%s.block_id]" % ph or (isinstance(x.func.value, ast.Name) and x.func.value.id in block_lists)) and x.args and u(x.args[0]) == recv] if ok_loop else []
            ok_recv = rdef is not None and isinstance(rdef, ast.Call) and u(rdef.func) == "Read" and len(app) == 1
            branch = "new-block"
        ok = ok_loop and ok_recv and args[:2] == ["%s.position" % var, a_v]
        ctx.ob(fi.qual, "pseudo-read:%s" % branch, ok, fi.loc(c), "haplotype i of the call's block gets allele phase[i] at the variant's position" if ok else "%s: %s(%s) does not add phase[i] to read i of block phase.block_id" % (branch, u(c.func), ", ".join(args)))
        for atom, why in need.items():
            okg = atom in ga
            ctx.ob(fi.qual, "pseudo-read-guard:%s:%s%s" % (branch, "" if atom[1] else "not ", atom[0]), okg, fi.loc(c), why if okg else "add_variant is not dominated by `%s%s`" % ("" if atom[1] else "not ", atom[0]))
        okp = any("len(%s.as_vector())" % gt in t for t, p in ga)
        ctx.ob(fi.qual, "pseudo-read-guard:%s:ploidy" % branch, okp, fi.loc(c), "calls of another ploidy are skipped" if okp else "add_variant is not dominated by the ploidy test")
    # the pseudo read carries the caller's source id and numeric sample id in the slots core.Read expects
    rc = [c for c in ctx.prog.calls_in(fi.node) if u(c.func) == "Read"]
    cin = ctx.prog.functions.get("whatshap.core.Read.__cinit__")
    want = ["name", "mapq", "source_id", "sample_id"]
    slots_ok = True
    if cin is not None:
        slots_ok = util.params_of(cin.node)[1:5] == want
    ok = (None if not rc else (len(rc) == 1 and slots_ok and [u(a) for a in rc[0].args[1:4]] == ["mapq", "source_id", "numeric_sample_id"] and all(p in util.params_of(fi.node) for p in ("mapq", "source_id", "numeric_sample_id"))))
    ctx.ob(fi.qual, "pseudo-read-identity", ok, fi.loc(rc[0]) if rc else fi.loc(), "pseudo reads are created as Read(name, mapq, source_id, numeric_sample_id): they belong to the requested sample and to the VCF's source id" if ok else "the pseudo read is created as %s: its sample/source identity is not the caller's (reads are attributed to another individual)" % (u(rc[0]) if rc else "?"))
    ys = [n for n in walk_function(fi.node) if isinstance(n, ast.Expr) and isinstance(n.value, ast.Yield)]
    ok = len(ys) == 1
    if ok:
        ga = guard_atoms(cfg, cfg.node_of(ys[0]))
        rv = u(ys[0].value.value)
        ok = ("1 < len(%s)" % rv, True) in ga
    ctx.ob(fi.qual, "only-informative-reads-yielded", ok, fi.loc(ys[0]) if ys else fi.loc(), "only pseudo reads with more than one variant are yielded" if ok else "the yield is not guarded by len(read) > 1")

    # the per-chromosome phase tables are shared by all samples of a run: read() (called per sample) only looks them up
    rd = ctx.func("whatshap.cli.PhasedInputReader.read")
    shared = {"self"}
    changed = True
    while changed:
        changed = False
        for n in walk_function(rd.node):
            tgt = src = None
            if isinstance(n, ast.For):
                tgt, src = n.target, n.iter
            elif isinstance(n, ast.Assign) and len(n.targets) == 1:
                tgt, src = n.targets[0], n.value
            if tgt is None:
                continue
            inner = src.args[0] if isinstance(src, ast.Call) and u(src.func) == "enumerate" and src.args else src
            plain = not any(isinstance(x, ast.Call) for x in ast.walk(inner))  # views only: a call result is a new object
            if plain and (u(inner) == "self._vcfs" or util.root_name(inner) in shared - {"self"}):
                for t in ast.walk(tgt):
                    if isinstance(t, ast.Name) and t.id not in shared and not (isinstance(src, ast.Call) and u(src.func) == "enumerate" and isinstance(tgt, ast.Tuple) and t is tgt.elts[0]):
                        shared.add(t.id)
                        changed = True
    # the blocks of sample X become pseudo reads labelled with X's numeric id
    pcs = [c for c in ctx.prog.calls_in(rd.node) if isinstance(c.func, ast.Attribute) and c.func.attr == "phased_blocks_as_reads"]
    ctx.require(len(pcs) >= 1, "PhasedInputReader.read no longer calls phased_blocks_as_reads")
    fparams = util.params_of(fi.node)[1:]
    for c in pcs:
        amap = dict(zip(fparams, c.args))
        amap.update({k.arg: k.value for k in c.keywords if k.arg})
        sm, nid = amap.get("sample"), amap.get("numeric_sample_id")
        ok = None
        why = "cannot relate the sample and the numeric sample id passed to phased_blocks_as_reads"
        if sm is not None and nid is not None:
            nd = nid
            if isinstance(nd, ast.Name):
                d_ = util.single_def(rd.node, nd.id)
                nd = d_ if d_ is not None else nd
            sx = sm
            if isinstance(sx, ast.Name) and sx.id not in util.params_of(rd.node):
                d_ = util.single_def(rd.node, sx.id)
                sx = d_ if d_ is not None else sx
            if isinstance(nd, ast.Subscript) and u(nd.value) == "self._numeric_sample_ids":
                key = nd.slice
                if isinstance(key, ast.Name) and key.id not in util.params_of(rd.node):
                    d_ = util.single_def(rd.node, key.id)
                    key = d_ if d_ is not None else key
                ok = u(key) == u(sx)
                why = "the phase sets of `%s` are read and labelled with that sample's numeric id" % u(sx) if ok else "the phase sets of `%s` are turned into reads labelled as sample `%s`: another individual's phase (or none) is fed to the sample being phased" % (u(sx), u(key))
        ctx.ob(rd.qual, "pseudo-reads-of-the-sample-being-read", ok, rd.loc(c), why)
    bad = []
    for st in util.store_sites(rd.node):
        root = util.root_name(st.target)
        if root in shared - {"self"} or (root == "self" and "_vcfs" in u(st.target)):
            bad.append(st)
    ctx.ob(rd.qual, "phase-input-tables-only-looked-up", not bad, rd.loc(bad[0].stmt) if bad else rd.loc(), "read() never modifies the tables of the phase-input VCFs (reached through %s): every sample of the run sees every chromosome's phase sets" % sorted(shared - {"self"}) if not bad else "read() modifies the shared phase-input tables: `%s` -- a later sample of the same chromosome no longer finds the input phase sets" % bad[0].text()[:80])


def r5(ctx):
    # the phase sets of the input VCF become pseudo reads that pass read selection: the cap each sample gets is C07.R5's business
    from rules import c07

    c07.r5(ctx)


def r6(ctx):
    # whether a pseudo read fits under the cap is tested on its own span: the half-open convention between the producer of
    # (begin, end) and the coverage monitor decides this clause of C09 as it does for C07
    from rules import c07

    c07.r2(ctx)


RULES = [
    ("C09.R1", "HP and PS writer/reader grammar agreement", r1),
    ("C09.R2", "kill set: every decoder carrier cleared for every target call, both tags", r2),
    ("C09.R3", "GT normalisation (sorted) precedes the setter for both tags", r3),
    ("C09.R4", "phased blocks -> complementary pseudo reads", r4),
    ("C09.R5", "pseudo reads pass read selection under the per-sample share of the cap (C07.R5)", r5),
    ("C09.R6", "the cap is tested on the read's own (half-open) span (C07.R2)", r6),
]
# instance floors: about 60% of the instances confirmed by hand on the reference tree -- a rule that suddenly matches far fewer
# sites fails the run (exit 2); a clean-up that merges two sites into one does not
FLOORS = {"C09.R1": 9, "C09.R2": 4, "C09.R3": 1, "C09.R4": 4, "C09.R5": 4, "C09.R6": 4}
