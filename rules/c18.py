"""C18 -- priority queue and component finder: discipline clauses of the history property."""
import ast

from sa.model import walk_function, AnalysisError
from sa.norm import u, atoms, guard_atoms, linear
from sa import util
from rules import common
from rules import c03

PROPERTY = "C18"
NEEDS_PYX = True
PQ = "whatshap.priorityqueue.PriorityQueue"
MOD = "whatshap.priorityqueue"

EXPLANATION = (
    "Decides the discipline clauses of the two data structures (not heap order over all histories): R1 who may write -- self.heap / self.positions are stored to only in c_push, _swap, c_pop, "
    "c_change_score (and freed in __dealloc__), and no other module touches them; R2 slot/position pairing -- c_push records the pushed slot's index under the item, c_pop erases the popped item on both "
    "branches and re-points the moved last entry to slot 0, _swap exchanges the two slots and the two positions symmetrically; R3 restore after mutate -- c_push ends in _sift_up(new index), c_pop (size > 1) in "
    "_sift_down(0), c_change_score sifts up iff old < new else down on the item's position, _sift_up/_sift_down swap exactly when the parent is lower and descend into the larger child; the index "
    "arithmetic is (i-1)//2, 2i+1, 2i+2 and score comparison is lexicographic with the shorter vector lower; R4 -- the component finder's min-root rule (C03.R1)."
)
EXPLANATION += (
    " " + "R3 also (completeness of _sift_down): every path that ends without a swap has compared the node with its larger existing child and found it not lower (all simple paths of the function's CFG are enumerated)."
)
NOT_DECIDED = "Heap order / returned sequence over all operation sequences, and the partition reached by all merge sequences (these need execution or a model)."
ASSUMPTIONS = ["std::vector / std::unordered_map semantics of push_back, pop_back, erase, operator[]"]

WRITERS = {"c_push", "_swap", "c_pop", "c_change_score", "__dealloc__"}


def _heap_effects(fnode):
    out = []
    for st in util.store_sites(fnode):
        t = u(st.target)
        if t.startswith("self.heap") or t.startswith("self.positions"):
            out.append(st)
    return out


def r1(ctx):
    cls = ctx.prog.cls(PQ)
    n = 0
    for name, fi in sorted(cls.methods.items()):
        ctx.analysed_functions.add(fi.qual)
        for st in _heap_effects(fi.node):
            n += 1
            ok = name in WRITERS
            ctx.ob(fi.qual, "writes:%s" % st.text()[:60], ok, fi.loc(st.stmt), "%s in %s (an owner of the heap/position invariant)" % (st.text()[:60], name) if ok else "%s modifies the heap or the position map outside the four owners (c_push, _swap, c_pop, c_change_score)" % name)
    ctx.require(n >= 12, "fewer than 12 heap/position stores found (%d)" % n)
    # nobody else reaches into the queue
    bad = []
    for fi in ctx.prog.functions.values():
        if fi.module.kind not in ("py", "pyx") or fi.qual.startswith(PQ + "."):
            continue
        for a in walk_function(fi.node):
            if isinstance(a, ast.Attribute) and a.attr in ("heap", "positions") and isinstance(a.value, ast.Name) and a.value.id in ("pq", "priorityqueue", "queue"):
                bad.append((fi, a))
    ctx.ob(MOD, "no-foreign-access", not bad, bad[0][0].loc(bad[0][1]) if bad else "whatshap/", "no other module accesses .heap / .positions of a queue" if not bad else "%s reaches into the queue: %s" % (bad[0][0].qual, u(bad[0][1])))


def _stmts(fi):
    return list(fi.node.body)


def r2(ctx):
    push = ctx.func(PQ + ".c_push")
    cfg = ctx.cfg(push)
    params = util.params_of(push.node)
    score_p, item_p = params[1], params[2]
    ni = util.single_def(push.node, "newindex")
    pb = [c for c in ctx.prog.calls_in(push.node) if u(c.func) == "self.heap.push_back"]
    ok = ni is not None and u(ni) == "self.heap.size()" and len(pb) == 1
    if ok:
        n_def = cfg.node_of(util.stmt_of(ni))
        n_pb = cfg.node_containing(pb[0])
        ok = cfg.dominates(n_def, n_pb) and cfg.find_path(n_pb, n_def) is None
    ctx.ob(push.qual, "new-index-is-size-before-push", ok, push.loc(), "newindex = heap.size() is taken before push_back: it is the pushed slot's index" if ok else "newindex is not the size before push_back")
    st = [s for s in util.store_sites(push.node) if s.kind == "subscript" and u(s.target.value) == "self.positions"]
    ok = len(st) == 1 and u(st[0].target.slice) == item_p and u(st[0].value) == "newindex"
    ctx.ob(push.qual, "position-of-pushed-item", ok, push.loc(st[0].stmt) if st else push.loc(), "positions[item] = index of the pushed slot" if ok else "positions[...] is not set to the pushed slot's index under the pushed item")
    ent = {u(s.target): u(s.value) for s in util.store_sites(push.node) if s.kind == "attr" and u(s.target.value) == "entry"}
    ok = ent == {"entry.first": score_p, "entry.second": item_p} and pb and u(pb[0].args[0]) == "entry"
    ctx.ob(push.qual, "entry-holds-score-and-item", ok, push.loc(), "the pushed entry is (score, item)" if ok else "pushed entry fields are %s" % ent)
    pop = ctx.func(PQ + ".c_pop")
    pcfg = ctx.cfg(pop)
    fe = util.single_def(pop.node, "first_entry")
    le = util.single_def(pop.node, "last_entry")
    ok = fe is not None and u(fe) == "self.heap[0]" and le is not None and u(le) == "self.heap[self.heap.size() - 1]"
    ctx.ob(pop.qual, "first-and-last-entry", ok, pop.loc(), "first_entry = heap[0], last_entry = heap[size-1]" if ok else "first/last entry definitions changed")
    erases = {pcfg.node_containing(c) for c in ctx.prog.calls_in(pop.node) if u(c.func) == "self.positions.erase" and u(c.args[0]) == "first_entry.second"}
    rets = [n for n in walk_function(pop.node) if isinstance(n, ast.Return)]
    ok = len(rets) == 1 and u(rets[0].value) == "first_entry"
    bad = None
    for r_ in rets:
        p = pcfg.find_path(pcfg.entry, pcfg.node_of(r_), avoid_nodes=erases)
        if p is not None:
            bad = p
    ctx.ob(pop.qual, "popped-item-erased-on-every-path", ok and bad is None and bool(erases), pop.loc(), "positions.erase(popped item) is passed on every path to the return of the popped entry" if ok and bad is None and erases else "an item can be popped while its position entry stays in the map", pcfg.describe_path(bad))
    pops = {pcfg.node_containing(c) for c in ctx.prog.calls_in(pop.node) if u(c.func) == "self.heap.pop_back"}
    bad = None
    for r_ in rets:
        p = pcfg.find_path(pcfg.entry, pcfg.node_of(r_), avoid_nodes=pops)
        if p is not None:
            bad = p
    ctx.ob(pop.qual, "heap-shrinks-on-every-path", bad is None and bool(pops), pop.loc(), "heap.pop_back() is passed on every path that returns an entry" if bad is None and pops else "an entry can be returned without the heap shrinking", pcfg.describe_path(bad))
    mv = [s for s in util.store_sites(pop.node) if s.kind == "subscript" and u(s.target) == "self.heap[0]"]
    rp = [s for s in util.store_sites(pop.node) if s.kind == "subscript" and u(s.target) == "self.positions[last_entry.second]"]
    ok = len(mv) == 1 and u(mv[0].value) == "last_entry" and len(rp) == 1 and u(rp[0].value) == "0" and mv[0].stmt.parent is rp[0].stmt.parent
    if ok:
        ga = guard_atoms(pcfg, pcfg.node_of(mv[0].stmt))
        ok = ("1 == self.heap.size()", False) in ga
    ctx.ob(pop.qual, "moved-last-entry-repointed-to-0", ok, pop.loc(mv[0].stmt) if mv else pop.loc(), "when more than one entry exists the last entry moves to slot 0 and its position becomes 0" if ok else "moving the last entry to slot 0 is not paired with positions[that item] = 0 under size != 1")
    emp = [n for n in walk_function(pop.node) if isinstance(n, ast.If) and atoms(n.test, True) == {("0 == self.heap.size()", True)} and any(isinstance(b, ast.Raise) for b in n.body)]
    ctx.ob(pop.qual, "empty-queue-raises", len(emp) == 1, pop.loc(), "popping an empty queue raises" if emp else "no raise on empty queue")
    sw = ctx.func(PQ + "._swap")
    i1, i2 = util.params_of(sw.node)[1:3]
    defs = {k: util.single_def(sw.node, k) for k in ("entry1", "entry2", "pos1", "pos2")}
    ok = all(v is not None for v in defs.values()) and u(defs["entry1"]) == "self.heap[%s]" % i1 and u(defs["entry2"]) == "self.heap[%s]" % i2 and u(defs["pos1"]) == "self.positions[entry1.second]" and u(defs["pos2"]) == "self.positions[entry2.second]"
    stores = {u(s.target): u(s.value) for s in util.store_sites(sw.node) if s.kind == "subscript"}
    ok = ok and stores == {"self.positions[entry1.second]": "pos2", "self.positions[entry2.second]": "pos1", "self.heap[%s]" % i1: "entry2", "self.heap[%s]" % i2: "entry1"}
    ctx.ob(sw.qual, "symmetric-exchange", ok, sw.loc(), "_swap exchanges the two slots and the two recorded positions" if ok else "_swap stores are %s" % stores)
    # reads happen before the writes
    if ok:
        scfg = ctx.cfg(sw)
        first_store = min(scfg.node_of(s.stmt) for s in util.store_sites(sw.node) if s.kind == "subscript")
        reads_ok = all(scfg.find_path(first_store, scfg.node_of(util.stmt_of(v))) is None for v in defs.values())
        ctx.ob(sw.qual, "reads-before-writes", reads_ok, sw.loc(), "both entries and positions are read before anything is overwritten" if reads_ok else "_swap overwrites a slot before reading it")


def r3(ctx):
    push = ctx.func(PQ + ".c_push")
    last = push.node.body[-1]
    ok = isinstance(last, ast.Expr) and u(last.value) == "self._sift_up(newindex)"
    ctx.ob(push.qual, "push-ends-in-sift-up", ok, push.loc(last), "c_push restores the heap with _sift_up(new index) as its last step" if ok else "c_push does not end in _sift_up(newindex)")
    pop = ctx.func(PQ + ".c_pop")
    pcfg = ctx.cfg(pop)
    sd = [c for c in ctx.prog.calls_in(pop.node) if u(c.func) == "self._sift_down"]
    ok = len(sd) == 1 and u(sd[0].args[0]) == "0"
    if ok:
        mv = [s for s in util.store_sites(pop.node) if s.kind == "subscript" and u(s.target) == "self.heap[0]"]
        rp = [s for s in util.store_sites(pop.node) if s.kind == "subscript" and u(s.target).startswith("self.positions[last_entry")]
        n_sd = pcfg.node_containing(sd[0])
        ok = bool(mv) and bool(rp) and all(pcfg.dominates(pcfg.node_of(s.stmt), n_sd) for s in mv + rp)
        ers = [c for c in ctx.prog.calls_in(pop.node) if u(c.func) in ("self.positions.erase", "self.heap.pop_back")]
        same_branch = [c for c in ers if util.stmt_of(c).parent is mv[0].stmt.parent]
        ok = ok and all(pcfg.find_path(n_sd, pcfg.node_containing(c)) is None for c in same_branch)
    ctx.ob(pop.qual, "pop-ends-in-sift-down-0", ok, pop.loc(sd[0]) if sd else pop.loc(), "after moving the last entry to the root, c_pop restores the heap with _sift_down(0) once all bookkeeping is done" if ok else "c_pop does not finish the size > 1 branch with _sift_down(0)")
    cs = ctx.func(PQ + ".c_change_score")
    ccfg = ctx.cfg(cs)
    params = util.params_of(cs.node)
    item_p, new_p = params[1], params[2]
    posd = util.single_def(cs.node, "position")
    old = util.single_def(cs.node, "c_old_score")
    st = [s for s in util.store_sites(cs.node) if s.kind == "attr" and u(s.target) == "self.heap[position].first"]
    ok = posd is not None and u(posd) == "self.positions[%s]" % item_p and old is not None and u(old) == "self.heap[position].first" and len(st) == 1 and u(st[0].value) == new_p
    if ok:
        ok = ccfg.find_path(ccfg.node_of(st[0].stmt), ccfg.node_of(util.stmt_of(old))) is None
    ctx.ob(cs.qual, "score-replaced-at-the-items-slot", ok, cs.loc(), "the old score is read, then the new score stored, at positions[item]" if ok else "change_score does not replace the score at the item's recorded slot")
    ups = [c for c in ctx.prog.calls_in(cs.node) if u(c.func) == "self._sift_up"]
    downs = [c for c in ctx.prog.calls_in(cs.node) if u(c.func) == "self._sift_down"]
    ok = len(ups) == 1 and len(downs) == 1 and u(ups[0].args[0]) == "position" and u(downs[0].args[0]) == "position"
    if ok:
        gu = guard_atoms(ccfg, ccfg.node_containing(ups[0]))
        gd = guard_atoms(ccfg, ccfg.node_containing(downs[0]))
        t = "_vector_score_lower(c_old_score, %s)" % new_p
        ok = (t, True) in gu and (t, False) in gd
    ctx.ob(cs.qual, "sift-direction-follows-score-change", ok, cs.loc(), "an increased score sifts up, anything else sifts down" if ok else "sift direction is not `old < new -> up else down`")
    # _sift_up / _sift_down are judged on their path summaries (recursion or loop, one block per case or one shared
    # block after choosing the child, temporaries or not): see sa/pathfx.py
    from sa import pathfx

    def calls_named(ps, name):
        return [e_ for e_ in ps.effects if e_[0] == "call" and u(e_[1].func) == name]

    su = ctx.func(PQ + "._sift_up")
    sucfg = ctx.cfg(su)
    idx = util.params_of(su.node)[1]
    P = "_parent(%s)" % idx
    sums = pathfx.summaries(sucfg)
    ctx.require(len(sums) >= 2, "_sift_up has fewer than two feasible paths")
    bad = None
    n_swap_paths = 0
    for ps in sums:
        sw = calls_named(ps, "self._swap")
        low = ps.has("self._score_lower(%s, %s)" % (P, idx), True)
        root = ps.has("%s < 0" % P, True)
        if sw:
            n_swap_paths += 1
            first = sw[0][1]
            args = {u(a_) for a_ in first.args}
            cont = any(u(e_[1].args[0]) == P for e_ in calls_named(ps, "self._sift_up") if e_[1].args) or (idx in ps.env and u(ps.env[idx]) in (P, "_parent(%s)" % P) or u(ps.env.get(idx, ast.Name(id=idx))).startswith("_parent("))
            if not (args == {P, idx} and low and ps.has("%s < 0" % P, False) and cont):
                bad = (ps, "swaps %s without `parent exists and parent lower` having been established, or does not continue at the parent" % sorted(args))
        else:
            A_, B_ = "%s < 0" % P, "self._score_lower(%s, %s)" % (P, idx)
            if not common.path_implies(ps.atoms, [A_, B_], lambda env: env[A_] or not env[B_]):
                bad = (ps, "stops although the parent was not found to be missing or not lower")
    ok = bad is None and n_swap_paths >= 1
    ctx.ob(su.qual, "sift-up-swaps-when-parent-lower", ok, su.loc(), "a node is swapped with its parent exactly when the parent exists and its score is lower, then the walk continues at the parent (all %d paths)" % len(sums) if ok else "_sift_up %s" % (bad[1] if bad else "never swaps"), sucfg.describe_path(bad[0].path) if bad else None)
    sdn = ctx.func(PQ + "._sift_down")
    dcfg = ctx.cfg(sdn)
    idx = util.params_of(sdn.node)[1]
    L, R = "_left_child(%s)" % idx, "_right_child(%s)" % idx
    sums = pathfx.summaries(dcfg)
    ctx.require(len(sums) >= 3, "_sift_down has fewer than three feasible paths")
    lowf = lambda ps, a_, b_, pol: ps.has("self._score_lower(%s, %s)" % (a_, b_), pol)
    n_sw = 0
    lacking = None
    n_quiet = 0
    swapped_children = set()
    for ps in sums:
        sw = calls_named(ps, "self._swap")
        both = ps.has("%s < self.heap.size()" % R, True)
        left_only = ps.has("%s < self.heap.size()" % R, False) and ps.has("%s < self.heap.size()" % L, True)
        if sw:
            first = sw[0][1]
            ch = [u(a_) for a_ in first.args if u(a_) != idx]
            n_sw += 1
            okc = len(ch) == 1 and ch[0] in (L, R) and len(first.args) == 2
            cond = bigger = follow = False
            if okc:
                c_ = ch[0]
                other = R if c_ == L else L
                cond = lowf(ps, idx, c_, True)
                if both:
                    bigger = lowf(ps, other, c_, True) or lowf(ps, c_, other, False)
                else:
                    bigger = c_ == L and left_only
                follow = any(e_[1].args and u(e_[1].args[0]) == c_ for e_ in calls_named(ps, "self._sift_down")) or u(ps.env.get(idx, ast.Name(id=idx))) == c_
                swapped_children.add(("both" if both else "left-only", c_))
            short = (ch[0].replace(L, "left child").replace(R, "right child") if ch else "?")
            ctx.ob(sdn.qual, "sift-down-into-larger-child:%s#%d" % (short, n_sw), okc and cond and bigger and follow, sdn.loc(sw[0][3]), "swap with the %s only if the node is lower than it and it is the larger existing child; continue there" % short if okc and cond and bigger and follow else "_sift_down swaps with %s without it being the larger child / without the node being lower / without continuing there" % short, None if okc and cond and bigger and follow else dcfg.describe_path(ps.path))
        else:
            n_quiet += 1
            if both:
                fine = any((lowf(ps, o_, X, True) or lowf(ps, X, o_, False)) and lowf(ps, idx, X, False) for X, o_ in ((R, L), (L, R)))
            elif left_only:
                fine = lowf(ps, idx, L, False)
            else:
                fine = ps.has("%s < self.heap.size()" % R, False) and ps.has("%s < self.heap.size()" % L, False)
            if not fine and lacking is None:
                lacking = ps
    ctx.ob(sdn.qual, "sift-down-stops-only-above-both-children", lacking is None and n_quiet >= 3, sdn.loc(), "on each of the %d paths that end without a swap the node was compared with its larger existing child (or has none) and found not lower" % n_quiet if lacking is None else "_sift_down can stop although the node was never compared with its larger child (e.g. both children equal): the heap order is left violated", dcfg.describe_path(lacking.path) if lacking else None)
    okcov = {("both", L), ("both", R), ("left-only", L)} <= swapped_children
    ctx.ob(sdn.qual, "children-indices", okcov, sdn.loc(), "children are _left_child(i), _right_child(i); a swap is possible with either child when both exist and with the left one when it is the only one" if okcov else "_sift_down does not cover the three cases (both children: left / right larger; left child only): %s" % sorted(swapped_children))
    for name, want in (("_parent", {"index": 1, "": -1}), ("_left_child", None), ("_right_child", None)):
        f = ctx.func(MOD + "." + name)
        ret = [n for n in walk_function(f.node) if isinstance(n, ast.Return)][0].value
        if name == "_parent":
            ok = isinstance(ret, ast.BinOp) and isinstance(ret.op, ast.FloorDiv) and linear(ret.left) == {"index": 1, "": -1} and u(ret.right) == "2"
        else:
            ok = linear(ret) == {"index": 2, "": 1 if name == "_left_child" else 2}
        ctx.ob(f.qual, "index-arithmetic", ok, f.loc(), "%s(i) = %s" % (name, u(ret)) if ok else "%s(i) is %s" % (name, u(ret)))
    vl = ctx.func(MOD + "._vector_score_lower")
    vcfg = ctx.cfg(vl)
    a, b = util.params_of(vl.node)[:2]
    rets = [n for n in walk_function(vl.node) if isinstance(n, ast.Return)]
    okl = True
    seen = set()
    for r_ in rets:
        ga = guard_atoms(vcfg, vcfg.node_of(r_))
        val = r_.value.value if isinstance(r_.value, ast.Constant) else None
        inloop = any(t.startswith("<iter>") for t, p in ga)
        if inloop:
            lt = ("%s[0][i] < %s[0][i]" % (a, b), True) in ga
            gt = ("%s[0][i] < %s[0][i]" % (b, a), True) in ga
            if lt and val is True:
                seen.add("lt")
            elif gt and val is False:
                seen.add("gt")
            else:
                okl = False
        else:
            shorter = ("%s[0].size() < %s[0].size()" % (a, b), True) in ga
            notshorter = ("%s[0].size() < %s[0].size()" % (a, b), False) in ga
            if shorter and val is True:
                seen.add("short")
            elif notshorter and val is False:
                seen.add("notshort")
            else:
                okl = False
    ctx.ob(vl.qual, "lexicographic-lower", okl and seen == {"lt", "gt", "short", "notshort"}, vl.loc(), "scores compare lexicographically; on a common prefix the shorter vector is lower" if okl and seen == {"lt", "gt", "short", "notshort"} else "_vector_score_lower is not the lexicographic `<` (cases seen: %s)" % sorted(seen))
    sl = ctx.func(PQ + "._score_lower")
    ret = [n for n in walk_function(sl.node) if isinstance(n, ast.Return)][0].value
    i1, i2 = util.params_of(sl.node)[1:3]
    ok = u(ret) == "_vector_score_lower(entry1.first, entry2.first)" and u(util.single_def(sl.node, "entry1")) == "self.heap[%s]" % i1 and u(util.single_def(sl.node, "entry2")) == "self.heap[%s]" % i2
    ctx.ob(sl.qual, "score-lower-compares-slots-in-order", ok, sl.loc(), "_score_lower(i, j) = score(heap[i]) < score(heap[j])" if ok else "_score_lower compares %s" % u(ret))


def r4(ctx):
    c03.r1(ctx)


RULES = [
    ("C18.R1", "only the four owners write heap / positions", r1),
    ("C18.R2", "slot/position pairing in push, pop, swap", r2),
    ("C18.R3", "heap restored after every mutation; sift and compare primitives", r3),
    ("C18.R4", "component finder: smaller root stays representative", r4),
]
FLOORS = {"C18.R1": 13, "C18.R2": 10, "C18.R3": 14, "C18.R4": 8}
