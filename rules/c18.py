"""C18 -- priority queue and component finder: discipline clauses of the history property."""
import ast

from sa.model import walk_function, AnalysisError
from sa.norm import u, atoms, guard_atoms, linear
from sa import util
from rules import common
from rules import c03

PROPERTY = "C18"
NEEDS_PYX = True
PQ = "whatshap.priorityqueue.PriorityQueue"
MOD = "whatshap.priorityqueue"

EXPLANATION = (
    "Decides the discipline clauses of the two data structures (not heap order over all histories): R1 who may write -- self.heap / self.positions are stored to only in c_push, _swap, c_pop, "
    "c_change_score (and freed in __dealloc__), and no other module touches them; R2 slot/position pairing -- c_push records the pushed slot's index under the item, c_pop erases the popped item on both "
    "branches and re-points the moved last entry to slot 0, _swap exchanges the two slots and the two positions symmetrically; R3 restore after mutate -- c_push ends in _sift_up(new index), c_pop (size > 1) in "
    "_sift_down(0), c_change_score sifts up iff old < new else down on the item's position, _sift_up/_sift_down swap exactly when the parent is lower and descend into the larger child; the index "
    "arithmetic is (i-1)//2, 2i+1, 2i+2 and score comparison is lexicographic with the shorter vector lower; R4 -- the component finder's min-root rule (C03.R1)."
)
EXPLANATION += (
    " " + "R3 also (completeness of _sift_down): every path that ends without a swap has compared the node with its larger existing child and found it not lower (all simple paths of the function's CFG are enumerated)."
)
EXPLANATION += (
    " " + "R1 also: outside the owners a subscript read of the position map (which creates a missing entry on a C++ unordered_map) needs an established find(); c_push assigns the pushed item's index (insert()/emplace() would keep an old entry)."
)
NOT_DECIDED = "Heap order / returned sequence over all operation sequences, and the partition reached by all merge sequences (these need execution or a model)."
ASSUMPTIONS = ["std::vector / std::unordered_map semantics of push_back, pop_back, erase, operator[]"]

WRITERS = {"c_push", "_swap", "c_pop", "c_change_score", "__dealloc__"}


def _heap_effects(fnode):
    out = []
    for st in util.store_sites(fnode):
        t = u(st.target)
        if t.startswith("self.heap") or t.startswith("self.positions"):
            out.append(st)
    return out


def r1(ctx):
    cls = ctx.prog.cls(PQ)
    n = 0
    for name, fi in sorted(cls.methods.items()):
        ctx.analysed_functions.add(fi.qual)
        for st in _heap_effects(fi.node):
            n += 1
            ok = name in WRITERS
            ctx.ob(fi.qual, "writes:%s" % st.text()[:60], ok, fi.loc(st.stmt), "%s in %s (an owner of the heap/position invariant)" % (st.text()[:60], name) if ok else "%s modifies the heap or the position map outside the four owners (c_push, _swap, c_pop, c_change_score)" % name)
    ctx.require(n >= 12, "fewer than 12 heap/position stores found (%d)" % n)
    # a look-up is no write: on a C++ unordered_map `positions[k]` CREATES the entry k -> 0 when k is absent, so outside the
    # owners a subscript read needs an established find(k) != end() (or it plants a stale index 0 for an item not queued)
    for name, fi in sorted(cls.methods.items()):
        if name in WRITERS:
            continue
        fcfg = None
        for a in walk_function(fi.node):
            if isinstance(a, ast.Subscript) and isinstance(a.ctx, ast.Load) and u(a.value) == "self.positions":
                fcfg = fcfg or ctx.cfg(fi)
                key = u(a.slice)
                ga = util.expanded_guard_atoms(fcfg, fi.node, fcfg.node_containing(a))
                found = any((not pol) and t in ("self.positions.end() == self.positions.find(%s)" % key, "self.positions.find(%s) == self.positions.end()" % key) for t, pol in ga) or any(pol and t in ("0 < self.positions.count(%s)" % key, "self.positions.count(%s)" % key, "0 != self.positions.count(%s)" % key) for t, pol in ga) or any((not pol) and t in ("0 == self.positions.count(%s)" % key, "self.positions.count(%s) == 0" % key, "self.positions.count(%s) < 1" % key) for t, pol in ga)
                ctx.ob(fi.qual, "lookup-does-not-create-an-entry:%s" % key, found, fi.loc(a), "positions[%s] is read only after find(%s) succeeded" % (key, key) if found else "%s reads positions[%s] without an established find(): for an item that is not queued this creates the entry %s -> 0, and a later push or swap works with that stale index" % (name, key, key))
    # ... and the owner that records a pushed item's index overwrites whatever is there (insert()/emplace() keep an old entry)
    push = cls.methods.get("c_push")
    if push is not None:
        ins = [c for c in ctx.prog.calls_in(push.node) if isinstance(c.func, ast.Attribute) and c.func.attr in ("insert", "emplace", "try_emplace") and u(c.func.value) == "self.positions"]
        ctx.ob(push.qual, "pushed-index-overwrites", not ins, push.loc(ins[0]) if ins else push.loc(), "c_push assigns the index of the pushed item" if not ins else "c_push records the index with %s(), which leaves an existing entry for the item untouched" % ins[0].func.attr)
    # nobody else reaches into the queue
    bad = []
    for fi in ctx.prog.functions.values():
        if fi.module.kind not in ("py", "pyx") or fi.qual.startswith(PQ + "."):
            continue
        for a in walk_function(fi.node):
            if isinstance(a, ast.Attribute) and a.attr in ("heap", "positions") and isinstance(a.value, ast.Name) and a.value.id in ("pq", "priorityqueue", "queue"):
                bad.append((fi, a))
    ctx.ob(MOD, "no-foreign-access", not bad, bad[0][0].loc(bad[0][1]) if bad else "whatshap/", "no other module accesses .heap / .positions of a queue" if not bad else "%s reaches into the queue: %s" % (bad[0][0].qual, u(bad[0][1])))


def _stmts(fi):
    return list(fi.node.body)


def _pop_paths(ctx):
    """Path-wise reading of c_pop (shape-independent): for heap sizes 0, 1 and >1 what is stored / erased / called, in order.
    Returns (problems: list of (key, message, path), n_paths) -- empty problems means all clauses hold; None if not analysable."""
    from sa import pathfx

    pop = ctx.func(PQ + ".c_pop")
    cfg = ctx.cfg(pop)
    try:
        sums = pathfx.summaries(cfg, include_raise=True, opaque=("first_entry", "last_entry"), feasible_only=False)  # feasibility is decided by sizes(): pop_back changes size()
    except OverflowError:
        return None, 0, pop, cfg
    SIZE = "self.heap.size()"

    SAFE = (ast.Expression, ast.Compare, ast.Constant, ast.cmpop, ast.BoolOp, ast.boolop, ast.UnaryOp, ast.unaryop, ast.BinOp, ast.operator, ast.Load)

    def num_eval(expr, size_now, nenv):
        """Value of an expression over the current heap size and locals whose value is already known (None if it is about something else)."""
        from sa.pathfx import _clone

        class T(ast.NodeTransformer):
            def visit_Call(self, node):
                if u(node) == SIZE:
                    return ast.Constant(value=size_now)
                if u(node) == "self.heap.empty()":
                    return ast.Constant(value=(size_now == 0))
                return node

            def visit_Name(self, node):
                if node.id in nenv:
                    return ast.Constant(value=nenv[node.id])
                return node

        tree = ast.Expression(body=T().visit(_clone(expr)))
        ast.fix_missing_locations(tree)
        if not all(isinstance(x, SAFE) for x in ast.walk(tree)):
            return None
        try:
            return eval(compile(tree, "<size>", "eval"), {"__builtins__": {}})
        except Exception:
            return None

    def sizes(ps):
        """Initial heap sizes (0, 1, 2, 5) under which this path is taken; the size drops by one at heap.pop_back() and a local
        keeps the value it had when it was assigned."""
        ok_n = []
        for n in (0, 1, 2, 5):
            shrunk, nenv, good = 0, {}, True
            for a_, b_ in zip(ps.path, ps.path[1:]):
                k_ = cfg.kind(a_)
                node = cfg.ast(a_)
                if k_ == "stmt" and node is not None:
                    if isinstance(node, (ast.Assign, ast.AnnAssign)) and getattr(node, "value", None) is not None:
                        tg = node.targets[0] if isinstance(node, ast.Assign) else node.target
                        if isinstance(tg, ast.Name):
                            v_ = num_eval(node.value, n - shrunk, nenv)
                            if v_ is not None:
                                nenv[tg.id] = v_
                            else:
                                nenv.pop(tg.id, None)
                    if any(isinstance(c_, ast.Call) and u(c_.func) == "self.heap.pop_back" for c_ in ast.walk(node)):
                        shrunk += 1
                elif k_ == "test" and node is not None:
                    labs = cfg.g[a_][b_]["label"].split("|")
                    if "true" in labs and "false" in labs:
                        continue
                    v_ = num_eval(node, n - shrunk, nenv)
                    if v_ is None:
                        continue
                    if bool(v_) != ("true" in labs):
                        good = False
                        break
            if good:
                ok_n.append(n)
        return ok_n

    problems = []
    seen = set()
    for ps in sums:
        ns = sizes(ps)
        eff = ps.effects
        kinds = [(e_[0], u(e_[1]) if e_[1] is not None else "", u(e_[2]) if len(e_) > 2 and e_[2] is not None else "") for e_ in eff]
        raises = any(k == "raise" for k, _, _ in kinds)
        binds = {a: c for k, a, c in kinds if k == "bind"}
        order = [(k, a, c) for k, a, c in kinds if k in ("store", "call", "return")]
        names = [("%s %s%s" % (k, a, (" = " + c) if k == "store" else "")) for k, a, c in order]
        def idx(prefix):
            for i_, nm in enumerate(names):
                if nm.startswith(prefix):
                    return i_
            return None
        for n in ns:
            seen.add(min(n, 2))
            if n == 0:
                if not raises:
                    problems.append(("empty-queue-raises", "popping an empty queue does not raise", ps))
                continue
            if raises:
                continue
            fe_ok = binds.get("first_entry") in ("self.heap[0]", "self.heap.front()")
            ret_ok = any(k == "return" and a == "first_entry" for k, a, c in order)
            er = idx("call self.positions.erase(first_entry.second)")
            pb = idx("call self.heap.pop_back()")
            mv = idx("store self.heap[0] = last_entry")
            rp = idx("store self.positions[last_entry.second] = 0")
            sd = idx("call self._sift_down(0)")
            if not fe_ok or not ret_ok:
                problems.append(("first-and-last-entry", "the popped entry is not heap[0] read before any change / not what is returned", ps))
            if er is None:
                problems.append(("popped-item-erased-on-every-path", "an item can be popped without its position being erased", ps))
            if pb is None:
                problems.append(("heap-shrinks-on-every-path", "an entry can be returned without the heap shrinking", ps))
            if n == 1:
                if mv is not None or rp is not None:
                    problems.append(("moved-last-entry-repointed-to-0", "with a single entry nothing must be moved to slot 0", ps))
            else:
                le_ok = binds.get("last_entry", "").replace(" ", "") in ("self.heap[self.heap.size()-1]", "self.heap.back()") and (pb is None or True)
                # last_entry must be read before the heap shrinks
                bind_pos = [i_ for i_, (k, a, c) in enumerate(kinds) if k == "bind" and a == "last_entry"]
                pb_pos = [i_ for i_, (k, a, c) in enumerate(kinds) if k == "call" and a.startswith("self.heap.pop_back")]
                if not le_ok or not bind_pos or (pb_pos and bind_pos[0] > pb_pos[0]):
                    problems.append(("first-and-last-entry", "the last entry is not heap[size-1] read before the heap shrinks", ps))
                if mv is None or rp is None:
                    problems.append(("moved-last-entry-repointed-to-0", "moving the last entry to slot 0 is not paired with positions[that item] = 0 when more than one entry exists", ps))
                if sd is None or any(x is not None and x > sd for x in (mv, rp, er, pb)):
                    problems.append(("pop-ends-in-sift-down-0", "c_pop does not finish the size > 1 case with _sift_down(0) after all bookkeeping", ps))
                # positions[last] = 0 must not be undone by erasing the same key: erase refers to the first entry (checked above)
    if seen != {0, 1, 2}:
        problems.append(("first-and-last-entry", "c_pop does not distinguish the heap sizes 0, 1 and more (%s)" % sorted(seen), sums[0] if sums else None))
    return problems, len(sums), pop, cfg


def r2(ctx):
    push = ctx.func(PQ + ".c_push")
    cfg = ctx.cfg(push)
    params = util.params_of(push.node)
    score_p, item_p = params[1], params[2]
    ni = util.single_def(push.node, "newindex")
    pb = [c for c in ctx.prog.calls_in(push.node) if u(c.func) == "self.heap.push_back"]
    ok = ni is not None and u(ni) == "self.heap.size()" and len(pb) == 1
    if ok:
        n_def = cfg.node_of(util.stmt_of(ni))
        n_pb = cfg.node_containing(pb[0])
        ok = cfg.dominates(n_def, n_pb) and cfg.find_path(n_pb, n_def) is None
    ctx.ob(push.qual, "new-index-is-size-before-push", ok, push.loc(), "newindex = heap.size() is taken before push_back: it is the pushed slot's index" if ok else "newindex is not the size before push_back")
    st = [s for s in util.store_sites(push.node) if s.kind == "subscript" and u(s.target.value) == "self.positions"]
    ok = (None if not st else (len(st) == 1 and u(st[0].target.slice) == item_p and u(st[0].value) == "newindex"))
    ctx.ob(push.qual, "position-of-pushed-item", ok, push.loc(st[0].stmt) if st else push.loc(), "positions[item] = index of the pushed slot" if ok else "positions[...] is not set to the pushed slot's index under the pushed item")
    ent = {u(s.target): u(s.value) for s in util.store_sites(push.node) if s.kind == "attr" and u(s.target.value) == "entry"}
    ok = ent == {"entry.first": score_p, "entry.second": item_p} and pb and u(pb[0].args[0]) == "entry"
    if not ent and pb and isinstance(pb[0].args[0], ast.Call) and u(pb[0].args[0].func) in ("queue_entry_type", "pair", "make_pair") and len(pb[0].args[0].args) == 2:
        # the pair is built in place: queue_entry_type(score, item)
        ent = {"first": u(pb[0].args[0].args[0]), "second": u(pb[0].args[0].args[1])}
        ok = ent == {"first": score_p, "second": item_p}
    elif not ent:
        ok = None
    ctx.ob(push.qual, "entry-holds-score-and-item", ok, push.loc(), "the pushed entry is (score, item)" if ok else "pushed entry fields are %s" % ent)
    problems, n_paths, pop, pcfg = _pop_paths(ctx)
    r2_keys = [("first-and-last-entry", "the popped entry is heap[0]; with more than one entry the last entry heap[size-1] is read before the heap shrinks"), ("popped-item-erased-on-every-path", "positions.erase(popped item) happens on every path that returns an entry"), ("heap-shrinks-on-every-path", "heap.pop_back() happens on every path that returns an entry"), ("moved-last-entry-repointed-to-0", "exactly when more than one entry exists the last entry moves to slot 0 and its position becomes 0"), ("empty-queue-raises", "popping an empty queue raises")]
    if problems is None:
        ctx.ob(pop.qual, "c_pop-paths", None, pop.loc(), "too many paths in c_pop")
    else:
        for key, good in r2_keys:
            bad_ = [p_ for p_ in problems if p_[0] == key]
            ctx.ob(pop.qual, key, not bad_, pop.loc(), "%s (all %d paths, heap sizes 0 / 1 / more)" % (good, n_paths) if not bad_ else bad_[0][1], pcfg.describe_path(bad_[0][2].path) if bad_ and bad_[0][2] is not None else None)
    sw = ctx.func(PQ + "._swap")
    i1, i2 = util.params_of(sw.node)[1:3]
    defs = {k: util.single_def(sw.node, k) for k in ("entry1", "entry2", "pos1", "pos2")}
    ok = all(v is not None for v in defs.values()) and u(defs["entry1"]) == "self.heap[%s]" % i1 and u(defs["entry2"]) == "self.heap[%s]" % i2 and u(defs["pos1"]) == "self.positions[entry1.second]" and u(defs["pos2"]) == "self.positions[entry2.second]"
    stores = {u(s.target): u(s.value) for s in util.store_sites(sw.node) if s.kind == "subscript"}
    ok = ok and stores == {"self.positions[entry1.second]": "pos2", "self.positions[entry2.second]": "pos1", "self.heap[%s]" % i1: "entry2", "self.heap[%s]" % i2: "entry1"}
    ctx.ob(sw.qual, "symmetric-exchange", ok, sw.loc(), "_swap exchanges the two slots and the two recorded positions" if ok else "_swap stores are %s" % stores)
    # reads happen before the writes
    if ok:
        scfg = ctx.cfg(sw)
        # per container: an entry / a position is read before anything is stored into that container (the locals are copies)
        reads_ok = True
        for k_, v in defs.items():
            cont = "self.heap" if k_.startswith("entry") else "self.positions"
            for s_ in util.store_sites(sw.node):
                if s_.kind == "subscript" and u(s_.target.value) == cont and scfg.find_path(scfg.node_of(s_.stmt), scfg.node_of(util.stmt_of(v))) is not None:
                    reads_ok = False
        ctx.ob(sw.qual, "reads-before-writes", reads_ok, sw.loc(), "both entries and positions are read before anything is overwritten" if reads_ok else "_swap overwrites a slot before reading it")


def r3(ctx):
    push = ctx.func(PQ + ".c_push")
    last = push.node.body[-1]
    ok = isinstance(last, ast.Expr) and u(last.value) == "self._sift_up(newindex)"
    ctx.ob(push.qual, "push-ends-in-sift-up", ok, push.loc(last), "c_push restores the heap with _sift_up(new index) as its last step" if ok else "c_push does not end in _sift_up(newindex)")
    problems, n_paths, pop, pcfg = _pop_paths(ctx)
    if problems is None:
        ctx.ob(pop.qual, "pop-ends-in-sift-down-0", None, pop.loc(), "too many paths in c_pop")
    else:
        bad_ = [p_ for p_ in problems if p_[0] == "pop-ends-in-sift-down-0"]
        ctx.ob(pop.qual, "pop-ends-in-sift-down-0", not bad_, pop.loc(), "after moving the last entry to the root, c_pop restores the heap with _sift_down(0) once all bookkeeping is done" if not bad_ else bad_[0][1], pcfg.describe_path(bad_[0][2].path) if bad_ and bad_[0][2] is not None else None)
    cs = ctx.func(PQ + ".c_change_score")
    ccfg = ctx.cfg(cs)
    params = util.params_of(cs.node)
    item_p, new_p = params[1], params[2]
    posd = util.single_def(cs.node, "position")
    old = util.single_def(cs.node, "c_old_score")
    st = [s for s in util.store_sites(cs.node) if s.kind == "attr" and u(s.target) == "self.heap[position].first"]
    ok = posd is not None and u(posd) == "self.positions[%s]" % item_p and old is not None and u(old) == "self.heap[position].first" and len(st) == 1 and u(st[0].value) == new_p
    if ok:
        ok = ccfg.find_path(ccfg.node_of(st[0].stmt), ccfg.node_of(util.stmt_of(old))) is None
    ctx.ob(cs.qual, "score-replaced-at-the-items-slot", ok, cs.loc(), "the old score is read, then the new score stored, at positions[item]" if ok else "change_score does not replace the score at the item's recorded slot")
    ups = [c for c in ctx.prog.calls_in(cs.node) if u(c.func) == "self._sift_up"]
    downs = [c for c in ctx.prog.calls_in(cs.node) if u(c.func) == "self._sift_down"]
    ok = (None if not ups else (len(ups) == 1 and len(downs) == 1 and u(ups[0].args[0]) == "position" and u(downs[0].args[0]) == "position"))
    if ok:
        # a flag local that holds the comparison stands for it (the comparison reads the two score vectors, which nothing
        # changes before the sift)
        gu = util.expanded_guard_atoms(ccfg, cs.node, ccfg.node_containing(ups[0]), keep=("c_old_score", "position"))
        gd = util.expanded_guard_atoms(ccfg, cs.node, ccfg.node_containing(downs[0]), keep=("c_old_score", "position"))
        t = "_vector_score_lower(c_old_score, %s)" % new_p
        ok = (t, True) in gu and (t, False) in gd
    ctx.ob(cs.qual, "sift-direction-follows-score-change", ok, cs.loc(), "an increased score sifts up, anything else sifts down" if ok else "sift direction is not `old < new -> up else down`")
    if len(st) == 1 and (ups or downs):
        sifts = {ccfg.node_containing(c_) for c_ in ups + downs}
        from sa.norm import path_atoms

        avoid_e = set()
        p_ = None
        for _ in range(6):
            p_ = ccfg.find_path(ccfg.node_of(st[0].stmt), ccfg.exit, avoid_nodes=sifts, avoid_edges=avoid_e)
            if p_ is None:
                break
            pa = path_atoms(ccfg, p_)
            lo1, lo2 = "_vector_score_lower(c_old_score, %s)" % new_p, "_vector_score_lower(%s, c_old_score)" % new_p
            if any((t_, not p0_) in pa for t_, p0_ in pa) or ((lo1, False) in pa and (lo2, False) in pa) or any(t_ in pa for t_ in (("c_old_score == %s" % new_p, True), ("%s == c_old_score" % new_p, True))):
                # contradictory (infeasible) path, or unchanged score: nothing to restore; look for another path
                tests = [(a_, b_) for a_, b_ in zip(p_, p_[1:]) if ccfg.kind(a_) == "test"]
                if not tests:
                    break
                avoid_e.add(tests[-1])
                continue
            break
        ctx.ob(cs.qual, "every-score-change-is-followed-by-a-sift", p_ is None, cs.loc(st[0].stmt), "after the score is replaced every path restores the heap with _sift_up or _sift_down on the item's position" if p_ is None else "a path through c_change_score replaces the score and returns without sifting (e.g. a node whose only child is the last leaf): a lowered entry stays above a child with a higher score and pop order is no longer non-increasing", ccfg.describe_path(p_) if p_ else None)
    # _sift_up / _sift_down are judged on their path summaries (recursion or loop, one block per case or one shared
    # block after choosing the child, temporaries or not): see sa/pathfx.py
    from sa import pathfx

    def calls_named(ps, name):
        return [e_ for e_ in ps.effects if e_[0] == "call" and u(e_[1].func) == name]

    # heap index arithmetic written in place reads as the helper it stands for: (i - 1) // 2 is _parent(i), 2 * i + 1 is
    # _left_child(i), 2 * i + 2 is _right_child(i) (any spelling with the same linear form)
    folded = {"_parent": 0, "_left_child": 0, "_right_child": 0}

    class _Fold(ast.NodeTransformer):
        def visit_BinOp(self, node):
            self.generic_visit(node)
            nm = None
            if isinstance(node.op, ast.FloorDiv) and u(node.right) == "2":
                lf = linear(node.left)
                vs = [k for k in (lf or {}) if k]
                if lf and len(vs) == 1 and lf.get(vs[0]) == 1 and lf.get("", 0) == -1:
                    nm, var = "_parent", vs[0]
            else:
                lf = linear(node)
                vs = [k for k in (lf or {}) if k]
                if lf and len(vs) == 1 and lf.get(vs[0]) == 2 and lf.get("", 0) in (1, 2):
                    nm, var = ("_left_child" if lf.get("", 0) == 1 else "_right_child"), vs[0]
            if nm is None:
                return node
            try:
                arg = ast.parse(var, mode="eval").body
            except SyntaxError:
                return node
            folded[nm] += 1
            return ast.fix_missing_locations(ast.copy_location(ast.Call(func=ast.Name(id=nm, ctx=ast.Load()), args=[arg], keywords=[]), node))

    for q_ in (PQ + "._sift_up", PQ + "._sift_down"):
        f_ = ctx.func(q_)
        if not getattr(f_.node, "_heap_folded", False):
            _Fold().visit(f_.node)
            from sa.model import set_parents

            set_parents(f_.node)
            f_.node._heap_folded = True
    su = ctx.func(PQ + "._sift_up")
    sucfg = ctx.cfg(su)
    idx = util.params_of(su.node)[1]
    P = "_parent(%s)" % idx
    sums = pathfx.summaries(sucfg)
    ctx.require(len(sums) >= 2, "_sift_up has fewer than two feasible paths")
    bad = None
    n_swap_paths = 0
    for ps in sums:
        sw = calls_named(ps, "self._swap")
        low = ps.has("self._score_lower(%s, %s)" % (P, idx), True)
        root = ps.has("%s < 0" % P, True)
        if sw:
            n_swap_paths += 1
            first = sw[0][1]
            args = {u(a_) for a_ in first.args}
            cont = any(u(e_[1].args[0]) == P for e_ in calls_named(ps, "self._sift_up") if e_[1].args) or (idx in ps.env and u(ps.env[idx]) in (P, "_parent(%s)" % P) or u(ps.env.get(idx, ast.Name(id=idx))).startswith("_parent("))
            if not (args == {P, idx} and low and ps.has("%s < 0" % P, False) and cont):
                bad = (ps, "swaps %s without `parent exists and parent lower` having been established, or does not continue at the parent" % sorted(args))
        else:
            A_, B_ = "%s < 0" % P, "self._score_lower(%s, %s)" % (P, idx)
            if not common.path_implies(ps.atoms, [A_, B_], lambda env: env[A_] or not env[B_]):
                bad = (ps, "stops although the parent was not found to be missing or not lower")
    ok = bad is None and n_swap_paths >= 1
    ctx.ob(su.qual, "sift-up-swaps-when-parent-lower", ok, su.loc(), "a node is swapped with its parent exactly when the parent exists and its score is lower, then the walk continues at the parent (all %d paths)" % len(sums) if ok else "_sift_up %s" % (bad[1] if bad else "never swaps"), sucfg.describe_path(bad[0].path) if bad else None)
    sdn = ctx.func(PQ + "._sift_down")
    dcfg = ctx.cfg(sdn)
    idx = util.params_of(sdn.node)[1]
    L, R = "_left_child(%s)" % idx, "_right_child(%s)" % idx
    sums = pathfx.summaries(dcfg)
    # loop form (`while True: ... break / index = child`): the paths of one iteration that go round again are the
    # swap-and-continue paths; the paths that leave the function are the ones that stop
    for lp_ in [n for n in walk_function(sdn.node) if isinstance(n, ast.While)]:
        sums = sums + pathfx.iteration_summaries(dcfg, lp_)
    # a child index is never the node's own index (2i+1, 2i+2 > i for i >= 0): paths that assume it are not paths
    sums = [ps for ps in sums if not any(p_ and t_ in ("%s == %s" % (idx, c_), "%s == %s" % (c_, idx)) for t_, p_ in ps.atoms for c_ in (L, R))]
    ctx.require(len(sums) >= 3, "_sift_down has fewer than three feasible paths")
    lowf = lambda ps, a_, b_, pol: ps.has("self._score_lower(%s, %s)" % (a_, b_), pol)
    n_sw = 0
    lacking = None
    n_quiet = 0
    swapped_children = set()
    for ps in sums:
        sw = calls_named(ps, "self._swap")
        # left child index < right child index (C18.R3 index-arithmetic): right in heap => left in heap, left outside => right outside
        r_in = ps.has("%s < self.heap.size()" % R, True)
        l_out = ps.has("%s < self.heap.size()" % L, False)
        r_out = ps.has("%s < self.heap.size()" % R, False) or l_out
        l_in = ps.has("%s < self.heap.size()" % L, True) or r_in
        both = r_in
        left_only = r_out and l_in and not l_out
        if sw:
            first = sw[0][1]
            ch = [u(a_) for a_ in first.args if u(a_) != idx]
            n_sw += 1
            okc = (None if not ch else (len(ch) == 1 and ch[0] in (L, R) and len(first.args) == 2))
            cond = bigger = follow = False
            if okc:
                c_ = ch[0]
                other = R if c_ == L else L
                cond = lowf(ps, idx, c_, True)
                if both:
                    bigger = lowf(ps, other, c_, True) or lowf(ps, c_, other, False)
                else:
                    bigger = c_ == L and left_only
                follow = any(e_[1].args and u(e_[1].args[0]) == c_ for e_ in calls_named(ps, "self._sift_down")) or u(ps.env.get(idx, ast.Name(id=idx))) == c_
                swapped_children.add(("both" if both else "left-only", c_))
            short = (ch[0].replace(L, "left child").replace(R, "right child") if ch else "?")
            ctx.ob(sdn.qual, "sift-down-into-larger-child:%s#%d" % (short, n_sw), okc and cond and bigger and follow, sdn.loc(sw[0][3]), "swap with the %s only if the node is lower than it and it is the larger existing child; continue there" % short if okc and cond and bigger and follow else "_sift_down swaps with %s without it being the larger child / without the node being lower / without continuing there" % short, None if okc and cond and bigger and follow else dcfg.describe_path(ps.path))
        else:
            n_quiet += 1
            if both:
                fine = any((lowf(ps, o_, X, True) or lowf(ps, X, o_, False)) and lowf(ps, idx, X, False) for X, o_ in ((R, L), (L, R)))
            elif left_only:
                fine = lowf(ps, idx, L, False)
            else:
                fine = l_out
            if not fine and lacking is None:
                lacking = ps
    ctx.ob(sdn.qual, "sift-down-stops-only-above-both-children", lacking is None and n_quiet >= 3, sdn.loc(), "on each of the %d paths that end without a swap the node was compared with its larger existing child (or has none) and found not lower" % n_quiet if lacking is None else "_sift_down can stop although the node was never compared with its larger child (e.g. both children equal): the heap order is left violated", dcfg.describe_path(lacking.path) if lacking else None)
    okcov = {("both", L), ("both", R), ("left-only", L)} <= swapped_children
    ctx.ob(sdn.qual, "children-indices", okcov, sdn.loc(), "children are _left_child(i), _right_child(i); a swap is possible with either child when both exist and with the left one when it is the only one" if okcov else "_sift_down does not cover the three cases (both children: left / right larger; left child only): %s" % sorted(swapped_children))
    for name, want in (("_parent", {"index": 1, "": -1}), ("_left_child", None), ("_right_child", None)):
        if (MOD + "." + name) not in ctx.prog.functions:
            # no helper: the arithmetic is written where it is used and was read above by its linear form
            used = any(isinstance(c_, ast.Call) and u(c_.func) == name for f2 in (su, sdn) for c_ in ast.walk(f2.node))
            ctx.ob(MOD + "." + name, "index-arithmetic", True if used else None, su.loc(), "%s(i) is written in place with the same linear form" % name if used else "neither a helper %s nor its arithmetic is found in the sift functions" % name)
            continue
        f = ctx.func(MOD + "." + name)
        ret = [n for n in walk_function(f.node) if isinstance(n, ast.Return)][0].value
        if name == "_parent":
            ok = isinstance(ret, ast.BinOp) and isinstance(ret.op, ast.FloorDiv) and linear(ret.left) == {"index": 1, "": -1} and u(ret.right) == "2"
        else:
            ok = linear(ret) == {"index": 2, "": 1 if name == "_left_child" else 2}
        ctx.ob(f.qual, "index-arithmetic", ok, f.loc(), "%s(i) = %s" % (name, u(ret)) if ok else "%s(i) is %s" % (name, u(ret)))
    vl = ctx.func(MOD + "._vector_score_lower")
    vcfg = ctx.cfg(vl)
    a, b = util.params_of(vl.node)[:2]
    # path-wise: at the first index where the vectors differ the answer is `first < second` there; equal elements are passed
    # over; when one vector is a prefix of the other the shorter one is lower
    from rules.common import tt_eval

    vsums = pathfx.summaries(vcfg)
    vloops = [n for n in walk_function(vl.node) if isinstance(n, ast.For)]
    prob = None
    vwh = [n for n in walk_function(vl.node) if isinstance(n, ast.While)]
    vbody = [x for x in vl.node.body if not (isinstance(x, ast.Expr) and isinstance(x.value, ast.Constant))]
    if not vloops and not vwh and len(vbody) == 1 and isinstance(vbody[0], ast.Return) and vbody[0].value is not None:
        # third form: the comparison is left to the container: `first[0] < second[0]` on the two vectors themselves
        # (std::vector's operator< is the lexicographic order: first differing element decides, a proper prefix is lower)
        rv = vbody[0].value
        okC = u(rv) == "%s[0] < %s[0]" % (a, b) or (isinstance(rv, ast.Compare) and len(rv.ops) == 1 and isinstance(rv.ops[0], ast.Gt) and u(rv.left) == "%s[0]" % b and u(rv.comparators[0]) == "%s[0]" % a)
        ptrs = all("priority_type" in u(x.annotation) for x in vl.node.args.args[:2] if x.annotation is not None) and all(x.annotation is not None for x in vl.node.args.args[:2])
        ctx.ob(vl.qual, "lexicographic-lower", (okC if ptrs else None), vl.loc(), "scores are compared with the vectors' own `<` (lexicographic; a proper prefix is lower)" if okC and ptrs else ("_vector_score_lower returns `%s`, not `first < second` on the two score vectors" % u(rv) if ptrs else "cannot read the parameter types of _vector_score_lower"))
    elif not vloops and len(vwh) == 1:
        # second form: skip the equal common prefix with a cursor, then let the first differing element (or the lengths) decide
        #   i = 0; common = min(size(a), size(b)); while i < common and a[i] == b[i]: i += 1
        #   if i < common: return a[i] < b[i];  return size(a) < size(b)
        w = vwh[0]
        okB = None
        if len(w.body) == 1 and isinstance(w.body[0], ast.AugAssign) and isinstance(w.body[0].op, ast.Add) and u(w.body[0].value) == "1" and isinstance(w.body[0].target, ast.Name):
            iv = w.body[0].target.id
            fe = lambda e_: u(util.expand_single_defs(vl.node, e_, keep=(iv, a, b)))
            init = [v_ for _, v_ in util.assignments_to(vl.node, iv) if isinstance(v_, ast.AST)]
            at = {(fe(ast.parse(t_, mode="eval").body), p_) for t_, p_ in atoms(w.test, True)}
            sz = ("%s[0].size()" % a, "%s[0].size()" % b)
            bound_ok = any(p_ and t_ in ("%s < min(%s, %s)" % (iv, sz[0], sz[1]), "%s < min(%s, %s)" % (iv, sz[1], sz[0])) for t_, p_ in at)
            eq_ok = any(p_ and t_ in ("%s[0][%s] == %s[0][%s]" % (a, iv, b, iv), "%s[0][%s] == %s[0][%s]" % (b, iv, a, iv)) for t_, p_ in at)
            blk_ = w.parent.body
            k_ = [j_ for j_, x_ in enumerate(blk_) if x_ is w][0]
            tail = blk_[k_ + 1:]
            form = len(init) == 1 and u(init[0]) == "0" and bound_ok and eq_ok and len(at) == 2 and isinstance(w.test, ast.BoolOp) and isinstance(w.test.op, ast.And)
            if form and len(tail) == 2 and isinstance(tail[0], ast.If) and not tail[0].orelse and len(tail[0].body) == 1 and isinstance(tail[0].body[0], ast.Return) and isinstance(tail[1], ast.Return):
                t0 = {(fe(ast.parse(t_, mode="eval").body), p_) for t_, p_ in atoms(tail[0].test, True)}
                within = t0 == {("%s < min(%s, %s)" % (iv, sz[0], sz[1]), True)} or t0 == {("%s < min(%s, %s)" % (iv, sz[1], sz[0]), True)}
                r1, r2 = fe(tail[0].body[0].value), fe(tail[1].value)
                okB = within and r1 == "%s[0][%s] < %s[0][%s]" % (a, iv, b, iv) and r2 == "%s < %s" % sz
        ctx.ob(vl.qual, "lexicographic-lower", okB, vl.loc(), "scores compare lexicographically (equal prefix skipped, first differing element decides, otherwise the shorter vector is lower)" if okB else ("_vector_score_lower (prefix-skipping form) does not return `first[i] < second[i]` at the first difference and `size(first) < size(second)` otherwise" if okB is False else "_vector_score_lower is not one loop over the common prefix followed by a length comparison"))
    elif len(vloops) != 1 or not vsums:
        ctx.ob(vl.qual, "lexicographic-lower", None, vl.loc(), "_vector_score_lower is not one loop over the common prefix followed by a length comparison")
    else:
        ivar = u(vloops[0].target)
        body_nodes = set(vcfg.loop_body_nodes(vcfg.node_of(vloops[0]))) - {vcfg.node_of(vloops[0])}
        LT, GT, EQ = "%s[0][%s] < %s[0][%s]" % (a, ivar, b, ivar), "%s[0][%s] < %s[0][%s]" % (b, ivar, a, ivar), "%s[0][%s] == %s[0][%s]" % tuple(sorted([a, b])[k // 2] if False else x for k, x in enumerate([a, ivar, b, ivar]))
        EQ = "%s[0][%s] == %s[0][%s]" % (sorted([a, b])[0], ivar, sorted([a, b])[1], ivar)
        SH, LG = "%s[0].size() < %s[0].size()" % (a, b), "%s[0].size() < %s[0].size()" % (b, a)
        covered = set()
        for ps in vsums:
            rv = ps.returns()
            if len(rv) != 1 or rv[0][1] is None:
                prob = "a path does not return a value"
                break
            in_loop = rv[0][3] is not None and any(x is rv[0][3] for x in ast.walk(vloops[0]))
            conds = []
            for t, pol in ps.atoms:
                if t.startswith("<"):
                    continue
                try:
                    conds.append((ast.parse(t, mode="eval").body, pol))
                except SyntaxError:
                    pass

            def consistent(env):
                for e_, pol in conds:
                    try:
                        if tt_eval(e_, env) != pol:
                            return False
                    except ValueError:
                        continue
                return True

            if in_loop:
                for lt, gt in ((True, False), (False, True), (False, False)):
                    env = {LT: lt, GT: gt, EQ: not lt and not gt}
                    if not consistent(env):
                        continue
                    if not lt and not gt:
                        prob = prob or "a result is returned at an index where the two elements are equal"
                        continue
                    try:
                        val = tt_eval(rv[0][1], env)
                    except ValueError as ex_:
                        prob = prob or "the value returned inside the loop is not a comparison of the two elements (%s)" % ex_
                        continue
                    covered.add("lt" if lt else "gt")
                    if val != lt:
                        prob = prob or "at the first differing index the result is %s although first %s second there" % (val, "<" if lt else ">")
            else:
                # the loop part of the path (if the body was entered) must have seen equal elements
                if any(n_ in body_nodes for n_ in ps.path):
                    for lt, gt in ((True, False), (False, True)):
                        env = {LT: lt, GT: gt, EQ: False}
                        if consistent(env):
                            prob = prob or "an index where the elements differ (first %s second) can be passed over without returning" % ("<" if lt else ">")
                for sh, lg in ((True, False), (False, True), (False, False)):
                    env = {SH: sh, LG: lg, LT: False, GT: False, EQ: True}
                    if not consistent(env):
                        continue
                    try:
                        val = tt_eval(rv[0][1], env)
                    except ValueError as ex_:
                        prob = prob or "the value returned after the loop is not a comparison of the two lengths (%s)" % ex_
                        continue
                    covered.add("short" if sh else "notshort")
                    if val != sh:
                        prob = prob or "on a common prefix the result is %s although first is %s" % (val, "shorter" if sh else "not shorter")
        if prob is None and covered != {"lt", "gt", "short", "notshort"}:
            prob = "cases covered: %s" % sorted(covered)
        ctx.ob(vl.qual, "lexicographic-lower", prob is None, vl.loc(), "scores compare lexicographically; on a common prefix the shorter vector is lower (all %d paths)" % len(vsums) if prob is None else "_vector_score_lower is not the lexicographic `<`: %s" % prob)
    sl = ctx.func(PQ + "._score_lower")
    ret = [n for n in walk_function(sl.node) if isinstance(n, ast.Return)][0].value
    i1, i2 = util.params_of(sl.node)[1:3]
    ok = u(util.expand_single_defs(sl.node, ret)) == "_vector_score_lower(self.heap[%s].first, self.heap[%s].first)" % (i1, i2)
    ctx.ob(sl.qual, "score-lower-compares-slots-in-order", ok, sl.loc(), "_score_lower(i, j) = score(heap[i]) < score(heap[j])" if ok else "_score_lower compares %s" % u(ret))


def r4(ctx):
    c03.r1(ctx)


RULES = [
    ("C18.R1", "only the four owners write heap / positions", r1),
    ("C18.R2", "slot/position pairing in push, pop, swap", r2),
    ("C18.R3", "heap restored after every mutation; sift and compare primitives", r3),
    ("C18.R4", "component finder: smaller root stays representative", r4),
]
# instance floors: about 60% of the instances confirmed by hand on the reference tree -- a rule that suddenly matches far fewer
# sites fails the run (exit 2); a clean-up that merges two sites into one does not
FLOORS = {"C18.R1": 7, "C18.R2": 6, "C18.R3": 8, "C18.R4": 4}
